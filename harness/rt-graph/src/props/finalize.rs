//! C05 — concurrent finalize commands are always detected.

use mcx::{json, Args, Level, Report, Tier};
use rtlib::dag::{Dag, MergeRank, Op};

use crate::{
    props::simrun::{finish, run_all},
    sim::{ActScript, Ev, SimOracles},
    universe::{for_each_universe, UniverseOpts},
};

/// One command per `add_commands` call, in every causal order, every cut vector over `cuts`
/// (0 = nothing, 1 = flush, 2 = commit), then a final commit, then optionally an action.
pub fn singleton_histories(dag: &Dag, cuts: &[u8], with_action: bool, f: &mut dyn FnMut(&[Ev])) {
    let parents: Vec<Vec<usize>> = dag.nodes.iter().map(|n| n.parents.clone()).collect();
    let n = dag.len();
    mcx::enumerate::linear_extensions(&parents, |order| {
        mcx::enumerate::sequences(cuts.len(), n - 1, |cs| {
            let mut evs = Vec::new();
            for (i, &x) in order.iter().enumerate() {
                evs.push(Ev::Add { trx: 0, nodes: vec![x] });
                if i < n - 1 {
                    match cuts[cs[i]] {
                        1 => evs.push(Ev::Flush { trx: 0 }),
                        2 => evs.push(Ev::Commit { trx: 0 }),
                        _ => {}
                    }
                }
            }
            evs.push(Ev::Commit { trx: 0 });
            f(&evs);
            if with_action {
                evs.push(Ev::Action(ActScript { publish: vec![(0xa0, false, 0, vec![Op::Append])], fail_after: None }));
                f(&evs);
            }
        });
    });
}

pub fn run(args: &Args) {
    let mut rep = Report::new(args, Level::ModelChecking);
    let opts = |n_min, n_max, full| UniverseOpts {
        n_min,
        n_max,
        allow_merges: true,
        prios: vec![0],
        max_finalize: 3,
        ordered_finalize_only: false,
        full_rank_perms_upto: full,
        merge_ranks: vec![MergeRank::Hash],
    };
    let fams: Vec<(&str, UniverseOpts, Vec<u8>, bool)> = match args.tier {
        Tier::Quick => vec![
            ("n<=4 finalize<=3 all orders x {none,flush,commit} + action", opts(2, 4, 4), vec![0, 1, 2], true),
            ("n=5 finalize<=3 all orders x {none,commit}", opts(5, 5, 0), vec![0, 2], false),
        ],
        Tier::Thorough => vec![
            ("n<=5 finalize<=3 all orders x {none,flush,commit} + action", opts(2, 5, 5), vec![0, 1, 2], true),
            ("n=6 finalize<=3 all orders x {none,commit}", opts(6, 6, 0), vec![0, 2], false),
        ],
    };
    let oracles = SimOracles { outcomes: true, state: true, effects: false, monotone: true };
    let mut families = Vec::new();
    for (name, o, cuts, act) in fams {
        let mut dags = Vec::new();
        for_each_universe(&o, |d| {
            if d.nodes.iter().filter(|n| n.kind == rtlib::dag::Kind::Finalize).count() >= 1 {
                dags.push(d.clone())
            }
        });
        let filter: crate::props::simrun::Filter = |c, m| (c.ends_with("-outcome") && m.contains("ParallelFinalize")) || c == "failed-op-changed-state";
        let ex = run_all(&mut rep, name, &dags, oracles, true, filter, |d, f| singleton_histories(d, &cuts, act, f));
        families.push(json!({"family": name, "universes": dags.len(), "executions": ex}));
        // Same histories, but the transaction whose merge was refused keeps being used: a later commit
        // of that transaction still has both finalize branches among its tips and must be refused too,
        // leaving the committed state unchanged (only outcomes involving ParallelFinalize and the
        // state after failed operations are judged).
        let small: Vec<Dag> = dags.iter().filter(|d| d.len() <= 4).cloned().collect();
        let ex2 = run_all(&mut rep, name, &small, oracles, false, filter, |d, f| singleton_histories(d, &cuts, false, f));
        rep.count("kept_transaction_executions", ex2);
        families.push(json!({"family": format!("{name} [transaction kept after a refused merge, n<=4]"), "universes": small.len(), "executions": ex2}));
    }
    families.extend(crate::props::spill::run_finalize_families(&mut rep, args.tier == Tier::Thorough));
    rep.require_nonzero("comb_runs_that_spilled");
    rep.require_nonzero("comb_parallel_refused");
    rep.require_nonzero("parallel_finalize_add");
    rep.require_nonzero("parallel_finalize_commit");
    finish(rep, families)
}
