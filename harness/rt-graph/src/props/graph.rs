//! C01, C02, C03, C09: exhaustive universes × histories on the real runtime vs the reference.

use std::collections::BTreeMap;

use mcx::{json, rayon::prelude::*, Args, Level, Report, Tier};
use rtlib::{
    dag::{Dag, MergeRank},
    refmodel::Ref,
};

use crate::{
    exec::{check_exec, run_history, Oracles},
    history::{all_histories, bounded_histories, Cut, History},
    universe::{for_each_universe, UniverseOpts},
};

pub struct Family {
    pub name: &'static str,
    pub opts: UniverseOpts,
    /// None = all histories; Some(b) = deviation bound
    pub bound: Option<usize>,
    pub dups: bool,
}

fn families(tier: Tier, flavour_s: bool, prop: &str) -> Vec<Family> {
    let base = |n_min, n_max, full_upto| UniverseOpts {
        n_min,
        n_max,
        allow_merges: true,
        prios: vec![0, 1],
        max_finalize: 1,
        ordered_finalize_only: true,
        full_rank_perms_upto: full_upto,
        merge_ranks: vec![MergeRank::Hash, MergeRank::Low, MergeRank::High],
    };
    let _ = flavour_s;
    if prop == "C02" && tier == Tier::Quick {
        // the structured spill families carry C02's quick tier; keep the generic part small
        return vec![
            Family { name: "n<=4 all histories", opts: UniverseOpts { merge_ranks: vec![MergeRank::Hash], ..base(1, 4, 4) }, bound: None, dups: false },
            Family { name: "n=5 <=1 deviation", opts: UniverseOpts { merge_ranks: vec![MergeRank::Hash], ..base(5, 5, 5) }, bound: Some(1), dups: true },
        ];
    }
    match tier {
        Tier::Quick => vec![
            Family { name: "n<=4 all histories", opts: base(1, 4, 4), bound: None, dups: false },
            Family { name: "n=5 <=2 deviations", opts: UniverseOpts { merge_ranks: vec![MergeRank::Hash], ..base(5, 5, 5) }, bound: Some(2), dups: true },
        ],
        Tier::Thorough => vec![
            Family { name: "n<=4 all histories", opts: base(1, 4, 4), bound: None, dups: false },
            Family { name: "n=5 <=3 deviations", opts: base(5, 5, 5), bound: Some(3), dups: true },
            Family { name: "n=6 <=2 deviations", opts: UniverseOpts { merge_ranks: vec![MergeRank::Hash], ..base(6, 6, 0) }, bound: Some(2), dups: false },
            Family { name: "n=5 all histories (reduced ranks)", opts: UniverseOpts { merge_ranks: vec![MergeRank::Hash], prios: vec![0], ..base(5, 5, 0) }, bound: None, dups: false },
            Family { name: "n=7 <=1 deviation (reduced ranks, one priority)", opts: UniverseOpts { merge_ranks: vec![MergeRank::Hash], prios: vec![0], ..base(7, 7, 0) }, bound: Some(1), dups: false },
        ],
    }
}

#[derive(Default)]
struct Acc {
    executions: u64,
    transitions: u64,
    universes: u64,
    commit_points: u64,
    multi_head_points: u64,
    merge_nodes_ingested: u64,
    spills: u64,
    states: std::collections::BTreeSet<u64>,
    outcomes: BTreeMap<String, u64>,
    violations: Vec<(String, String, mcx::Value)>,
    samples: Vec<mcx::Value>,
}

fn run_universe(dag: &Dag, fam: &Family, oracles: Oracles, convergence: bool, class_ok: fn(&str) -> bool) -> Acc {
    let mut acc = Acc::default();
    acc.universes = 1;
    let cmds = dag.cmds();
    let mut refm = Ref::new(dag);
    let mut first_by_mask: BTreeMap<u128, (u64, String, String)> = BTreeMap::new();
    let mut hs: Vec<History> = Vec::new();
    match fam.bound {
        None => all_histories(dag, &[Cut::None, Cut::Batch, Cut::Flush, Cut::Commit], |h| hs.push(h.clone())),
        Some(b) => bounded_histories(dag, b, fam.dups, |h| hs.push(h.clone())),
    }
    hs.sort();
    hs.dedup();
    for h in &hs {
        let mut ex = match mcx::catch(|| run_history(dag, &cmds, h)) {
            Ok(ex) => ex,
            Err(p) => {
                acc.executions += 1;
                *acc.outcomes.entry("violation:panic".into()).or_default() += 1;
                if acc.violations.iter().filter(|(kk, _, _)| kk.starts_with("panic:")).count() < 1 {
                    acc.violations.push((
                        format!("panic: {} / {}", dag.describe(), h.describe()),
                        format!("the runtime panicked at {}: {p}", mcx::last_panic_location()),
                        json!({"universe": dag.describe(), "history": h.describe()}),
                    ));
                }
                continue;
            }
        };
        acc.executions += 1;
        acc.transitions += ex.transitions;
        acc.spills += ex.spill_writes;
        acc.commit_points += ex.points.len() as u64;
        let vs = check_exec(dag, &mut refm, h, &mut ex, oracles);
        for (k, d) in vs {
            if !class_ok(&k) {
                continue;
            }
            *acc.outcomes.entry(format!("violation:{k}")).or_default() += 1;
            if acc.violations.iter().filter(|(kk, _, _)| kk.starts_with(&format!("{k}:"))).count() < 1 {
                acc.violations.push((
                    format!("{k}: {} / {}", dag.describe(), h.describe()),
                    d,
                    json!({"universe": dag.describe(), "history": h.describe()}),
                ));
            }
        }
        for p in &ex.points {
            if let Ok(o) = &p.obs {
                let c = o.canon();
                acc.states.insert(c);
                if o.heads.len() > 1 {
                    acc.multi_head_points += 1;
                }
                *acc.outcomes.entry(format!("heads={}", o.heads.len())).or_default() += 1;
                if convergence {
                    match first_by_mask.get(&p.mask) {
                        None => {
                            first_by_mask.insert(p.mask, (c, h.describe(), o.short()));
                        }
                        Some((c0, h0, s0)) => {
                            if *c0 != c {
                                *acc.outcomes.entry("violation:diverged".into()).or_default() += 1;
                                if acc.violations.len() < 5 {
                                    acc.violations.push((
                                        format!("diverged: {} / {} vs {}", dag.describe(), h0, h.describe()),
                                        format!("same committed set {:#b}, different observations:\n  {}: {}\n  {}: {}", p.mask, h0, s0, h.describe(), o.short()),
                                        json!({"universe": dag.describe(), "history_a": h0, "history_b": h.describe()}),
                                    ));
                                }
                            }
                        }
                    }
                }
            }
        }
        acc.merge_nodes_ingested += h.order.iter().filter(|&&x| dag.nodes[x].kind == rtlib::dag::Kind::Merge).count() as u64;
        if acc.samples.is_empty() && dag.len() >= 4 && h.cuts.iter().any(|c| *c == Cut::Flush) {
            acc.samples.push(json!({"universe": dag.describe(), "history": h.describe(),
                "final": ex.points.last().and_then(|p| p.obs.as_ref().ok()).map(|o| o.short())}));
        }
    }
    acc
}

pub fn run(args: &Args, prop: &str) {
    let mut rep = Report::new(args, Level::ModelChecking);
    let flavour_s = args.extra.get("flavour").map(|s| s == "S").unwrap_or(false);
    let (oracles, convergence) = match prop {
        "C01" => (Oracles::default(), true),
        "C02" => (Oracles { audit: true, ..Default::default() }, false),
        "C03" => (Oracles { reference_facts: true, ..Default::default() }, false),
        "C09" => (Oracles { frontier: true, ..Default::default() }, false),
        _ => unreachable!(),
    };
    // each property only reports the classes its own statement speaks about (plus runtime errors)
    let class_ok: fn(&str) -> bool = match prop {
        "C01" => |c| !matches!(c, "hello"),
        "C02" => |c| c.starts_with("audit") || matches!(c, "merge-evaluated" | "origin-twice" | "add-error" | "commit-error" | "observe-error" | "empty-commit"),
        "C03" => |c| matches!(c, "facts" | "state" | "state-read" | "locate" | "add-error" | "commit-error" | "observe-error" | "empty-commit"),
        _ => |c| matches!(c, "heads" | "heads-order" | "cmdset" | "add-error" | "commit-error" | "observe-error" | "empty-commit"),
    };
    let mut bounds = Vec::new();
    if prop == "C02" || prop == "C03" {
        let t0 = std::time::Instant::now();
        let spill_classes: fn(&str) -> bool = if prop == "C02" { |c| c.starts_with("audit") || c == "merge-evaluated" } else { |c| c == "facts" };
        bounds.extend(crate::props::spill::run_families(&mut rep, flavour_s, args.tier == Tier::Thorough, spill_classes));
        rep.set("spill_families_wall_s", t0.elapsed().as_secs_f64());
        rep.require_nonzero("runs_that_spilled");
        rep.require_nonzero("spill_reads");
    }
    if prop == "C09" {
        // histories with commands rejected at origin (parents deep in history, fresh perspectives)
        let dags = crate::props::reject::universes(2, if args.tier == Tier::Thorough { 5 } else { 4 }, 2, true);
        let cuts = [Cut::None, Cut::Batch, Cut::Flush, Cut::Commit];
        let o = crate::sim::SimOracles { outcomes: false, state: true, effects: false, monotone: false };
        let ex = crate::props::simrun::run_all(&mut rep, "rejecting commands", &dags, o, false, |c, _| matches!(c, "heads" | "cmdset"), |d, f| crate::props::reject::histories(d, &cuts, f));
        STATES.with(|s| s.borrow_mut().extend(crate::props::simrun::STATES.with(|x| x.borrow().clone())));
        bounds.push(json!({"family": "n<=4(5) with <=2 rejecting/conditional commands, all histories (heads and command set only)", "universes": dags.len(), "executions": ex}));
    }
    if prop == "C01" {
        // Replicas that hold the same commands converge even if one of them was offered commands its
        // policy refuses on the way (at every position: on top of a tip, on an interior command, first
        // of a fresh perspective or not): the committed heads, command set and facts must be those of
        // the reference for the ACCEPTED command set, which is what a replica that never saw the
        // refused commands shows.
        let dags = crate::props::reject::universes(3, if args.tier == Tier::Thorough { 5 } else { 4 }, 2, true);
        let cuts = [Cut::None, Cut::Batch, Cut::Commit];
        let o = crate::sim::SimOracles { outcomes: false, state: true, effects: false, monotone: false };
        let ex = crate::props::simrun::run_all(&mut rep, "rejecting", &dags, o, false, |c, _| matches!(c, "heads" | "cmdset" | "facts"), |d, f| crate::props::reject::histories(d, &cuts, f));
        STATES.with(|s| s.borrow_mut().extend(crate::props::simrun::STATES.with(|x| x.borrow().clone())));
        bounds.push(json!({"family": "n<=4(5) with <=2 refused/conditional commands on the way, all histories: committed state equals the reference of the accepted set", "universes": dags.len(), "executions": ex}));
    }
    if prop == "C01" && flavour_s {
        // Convergence must also survive interleaved transactions and a local action on the busy
        // replica: whatever ends up committed must show the reference state of its command set.
        let o = UniverseOpts { n_min: 2, n_max: if args.tier == Tier::Thorough { 5 } else { 4 }, allow_merges: true, prios: vec![0], max_finalize: 0, ordered_finalize_only: true, full_rank_perms_upto: 0, merge_ranks: vec![MergeRank::Hash] };
        let mut dags = Vec::new();
        let mut seen = std::collections::BTreeSet::new();
        for_each_universe(&o, |d| {
            let shape: Vec<Vec<usize>> = d.nodes.iter().map(|n| n.parents.clone()).collect();
            if seen.insert(shape) {
                dags.push(d.clone())
            }
        });
        let so = crate::sim::SimOracles { outcomes: false, state: true, effects: false, monotone: false };
        let ex = crate::props::simrun::run_all(&mut rep, "interleaved", &dags, so, false, |c, _| matches!(c, "facts" | "heads" | "hello" | "cmdset"), |d, f| crate::props::trx::cases(d, 2, true, true, f));
        STATES.with(|s| s.borrow_mut().extend(crate::props::simrun::STATES.with(|x| x.borrow().clone())));
        bounds.push(json!({"family": "2 interleaved transactions (split adds) + a local action, all interleavings: committed state == reference of the committed command set", "universes": dags.len(), "executions": ex}));
    }
    if prop == "C03" && flavour_s {
        // Braids that follow a braid aborted by ParallelFinalize (same RuntimeBuffers): facts only.
        let o = UniverseOpts { n_min: 3, n_max: if args.tier == Tier::Thorough { 5 } else { 4 }, allow_merges: true, prios: vec![0, 1], max_finalize: 3, ordered_finalize_only: false, full_rank_perms_upto: 0, merge_ranks: vec![MergeRank::Hash] };
        let mut dags = Vec::new();
        for_each_universe(&o, |d| {
            if d.nodes.iter().filter(|n| n.kind == rtlib::dag::Kind::Finalize).count() >= 2 {
                dags.push(d.clone())
            }
        });
        let so = crate::sim::SimOracles { outcomes: false, state: true, effects: false, monotone: false };
        let ex = crate::props::simrun::run_all(&mut rep, "after-aborted-braid", &dags, so, true, |c, _| matches!(c, "facts"), |d, f| crate::props::finalize::singleton_histories(d, &[0, 2], true, f));
        STATES.with(|s| s.borrow_mut().extend(crate::props::simrun::STATES.with(|x| x.borrow().clone())));
        bounds.push(json!({"family": "histories in which a braid is aborted by ParallelFinalize and later braids reuse the same buffers (facts only)", "universes": dags.len(), "executions": ex}));
    }
    let skip_small = (prop == "C02" || prop == "C03") && !flavour_s;
    let mut per_class: BTreeMap<String, u32> = BTreeMap::new();
    for fam in families(args.tier, flavour_s, prop).into_iter().filter(|_| !skip_small) {
        let mut dags = Vec::new();
        for_each_universe(&fam.opts, |d| dags.push(d.clone()));
        let accs: Vec<Acc> = dags.par_iter().map(|d| run_universe(d, &fam, oracles, convergence, class_ok)).collect();
        let mut fam_exec = 0;
        for a in accs {
            fam_exec += a.executions;
            rep.count("executions", a.executions);
            rep.count("transitions", a.transitions);
            rep.count("universes", a.universes);
            rep.count("commit_points_checked", a.commit_points);
            rep.count("multi_head_commit_points", a.multi_head_points);
            rep.count("merge_commands_ingested", a.merge_nodes_ingested);
            rep.count("spill_writes", a.spills);
            for (k, v) in a.outcomes {
                rep.outcome(&k, v);
            }
            for s in a.samples {
                rep.sample(s);
            }
            for (k, d, r) in a.violations {
                let class = k.split(':').next().unwrap_or("").to_string();
                let c = per_class.entry(class).or_insert(0u32);
                *c += 1;
                if *c <= 4 {
                    rep.violation(k, d, r);
                }
            }
            STATES.with(|s| s.borrow_mut().extend(a.states));
        }
        bounds.push(json!({"family": fam.name, "universes": dags.len(), "executions": fam_exec}));
    }
    let states = STATES.with(|s| s.borrow().len() as u64);
    rep.set("states", states);
    let ex = rep.counter("executions");
    rep.set("traces_validated_against_impl", ex);
    rep.set("exhaustive", true);
    rep.set("families", mcx::Value::Array(bounds));
    rep.set("flavour", if flavour_s { "S" } else { "P" });
    if !skip_small {
        rep.require_nonzero("multi_head_commit_points");
        rep.require_nonzero("merge_commands_ingested");
    }
    rep.assume("the memory-backed linear storage provider (same LinearStorage code as the file backend, different IoManager)");
    rep.assume("AuditPolicy rules are check-then-write, so a braid-time rejection writes nothing");
    rep.finish()
}

thread_local! {
    pub static STATES: std::cell::RefCell<std::collections::BTreeSet<u64>> = const { std::cell::RefCell::new(std::collections::BTreeSet::new()) };
}
