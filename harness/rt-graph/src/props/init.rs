//! C10 — a graph is bound to its init command.
//!
//! Exhaustive decision table: first-command shapes × batch length ≤ 3 × {graph absent, graph
//! present}, plus every position of an init-like command in later batches.

use mcx::{json, Args, Level, Report};
use rtlib::{
    dag::{basic_id, encode_payload, Cmd, Op},
    replica::{addr, graph_id_of, MemReplica},
    rt::{Address, ClientError, GraphId, Prior, Priority, StorageProvider as _},
};

#[derive(Clone, Copy, Debug, PartialEq, Eq, Hash, PartialOrd, Ord)]
enum Shape {
    /// parentless, id == graph id, with policy
    ProperInit,
    /// parentless, other id, with policy
    ForeignInit,
    /// id == graph id but with a parent
    InitIdWithParent,
    /// parentless, id == graph id, no policy
    InitNoPolicy,
    /// ordinary child of the init command
    BasicChild,
    /// ordinary child of the previous basic child (index 1)
    BasicGrandChild,
    /// merge of two unknown parents
    Merge,
}

const SHAPES: [Shape; 7] = [
    Shape::ProperInit,
    Shape::ForeignInit,
    Shape::InitIdWithParent,
    Shape::InitNoPolicy,
    Shape::BasicChild,
    Shape::BasicGrandChild,
    Shape::Merge,
];

fn mk(shape: Shape, pos: usize) -> Cmd {
    let init_id = basic_id(0x08, 0);
    let init_addr = addr(init_id, 0);
    let child_id = basic_id(0x20, 1);
    let pay = |n: &str| encode_payload(n, &[Op::Append]);
    match shape {
        Shape::ProperInit => Cmd { id: init_id, prior: Prior::None, priority: Priority::Init, policy: Some(vec![2]), data: pay("a") },
        Shape::ForeignInit => Cmd { id: basic_id(0x09, 77), prior: Prior::None, priority: Priority::Init, policy: Some(vec![2]), data: pay("z") },
        Shape::InitIdWithParent => Cmd { id: init_id, prior: Prior::Single(addr(basic_id(0x30, 9), 0)), priority: Priority::Basic(0), policy: Some(vec![2]), data: pay("a") },
        Shape::InitNoPolicy => Cmd { id: init_id, prior: Prior::None, priority: Priority::Init, policy: None, data: pay("a") },
        Shape::BasicChild => Cmd { id: child_id, prior: Prior::Single(init_addr), priority: Priority::Basic(0), policy: None, data: pay("b") },
        Shape::BasicGrandChild => Cmd { id: basic_id(0x40, 2 + pos), prior: Prior::Single(addr(child_id, 1)), priority: Priority::Basic(0), policy: None, data: pay("c") },
        Shape::Merge => Cmd {
            id: basic_id(0x50, 3),
            prior: Prior::Merge(addr(basic_id(0x51, 4), 3), addr(basic_id(0x52, 5), 3)),
            priority: Priority::Merge,
            policy: None,
            data: b"\x01M".to_vec(),
        },
    }
}

/// Statement-level model: returns (expected result class, graph exists afterwards, committed ids)
fn model(graph_present: bool, batch: &[Shape]) -> (String, bool, Vec<&'static str>) {
    let mut exists = graph_present;
    let mut have: Vec<&'static str> = if graph_present { vec!["a"] } else { vec![] };
    if batch.is_empty() {
        return (if exists { "Ok".into() } else { "InitError".into() }, exists, have);
    }
    for (i, s) in batch.iter().enumerate() {
        if !exists {
            debug_assert_eq!(i, 0);
            match s {
                Shape::ProperInit => {
                    exists = true;
                    have.push("a");
                }
                // anything else cannot create the graph
                _ => return ("InitError".into(), false, have),
            }
            continue;
        }
        match s {
            Shape::ProperInit | Shape::InitNoPolicy => {} // own init re-received: no-op (id and parentless match)
            Shape::ForeignInit => return ("InitError".into(), exists, have),
            // a command carrying the init id is the known init command: already stored, skipped
            Shape::InitIdWithParent => {}
            Shape::BasicChild => {
                if !have.contains(&"b") {
                    have.push("b")
                }
            }
            Shape::BasicGrandChild => {
                if !have.contains(&"b") {
                    return ("NoSuchParent".into(), exists, have);
                }
                if !have.contains(&"c") {
                    have.push("c")
                }
            }
            Shape::Merge => return ("NoSuchParent".into(), exists, have),
        }
    }
    ("Ok".into(), exists, have)
}

fn classify(r: &Result<usize, ClientError>) -> String {
    match r {
        Ok(_) => "Ok".into(),
        Err(ClientError::InitError) => "InitError".into(),
        Err(ClientError::NoSuchParent(_)) => "NoSuchParent".into(),
        Err(e) => format!("Other({e})"),
    }
}

pub fn run(args: &Args) {
    let mut rep = Report::new(args, Level::Exploration);
    let init_id = basic_id(0x08, 0);
    let graph: GraphId = graph_id_of(init_id);
    let maxlen = args.tier.pick(3, 4);
    let mut distinct = std::collections::BTreeSet::new();
    for graph_present in [false, true] {
        for len in 0..=maxlen {
            mcx::enumerate::sequences(SHAPES.len(), len, |sel| {
                let batch: Vec<Shape> = sel.iter().map(|&i| SHAPES[i]).collect();
                // InitIdWithParent when the graph exists is "already stored" only if located by address:
                // its address differs (max_cut 1), so the runtime may treat it as new with a missing parent.
                // The statement does not speak about that shape in an existing graph: skip those cases.
                if batch.iter().enumerate().any(|(i, s)| *s == Shape::InitIdWithParent && (graph_present || i > 0)) {
                    return;
                }
                // the statement leaves a policy-less re-delivery of the own init unspecified only as "no-op": keep.
                rep.count("evaluations", 1);
                let mut r = MemReplica::new_mem(graph);
                if graph_present {
                    let mut t = r.trx();
                    r.add(&mut t, &[mk(Shape::ProperInit, 0)]).expect("setup init");
                    r.commit(t).expect("setup commit");
                }
                let cmds: Vec<Cmd> = batch.iter().enumerate().map(|(i, s)| mk(*s, i)).collect();
                let mut t = r.trx();
                let key = format!("graph_present={graph_present} batch={batch:?}");
                let res = match mcx::catch(|| r.add(&mut t, &cmds)) {
                    Ok(x) => x,
                    Err(p) => {
                        rep.violation(key.clone(), format!("panic: {p}"), json!({"graph_present": graph_present, "batch": format!("{batch:?}")}));
                        return;
                    }
                };
                let got = classify(&res);
                let (want, exists, have) = model(graph_present, &batch);
                rep.outcome(&format!("{}:{}", if graph_present { "present" } else { "absent" }, got), 1);
                if got != "Ok" {
                    distinct.insert((graph_present, batch.clone()));
                }
                if got != want {
                    rep.violation(key.clone(), format!("add_commands returned {got}, statement expects {want}"), json!({"graph_present": graph_present, "batch": format!("{batch:?}")}));
                    return;
                }
                let _ = r.commit(t);
                // graph existence via get_storage and list_graph_ids
                let has = r.has_graph();
                let listed: Vec<GraphId> = r.client.provider().list_graph_ids().map(|it| it.filter_map(|x| x.ok()).collect()).unwrap_or_default();
                if has != exists || listed.contains(&graph) != exists {
                    rep.violation(key.clone(), format!("graph exists: get_storage={has} listed={} expected={exists}", listed.contains(&graph)), json!({"graph_present": graph_present, "batch": format!("{batch:?}")}));
                    return;
                }
                if listed.iter().any(|g| *g != graph) {
                    rep.violation(key.clone(), "a graph with a foreign id was created".to_string(), json!({"batch": format!("{batch:?}")}));
                }
                if exists {
                    match r.observe() {
                        Ok(o) => {
                            let names: std::collections::BTreeSet<String> =
                                o.cmds.values().filter_map(|c| rtlib::dag::decode_payload(&c.bytes).map(|(n, _)| n)).collect();
                            let want_names: std::collections::BTreeSet<String> = have.iter().map(|s| s.to_string()).collect();
                            if names != want_names {
                                rep.violation(key.clone(), format!("committed commands {names:?}, statement expects {want_names:?}"), json!({"batch": format!("{batch:?}")}));
                            }
                            rep.count("graphs_observed", 1);
                        }
                        Err(e) => rep.violation(key.clone(), format!("observe failed: {e}"), json!({"batch": format!("{batch:?}")})),
                    }
                }
                if len == 2 && !graph_present {
                    rep.sample(json!({"graph_present": graph_present, "batch": format!("{batch:?}"), "result": got}));
                }
            });
        }
    }
    // Local creation: a graph created by an action that publishes k commands (the first is the
    // init command). Its id must be the init command's id, the provider must file it under that
    // id, and a fresh peer receiving the graph's commands under that id must accept them.
    for k in 1..=args.tier.pick(3usize, 4) {
        for ranks_desc in [false, true] {
            rep.count("evaluations", 1);
            let publish: Vec<rtlib::policy::Publish> = (0..k)
                .map(|j| rtlib::policy::Publish {
                    rank: if ranks_desc { 0x90 - 0x10 * j as u8 } else { 0x20 + 0x10 * j as u8 },
                    idx: 500 + j,
                    name: format!("g{j}"),
                    finalize: false,
                    prio: 0,
                    prog: vec![Op::Append],
                })
                .collect();
            let script = rtlib::policy::ActionScript { publish, fail_after: None, direct: vec![], probe: false };
            let key = format!("new_graph publishing {k} commands ranks_desc={ranks_desc}");
            let replay = json!({"new_graph_publishes": k, "ranks_desc": ranks_desc});
            let want_id = basic_id(script.publish[0].rank, script.publish[0].idx);
            let mut creator = MemReplica::new_mem(graph_id_of(want_id));
            let got = match mcx::catch(|| creator.client.new_graph(&[2], &script, &mut creator.sink)) {
                Ok(Ok(g)) => g,
                Ok(Err(e)) => {
                    rep.violation(key, format!("new_graph failed: {e}"), replay);
                    continue;
                }
                Err(p) => {
                    rep.violation(key, format!("panic: {p}"), replay);
                    continue;
                }
            };
            rep.outcome("new_graph:ok", 1);
            if got != graph_id_of(want_id) {
                rep.violation(key.clone(), format!("new_graph returned an id that is not the init command's id (the id of published command #{})", (0..k).find(|&j| graph_id_of(basic_id(script.publish[j].rank, script.publish[j].idx)) == got).map(|j| j.to_string()).unwrap_or("?".into())), replay.clone());
                continue;
            }
            let listed: Vec<GraphId> = creator.client.provider().list_graph_ids().map(|it| it.filter_map(|x| x.ok()).collect()).unwrap_or_default();
            if listed != vec![got] {
                rep.violation(key.clone(), format!("provider lists {} graphs, expected exactly the init id", listed.len()), replay.clone());
                continue;
            }
            // replicate to a fresh peer
            match creator.observe() {
                Ok(o) => {
                    let mut cmds: Vec<Cmd> = Vec::new();
                    let mut parent: Option<(rtlib::rt::CmdId, u64)> = None;
                    for (j, p) in script.publish.iter().enumerate() {
                        let id = basic_id(p.rank, p.idx);
                        cmds.push(Cmd {
                            id,
                            prior: match parent { None => Prior::None, Some((pid, mc)) => Prior::Single(addr(pid, mc)) },
                            priority: if j == 0 { Priority::Init } else { Priority::Basic(0) },
                            policy: if j == 0 { Some(vec![2]) } else { None },
                            data: encode_payload(&p.name, &p.prog),
                        });
                        parent = Some((id, j as u64));
                    }
                    if o.cmds.len() != k {
                        rep.violation(key.clone(), format!("creator stores {} commands, published {k}", o.cmds.len()), replay.clone());
                        continue;
                    }
                    let mut peer = MemReplica::new_mem(got);
                    let mut t = peer.trx();
                    match mcx::catch(|| peer.add(&mut t, &cmds).and_then(|_| peer.commit(t))) {
                        Ok(Ok(_)) => match peer.observe() {
                            Ok(po) if po == o => rep.count("graphs_replicated", 1),
                            Ok(po) => rep.violation(key.clone(), format!("fresh peer observes {} but creator {}", po.short(), o.short()), replay.clone()),
                            Err(e) => rep.violation(key.clone(), format!("peer observe: {e}"), replay.clone()),
                        },
                        Ok(Err(e)) => rep.violation(key.clone(), format!("a fresh peer cannot receive the graph under its id: {e}"), replay.clone()),
                        Err(p) => rep.violation(key.clone(), format!("panic: {p}"), replay.clone()),
                    }
                }
                Err(e) => rep.violation(key.clone(), format!("creator observe: {e}"), replay.clone()),
            }
        }
    }
    rep.require_nonzero("graphs_replicated");
    let _: Address = addr(init_id, 0);
    rep.set("distinct_nontrivial", distinct.len() as u64);
    rep.set("rule", format!("all batches of length 0..={maxlen} over 7 first-command shapes x graph absent/present; non-trivial = distinct cases refused by the runtime"));
    rep.set("exhaustive", true);
    rep.require_nonzero("graphs_observed");
    rep.finish()
}
