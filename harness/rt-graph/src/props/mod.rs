pub mod graph;
