pub mod finalize;
pub mod graph;
pub mod reject;
pub mod simrun;
