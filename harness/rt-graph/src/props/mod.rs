pub mod action;
pub mod finalize;
pub mod graph;
pub mod reject;
pub mod simrun;
pub mod trx;
pub mod init;
pub mod session;
