//! C06 — commands rejected at origin leave no trace.

use mcx::{json, Args, Level, Report, Tier};
use rtlib::dag::{shapes, is_canonical_shape, Dag, Kind, MergeRank, Node, Op};

use crate::{
    history::{all_histories, Cut},
    props::simrun::{finish, run_all},
    sim::{Ev, SimOracles},
};

/// Program alphabet for non-init commands. Index 0 is the default.
fn prog_alpha() -> Vec<Vec<Op>> {
    vec![
        vec![Op::Append, Op::Emit(1)],
        vec![Op::WriteThenFail(0)],
        vec![Op::WriteThenFail(1)],
        vec![Op::WriteThenFail(2)],
        vec![Op::Put(1, 7), Op::Append],
        vec![Op::Require(1), Op::Append, Op::Emit(2)],
        vec![Op::RequireAbsent(1), Op::Put(1, 9), Op::Append],
        // accepted by the policy but sent with a wrong parent max cut: refused by the runtime
        vec![Op::BadParentCut, Op::Put(2, 5), Op::Append, Op::Emit(4)],
    ]
}

fn is_failing(prog: &[Op]) -> bool {
    prog.iter().any(|o| matches!(o, Op::WriteThenFail(_) | Op::Require(_) | Op::RequireAbsent(_) | Op::BadParentCut))
}

/// Alphabet of the delete family: an accepted command deletes an inherited fact and a later command of
/// the same perspective is refused (the refusal's revert must keep the delete's tombstone).
pub fn delete_alpha() -> Vec<Vec<Op>> {
    vec![
        vec![Op::Append, Op::Emit(1)],
        vec![Op::Put(1, 7), Op::Append],
        vec![Op::Del(1), Op::Append],
        vec![Op::WriteThenFail(0)],
        vec![Op::WriteThenFail(1)],
        vec![Op::Require(1), Op::Append, Op::Emit(2)],
    ]
}

pub fn universes(n_min: usize, n_max: usize, max_special: usize, merges: bool) -> Vec<Dag> {
    universes_alpha(&prog_alpha(), n_min, n_max, max_special, merges, false)
}

/// `need_delete`: keep only assignments that contain a `Del` (the rest is covered by `universes`).
pub fn universes_alpha(alpha: &[Vec<Op>], n_min: usize, n_max: usize, max_special: usize, merges: bool, need_delete: bool) -> Vec<Dag> {
    let mut out = Vec::new();
    for n in n_min..=n_max {
        let mut shape_list = Vec::new();
        shapes(n, merges, |p| {
            if is_canonical_shape(p) {
                shape_list.push(p.to_vec())
            }
        });
        for parents in &shape_list {
            let singles: Vec<usize> = (1..n).filter(|&i| parents[i].len() == 1).collect();
            mcx::enumerate::sequences(alpha.len(), singles.len(), |ps| {
                let special = ps.iter().filter(|&&p| p != 0).count();
                let failing = ps.iter().filter(|&&p| is_failing(&alpha[p])).count();
                if special > max_special || failing == 0 {
                    return;
                }
                if need_delete && !ps.iter().any(|&p| alpha[p].iter().any(|o| matches!(o, Op::Del(_)))) {
                    return;
                }
                let mut nodes = Vec::new();
                let mut si = 0;
                for i in 0..n {
                    if i == 0 {
                        nodes.push(Node { kind: Kind::Init, parents: vec![], rank: 0x08, prog: vec![Op::Append] });
                    } else if parents[i].len() == 2 {
                        nodes.push(Node { kind: Kind::Merge, parents: parents[i].clone(), rank: 0, prog: vec![] });
                    } else {
                        nodes.push(Node { kind: Kind::Basic(0), parents: parents[i].clone(), rank: 0x10 + 0x10 * si as u8, prog: alpha[ps[si]].clone() });
                        si += 1;
                    }
                }
                out.push(Dag { nodes, merge_rank: MergeRank::Hash });
            });
        }
    }
    out
}

pub fn histories(dag: &Dag, cut_alpha: &[Cut], f: &mut dyn FnMut(&[Ev])) {
    all_histories(dag, cut_alpha, |h| {
        let mut evs = Vec::new();
        let n = h.order.len();
        let mut i = 0;
        while i < n {
            let mut j = i;
            while j < n - 1 && h.cuts[j] == Cut::None {
                j += 1;
            }
            evs.push(Ev::Add { trx: 0, nodes: h.order[i..=j].to_vec() });
            match h.cuts[j] {
                Cut::Flush => evs.push(Ev::Flush { trx: 0 }),
                Cut::Commit => evs.push(Ev::Commit { trx: 0 }),
                _ => {}
            }
            i = j + 1;
        }
        f(&evs);
    });
}

pub fn run(args: &Args) {
    let mut rep = Report::new(args, Level::ModelChecking);
    let oracles = SimOracles { outcomes: true, state: true, effects: true, monotone: true };
    let fams: Vec<(&str, Vec<Dag>, Vec<Cut>)> = match args.tier {
        Tier::Quick => vec![
            ("n<=4, <=2 special commands, all histories", universes(2, 4, 2, true), vec![Cut::None, Cut::Batch, Cut::Flush, Cut::Commit]),
            ("n=5, <=2 special commands, cuts {batch,flush,commit}", universes(5, 5, 2, true), vec![Cut::Batch, Cut::Commit]),
        ],
        Tier::Thorough => vec![
            ("n<=5, <=3 special commands, all histories", universes(2, 5, 3, true), vec![Cut::None, Cut::Batch, Cut::Flush, Cut::Commit]),
            ("n=6, <=2 special commands, cuts {batch,commit}", universes(6, 6, 2, false), vec![Cut::Batch, Cut::Commit]),
        ],
    };
    let mut families = Vec::new();
    for (name, dags, cuts) in fams {
        let ex = run_all(&mut rep, name, &dags, oracles, false, |c, _| c != "hello", |d, f| histories(d, &cuts, f));
        families.push(json!({"family": name, "universes": dags.len(), "executions": ex}));
    }
    {
        // accepted deletes of inherited facts followed by a refusal in the same perspective
        let nmax = if args.tier == Tier::Thorough { 6 } else { 5 };
        let dags = universes_alpha(&delete_alpha(), 3, nmax, 3, false, true);
        let cuts = vec![Cut::None, Cut::Flush, Cut::Commit];
        crate::sim::STORED_STATE_CHECK.store(true, std::sync::atomic::Ordering::Relaxed);
        let ex = run_all(&mut rep, "delete", &dags, oracles, false, |c, _| c != "hello", |d, f| histories(d, &cuts, f));
        crate::sim::STORED_STATE_CHECK.store(false, std::sync::atomic::Ordering::Relaxed);
        rep.count("delete_family_executions", ex);
        families.push(json!({"family": "n<=5(6) forks/chains with an accepted delete of an inherited fact and <=3 special commands, cuts {none,flush,commit}", "universes": dags.len(), "executions": ex}));
        rep.require_nonzero("delete_family_executions");
    }
    {
        // the same oracles on the libc file backend (small universes)
        let dags = universes(2, 3, 2, true);
        let cuts = vec![Cut::None, Cut::Batch, Cut::Flush, Cut::Commit];
        let ex = crate::props::simrun::run_all_on(&mut rep, "file", &dags, oracles, false, |c, _| c != "hello", true, |d, f| histories(d, &cuts, f));
        rep.count("file_backend_executions", ex);
        families.push(json!({"family": "n<=3, <=2 special commands, all histories [file backend]", "universes": dags.len(), "executions": ex}));
    }
    rep.require_nonzero("file_backend_executions");
    rep.require_nonzero("rejected_adds");
    rep.require_nonzero("no_such_parent");
    finish(rep, families)
}
