//! C14 — sessions overlay their own writes on committed facts.
//!
//! Base fact sets are built by real commits (single- and multi-head); then every sequence of
//! session operations up to a depth is run on a real `Session`; every action starts by recording
//! every exact and prefix query through the session perspective; the model is a plain map.

use std::collections::BTreeSet;

use mcx::{json, rayon::prelude::*, Args, Level, Report};
use rtlib::{
    dag::{basic_id, encode_payload, Dag, Kind, MergeRank, Node, Op},
    policy::{ActionScript, Publish},
    refmodel::{apply, rich_view_model, Facts, Ref},
    replica::{MemReplica, RecSink},
    rt::Sink,
};

#[derive(Clone, Debug, PartialEq, Eq, Hash, PartialOrd, Ord)]
enum SOp {
    /// action performing writes directly, succeeds
    Direct(Vec<Op>),
    /// action publishing one command whose rule performs the writes
    Publish(Vec<Op>),
    /// action writing directly, then failing with kind
    DirectFail(Vec<Op>, u8),
    /// action publishing a command whose rule writes then fails
    PublishFail(u8),
    /// receive a command (built outside) whose rule performs the writes
    Receive(Vec<Op>),
    /// receive a command whose rule writes then fails
    ReceiveFail(u8),
    /// receive undecodable bytes
    ReceiveGarbage,
}

fn write_alpha(tier_thorough: bool) -> Vec<Vec<Op>> {
    let mut v = vec![
        vec![Op::PutK(2, 7)],
        vec![Op::DelK(2)],
        vec![Op::PutK(4, 8)],
        vec![Op::DelK(3)],
        vec![Op::PutK(0, 9), Op::DelK(5)],
        vec![Op::Put(1, 4)],
    ];
    if tier_thorough {
        v.push(vec![Op::DelK(0)]);
        v.push(vec![Op::PutK(6, 1)]);
        v.push(vec![Op::Del(1), Op::Append]);
    }
    v
}

fn op_alpha(th: bool) -> Vec<SOp> {
    let mut v = Vec::new();
    for w in write_alpha(th) {
        v.push(SOp::Direct(w.clone()));
    }
    for w in write_alpha(th).into_iter().take(if th { 6 } else { 3 }) {
        v.push(SOp::Publish(w.clone()));
        v.push(SOp::Receive(w));
    }
    v.push(SOp::DirectFail(vec![Op::PutK(2, 66), Op::DelK(4), Op::PutK(1, 67)], 0));
    v.push(SOp::PublishFail(0));
    v.push(SOp::ReceiveFail(0));
    if th {
        v.push(SOp::DirectFail(vec![Op::DelK(2), Op::PutK(3, 68)], 1));
        v.push(SOp::PublishFail(2));
        v.push(SOp::ReceiveFail(1));
        v.push(SOp::ReceiveGarbage);
    }
    v
}

/// Base universes: init + up to three writers arranged as a chain or as branches (multi-head).
fn bases() -> Vec<Dag> {
    let key_sets: Vec<Vec<Op>> = vec![
        vec![],
        vec![Op::PutK(2, 1)],
        vec![Op::PutK(2, 1), Op::PutK(3, 2)],
        vec![Op::PutK(0, 1), Op::PutK(4, 2), Op::PutK(5, 3)],
        vec![Op::PutK(1, 1), Op::PutK(2, 2), Op::PutK(3, 3), Op::PutK(6, 4), Op::Put(1, 1)],
    ];
    let mut out = Vec::new();
    for ks in &key_sets {
        for multi in [false, true] {
            let mut nodes = vec![Node { kind: Kind::Init, parents: vec![], rank: 0x08, prog: vec![Op::Append] }];
            if ks.is_empty() && multi {
                continue;
            }
            if multi {
                // each key written on its own branch, plus a branch deleting a key another wrote
                for (i, op) in ks.iter().enumerate() {
                    nodes.push(Node { kind: Kind::Basic(i as u32 % 2), parents: vec![0], rank: 0x10 + 0x10 * i as u8, prog: vec![*op, Op::Append] });
                }
                nodes.push(Node { kind: Kind::Basic(0), parents: vec![0], rank: 0x90, prog: vec![Op::DelK(3), Op::Append] });
            } else {
                let mut prev = 0;
                for (i, op) in ks.iter().enumerate() {
                    nodes.push(Node { kind: Kind::Basic(0), parents: vec![prev], rank: 0x10 + 0x10 * i as u8, prog: vec![*op, Op::Append] });
                    prev = nodes.len() - 1;
                }
            }
            out.push(Dag { nodes, merge_rank: MergeRank::Hash });
        }
    }
    out
}

struct MsgSink(Vec<Vec<u8>>, u32);
impl<'b> Sink<&'b [u8]> for MsgSink {
    fn begin(&mut self) {}
    fn consume(&mut self, e: &'b [u8]) {
        self.0.push(e.to_vec())
    }
    fn rollback(&mut self) {
        self.1 += 1;
    }
    fn commit(&mut self) {}
}

fn session_msg(idx: usize, prog: &[Op]) -> Vec<u8> {
    let id = basic_id(0xc0, 1000 + idx);
    [id.as_bytes(), &encode_payload(&format!("r{idx}"), prog)[..]].concat()
}

#[derive(Default)]
struct Acc {
    executions: u64,
    transitions: u64,
    views: u64,
    failed_ops: u64,
    states: BTreeSet<u64>,
    violations: Vec<(String, String, mcx::Value)>,
    sample: Option<mcx::Value>,
}

fn run_one(dag: &Dag, ops: &[SOp], acc: &mut Acc) {
    acc.executions += 1;
    // build the base by real commits
    let cmds = dag.cmds();
    let graph = rtlib::replica::graph_id_of(cmds[0].id);
    let mut r = MemReplica::new_mem(graph);
    let mut t = r.trx();
    r.add(&mut t, &cmds).expect("base add");
    r.commit(t).expect("base commit");
    let before = r.observe().expect("observe base");
    let mut refm = Ref::new(dag);
    let (base, _) = refm.facts(&dag.frontier(dag.full_mask())).expect("base facts");
    let mut model: Facts = base.clone();
    let mut session = r.client.session(graph).expect("session");
    let desc = || format!("{} / {:?}", dag.describe(), ops);
    let mut viol = |acc: &mut Acc, class: &str, msg: String| {
        if acc.violations.iter().filter(|(k, _, _)| k.starts_with(class)).count() < 1 {
            acc.violations.push((format!("{class}: {}", desc()), msg, json!({"base": dag.describe(), "ops": format!("{ops:?}")})));
        }
    };
    let mut step = |acc: &mut Acc, r: &mut MemReplica, session: &mut rtlib::rt::Session<_, _>, model: &mut Facts, op: Option<&SOp>, i: usize| {
        acc.transitions += 1;
        let views_before = r.log.borrow().rich_views.len();
        let mut sink = RecSink::default();
        let mut msgs = MsgSink(vec![], 0);
        let probe = |direct: Vec<Op>, publish: Vec<Publish>, fail: Option<(usize, u8)>| ActionScript { publish, fail_after: fail, direct, probe: true };
        let publish1 = |prog: &[Op]| vec![Publish { rank: 0xc1, idx: 2000 + i, name: format!("p{i}"), finalize: false, prio: 0, prog: prog.to_vec() }];
        // every step starts with a probing action so that the view is observed inside the policy
        let (res, expect_ok, writes): (Result<(), String>, bool, Vec<Op>) = match op {
            None => (session.action(&r.client, &mut sink, &mut msgs, &probe(vec![], vec![], None)).map_err(|e| e.to_string()), true, vec![]),
            Some(SOp::Direct(w)) => (session.action(&r.client, &mut sink, &mut msgs, &probe(w.clone(), vec![], None)).map_err(|e| e.to_string()), true, w.clone()),
            Some(SOp::Publish(w)) => (session.action(&r.client, &mut sink, &mut msgs, &probe(vec![], publish1(w), None)).map_err(|e| e.to_string()), true, w.clone()),
            Some(SOp::DirectFail(w, k)) => (
                session.action(&r.client, &mut sink, &mut msgs, &probe(w.clone(), publish1(&[Op::PutK(6, 99)]), Some((0, *k)))).map_err(|e| e.to_string()),
                false,
                vec![],
            ),
            Some(SOp::PublishFail(k)) => (
                session.action(&r.client, &mut sink, &mut msgs, &probe(vec![Op::PutK(5, 98)], publish1(&[Op::WriteThenFail(*k)]), None)).map_err(|e| e.to_string()),
                false,
                vec![],
            ),
            Some(SOp::Receive(w)) => (session.receive(&r.client, &mut sink, &session_msg(i, w)).map_err(|e| e.to_string()), true, w.clone()),
            Some(SOp::ReceiveFail(k)) => (session.receive(&r.client, &mut sink, &session_msg(i, &[Op::WriteThenFail(*k)])).map_err(|e| e.to_string()), false, vec![]),
            Some(SOp::ReceiveGarbage) => (session.receive(&r.client, &mut sink, &[1, 2, 3]).map_err(|e| e.to_string()), false, vec![]),
        };
        // the view recorded at the start of an action reflects the model BEFORE this op's writes
        let is_action = !matches!(op, Some(SOp::Receive(_) | SOp::ReceiveFail(_) | SOp::ReceiveGarbage));
        if is_action {
            let log = r.log.borrow();
            match log.rich_views.get(views_before) {
                Some(v) => {
                    acc.views += 1;
                    let want = rich_view_model(model);
                    if *v != want {
                        let diff: Vec<String> = v.iter().zip(&want).filter(|(a, b)| a != b).map(|(a, b)| format!("{}: got {} want {}", a.0, a.1, b.1)).take(3).collect();
                        let msg = format!("before op {i}: session view differs from base+overlay model: {}", if diff.is_empty() { format!("lengths {} vs {}", v.len(), want.len()) } else { diff.join("; ") });
                        drop(log);
                        viol(acc, "view", msg);
                    }
                }
                None => {
                    drop(log);
                    viol(acc, "view-missing", format!("op {i}: the policy was not called"));
                }
            }
        }
        if res.is_ok() != expect_ok {
            viol(acc, "outcome", format!("op {i} ({op:?}) returned {res:?}, expected {}", if expect_ok { "Ok" } else { "Err" }));
        }
        if res.is_ok() {
            let mut e = vec![];
            // the name the real rule runs under (only `Append` observes it)
            let name = match op {
                Some(SOp::Publish(_)) => format!("p{i}"),
                Some(SOp::Receive(_)) => format!("r{i}"),
                _ => "act".to_string(),
            };
            let _ = apply(&name, &writes, model, &mut e);
        } else {
            acc.failed_ops += 1;
            if !sink.committed_effects().is_empty() {
                viol(acc, "effects", format!("failed op {i} committed effects {:?}", sink.committed_effects()));
            }
        }
    };
    for (i, op) in ops.iter().enumerate() {
        step(acc, &mut r, &mut session, &mut model, Some(op), i);
    }
    // final probe observes the effect of the last op
    step(acc, &mut r, &mut session, &mut model, None, ops.len());
    drop(session);
    match r.observe() {
        Ok(after) => {
            if after != before {
                viol(acc, "graph-changed", format!("session operations changed the committed observation: {} -> {}", before.short(), after.short()));
            }
        }
        Err(e) => viol(acc, "observe", e),
    }
    acc.states.insert(mcx::fnv64(format!("{:?}", model).as_bytes()));
    if acc.sample.is_none() && ops.len() >= 3 {
        acc.sample = Some(json!({"base": dag.describe(), "ops": format!("{ops:?}")}));
    }
}

pub fn run(args: &Args) {
    let mut rep = Report::new(args, Level::ModelChecking);
    let th = args.tier == mcx::Tier::Thorough;
    let alpha = op_alpha(th);
    let depth = 4;
    let bases = bases();
    let mut cases: Vec<(usize, Vec<usize>)> = Vec::new();
    // quick: depth 3 over the whole alphabet, depth 4 over the writes-and-failures core
    let core: Vec<usize> = (0..alpha.len()).filter(|&i| matches!(alpha[i], SOp::Direct(_) | SOp::DirectFail(..) | SOp::PublishFail(_) | SOp::ReceiveFail(_))).take(8).collect();
    for b in 0..bases.len() {
        for d in 0..=depth {
            if !th && d == 4 {
                mcx::enumerate::sequences(core.len(), d, |s| cases.push((b, s.iter().map(|&i| core[i]).collect())));
            } else {
                mcx::enumerate::sequences(alpha.len(), d, |s| cases.push((b, s.to_vec())));
            }
        }
    }
    let accs: Vec<Acc> = cases
        .par_chunks(256)
        .map(|chunk| {
            let mut acc = Acc::default();
            for (b, s) in chunk {
                let ops: Vec<SOp> = s.iter().map(|&i| alpha[i].clone()).collect();
                match mcx::catch(|| run_one(&bases[*b], &ops, &mut acc)) {
                    Ok(()) => {}
                    Err(p) => acc.violations.push((format!("panic: {} / {:?}", bases[*b].describe(), ops), format!("panic at {}: {p}", mcx::last_panic_location()), json!({"ops": format!("{ops:?}")}))),
                }
            }
            acc
        })
        .collect();
    let mut states = BTreeSet::new();
    let mut per_class = std::collections::BTreeMap::new();
    for a in accs {
        rep.count("executions", a.executions);
        rep.count("transitions", a.transitions);
        rep.count("views_checked", a.views);
        rep.count("failed_ops", a.failed_ops);
        states.extend(a.states);
        if let Some(s) = a.sample {
            rep.sample(s);
        }
        for (k, d, r) in a.violations {
            let class = k.split(':').next().unwrap_or("").to_string();
            let c = per_class.entry(class).or_insert(0u32);
            *c += 1;
            if *c <= 3 {
                rep.violation(k, d, r);
            }
        }
    }
    rep.set("states", states.len() as u64);
    let ex = rep.counter("executions");
    rep.set("traces_validated_against_impl", ex);
    rep.set("exhaustive", true);
    rep.set("bounds", json!({"bases": bases.len(), "op_alphabet": alpha.len(), "depth": depth}));
    rep.outcome("ok", ex);
    rep.require_nonzero("views_checked");
    rep.require_nonzero("failed_ops");
    rep.assume("memory-backed provider; the AuditPolicy records every exact and prefix query over a 7-key compound-key alphabet at the start of each session action");
    rep.finish()
}
