//! Shared runner for Sim-based properties.

use std::collections::{BTreeMap, BTreeSet};

use mcx::{json, rayon::prelude::*, Report};
use rtlib::dag::Dag;

use crate::sim::{describe_events, Ev, Sim, SimOracles};

#[derive(Default)]
pub struct Acc {
    pub executions: u64,
    pub transitions: u64,
    pub states: BTreeSet<u64>,
    pub outcomes: BTreeMap<String, u64>,
    pub violations: Vec<(String, String, mcx::Value)>,
    pub samples: Vec<mcx::Value>,
    pub action_views_checked: u64,
    pub collapses: u64,
    pub faults_fired: u64,
}

pub type Filter = fn(&str, &str) -> bool;

pub fn run_case_on<SP: rtlib::rt::StorageProvider>(dag: &Dag, evs: &[Ev], oracles: SimOracles, abandon: bool, filter: Filter, make: fn(rtlib::rt::GraphId) -> rtlib::replica::Replica<SP>, acc: &mut Acc) {
    let mut sim = Sim::new(dag, oracles, make);
    sim.abandon_on_add_error = abandon;
    for e in evs {
        sim.step(e);
    }
    acc.executions += 1;
    acc.transitions += sim.transitions;
    acc.action_views_checked += sim.action_views_checked;
    acc.collapses += sim.collapses;
    acc.faults_fired += sim.faults_fired;
    for c in &sim.outcome_classes {
        *acc.outcomes.entry(c.clone()).or_default() += 1;
    }
    if let Some(o) = &sim.last_obs {
        acc.states.insert(o.canon());
    }
    for (class, msg) in &sim.violations {
        if class != "panic" && class != "observe-error" && class != "harness" && !filter(class, msg) {
            *acc.outcomes.entry(format!("other-property:{class}")).or_default() += 1;
            continue;
        }
        *acc.outcomes.entry(format!("violation:{class}")).or_default() += 1;
        if acc.violations.iter().filter(|(k, _, _)| k.starts_with(&format!("{class}:"))).count() < 1 {
            acc.violations.push((
                format!("{class}: {} / {}", dag.describe(), describe_events(evs)),
                msg.clone(),
                json!({"universe": dag.describe(), "events": describe_events(evs)}),
            ));
        }
    }
    if acc.samples.is_empty() && evs.len() >= 4 {
        acc.samples.push(json!({"universe": dag.describe(), "events": describe_events(evs), "final": sim.last_obs.as_ref().map(|o| o.short())}));
    }
}

pub fn run_case(dag: &Dag, evs: &[Ev], oracles: SimOracles, abandon: bool, filter: Filter, acc: &mut Acc) {
    run_case_on(dag, evs, oracles, abandon, filter, rtlib::replica::MemReplica::new_mem, acc)
}

/// Runs `gen(dag)`-produced cases for every universe in parallel and folds into the report.
pub fn run_all(
    rep: &mut Report,
    family: &str,
    dags: &[Dag],
    oracles: SimOracles,
    abandon: bool,
    filter: Filter,
    gen: impl Fn(&Dag, &mut dyn FnMut(&[Ev])) + Sync,
) -> u64 {
    run_all_on(rep, family, dags, oracles, abandon, filter, false, gen)
}

/// Runs the cases on the memory backend whose head-set commit can be armed to fail (`Ev::FailNextCommit`).
pub fn run_all_faulty(
    rep: &mut Report,
    family: &str,
    dags: &[Dag],
    oracles: SimOracles,
    filter: Filter,
    gen: impl Fn(&Dag, &mut dyn FnMut(&[Ev])) + Sync,
) -> u64 {
    let before = rep.counter("executions");
    let accs: Vec<Acc> = dags
        .par_iter()
        .map(|d| {
            let mut acc = Acc::default();
            gen(d, &mut |evs: &[Ev]| run_case_on(d, evs, oracles, false, filter, rtlib::replica::FaultReplica::new_faulty, &mut acc));
            acc
        })
        .collect();
    fold_accs(rep, family, accs);
    rep.counter("executions") - before
}

/// `file_backend`: run on `LinearStorageProvider<FileManager>` in a scratch directory instead of the
/// memory-backed provider.
#[allow(clippy::too_many_arguments)]
pub fn run_all_on(
    rep: &mut Report,
    family: &str,
    dags: &[Dag],
    oracles: SimOracles,
    abandon: bool,
    filter: Filter,
    file_backend: bool,
    gen: impl Fn(&Dag, &mut dyn FnMut(&[Ev])) + Sync,
) -> u64 {
    let accs: Vec<Acc> = dags
        .par_iter()
        .map(|d| {
            let mut acc = Acc::default();
            gen(d, &mut |evs: &[Ev]| {
                if file_backend {
                    run_case_on(d, evs, oracles, abandon, filter, rtlib::replica::FileReplica::new_file, &mut acc)
                } else {
                    run_case(d, evs, oracles, abandon, filter, &mut acc)
                }
            });
            acc
        })
        .collect();
    fold_accs(rep, family, accs)
}

fn fold_accs(rep: &mut Report, family: &str, accs: Vec<Acc>) -> u64 {
    let mut per_class: BTreeMap<String, u32> = BTreeMap::new();
    let mut execs = 0;
    for a in accs {
        execs += a.executions;
        rep.count("executions", a.executions);
        rep.count("transitions", a.transitions);
        rep.count("action_views_checked", a.action_views_checked);
        rep.count("collapses", a.collapses);
        rep.count("faults_fired", a.faults_fired);
        for (k, v) in a.outcomes {
            rep.outcome(&k, v);
            if let Some(rest) = k.strip_suffix(":ParallelFinalize") {
                rep.count(&format!("parallel_finalize_{rest}"), v);
            }
            if k == "add:Rejected" || k == "add:Panic" || k == "add:Internal" {
                rep.count("rejected_adds", v);
            }
            if k == "add:NoSuchParent" {
                rep.count("no_such_parent", v);
            }
            if k == "commit:Concurrent" {
                rep.count("concurrent_transaction_errors", v);
            }
            if k.starts_with("action:") && k != "action:Ok" {
                rep.count("failed_actions", v);
            }
            if k == "action:Ok" {
                rep.count("ok_actions", v);
            }
        }
        for s in a.samples {
            rep.sample(s);
        }
        for (k, d, r) in a.violations {
            let class = k.split(':').next().unwrap_or("").to_string();
            let c = per_class.entry(class).or_insert(0u32);
            *c += 1;
            if *c <= 3 {
                rep.violation(k, d, r);
            }
        }
        STATES.with(|s| s.borrow_mut().extend(a.states));
    }
    let _ = family;
    execs
}

thread_local! {
    pub static STATES: std::cell::RefCell<BTreeSet<u64>> = const { std::cell::RefCell::new(BTreeSet::new()) };
}

pub fn finish(mut rep: Report, families: Vec<mcx::Value>) -> ! {
    let states = STATES.with(|s| s.borrow().len() as u64);
    rep.set("states", states.max(1));
    let ex = rep.counter("executions");
    rep.set("traces_validated_against_impl", ex);
    rep.set("exhaustive", true);
    rep.set("families", mcx::Value::Array(families));
    rep.assume("the memory-backed linear storage provider (same LinearStorage code as the file backend, different IoManager)");
    rep.finish()
}
