//! C02 (second part) — structured families wide/long enough to overflow the braid buffer and the
//! convergence-map blocks into spill storage. Flavour S: thresholds 4 / 2 (hooks H1, H2);
//! flavour P: the shipped thresholds (256 / 3×256).

use std::collections::BTreeMap;

use mcx::{json, rayon::prelude::*, Report};
use rtlib::{
    dag::{node_name, Cmd, Dag, Kind, MergeRank, Node, Op},
    refmodel::{dump, Ref},
    replica::{MemReplica, SPILL_READS, SPILL_WRITES},
};

#[derive(Clone, Copy, Debug, PartialEq, Eq)]
pub enum Keying {
    Asc,
    Desc,
    Interleaved,
    /// priorities alternate 0/1 so strands alternate between branches
    AltPrio,
}

pub const KEYINGS: [Keying; 4] = [Keying::Asc, Keying::Desc, Keying::Interleaved, Keying::AltPrio];

struct B {
    nodes: Vec<Node>,
}
impl B {
    fn new() -> Self {
        B { nodes: vec![Node { kind: Kind::Init, parents: vec![], rank: 0x08, prog: vec![Op::Append] }] }
    }
    fn basic(&mut self, parent: usize) -> usize {
        self.nodes.push(Node { kind: Kind::Basic(0), parents: vec![parent], rank: 0, prog: vec![Op::Append] });
        self.nodes.len() - 1
    }
    fn finalize(&mut self, parent: usize) -> usize {
        self.nodes.push(Node { kind: Kind::Finalize, parents: vec![parent], rank: 0, prog: vec![Op::Append] });
        self.nodes.len() - 1
    }
    fn merge(&mut self, l: usize, r: usize) -> usize {
        let (a, b) = if l < r { (l, r) } else { (r, l) };
        self.nodes.push(Node { kind: Kind::Merge, parents: vec![a, b], rank: 0, prog: vec![] });
        self.nodes.len() - 1
    }
    fn finish(mut self, keying: Keying) -> Dag {
        let n = self.nodes.len();
        let singles: Vec<usize> = (1..n).filter(|&i| self.nodes[i].kind != Kind::Merge).collect();
        let k = singles.len();
        for (j, &i) in singles.iter().enumerate() {
            // ranks need not be unique: ids also carry the node index
            let pos = match keying {
                Keying::Asc | Keying::AltPrio => j,
                Keying::Desc => k - 1 - j,
                Keying::Interleaved => {
                    if j % 2 == 0 {
                        j / 2
                    } else {
                        k - 1 - j / 2
                    }
                }
            };
            self.nodes[i].rank = (0x10 + (pos * 0xd0) / k.max(1)) as u8;
            if keying == Keying::AltPrio && self.nodes[i].kind != Kind::Finalize {
                self.nodes[i].kind = Kind::Basic((j % 2) as u32);
            }
        }
        Dag { nodes: self.nodes, merge_rank: MergeRank::Hash }
    }
}

/// `b` branches of `len` commands from init; heads are the b tips.
pub fn star(b: usize, len: usize, keying: Keying) -> Dag {
    let mut g = B::new();
    for _ in 0..b {
        let mut p = 0;
        for _ in 0..len {
            p = g.basic(p);
        }
    }
    g.finish(keying)
}

/// A ladder of `k` diamonds from init (fork x,y; merge) next to a chain of `c` commands from init.
pub fn ladder_and_chain(k: usize, c: usize, keying: Keying) -> Dag {
    let mut g = B::new();
    let mut p = 0;
    for _ in 0..k {
        let x = g.basic(p);
        let y = g.basic(p);
        p = g.merge(x, y);
    }
    let _tip = g.basic(p);
    let mut q = 0;
    for _ in 0..c {
        q = g.basic(q);
    }
    g.finish(keying)
}

/// `init – F – b_1 … b_k`, every b_i with two children; the 2k children are the heads (no merges).
/// All b_i tie on max cut and so do all children: spilled convergence blocks then have overlapping
/// max-cut ranges. Keys are ordered c_i_1 < b_i < c_i_2 within each group.
pub fn fan2(k: usize, keying: Keying) -> Dag {
    let mut g = B::new();
    let f = g.basic(0);
    let bs: Vec<usize> = (0..k).map(|_| g.basic(f)).collect();
    let mut kids = Vec::new();
    for &b in &bs {
        kids.push((g.basic(b), g.basic(b)));
    }
    let mut d = g.finish(keying);
    // explicit ranks: group i occupies three consecutive ranks (c1 < b < c2); groups ascend or descend
    let n = k.max(1);
    for (i, (&b, &(c1, c2))) in bs.iter().zip(&kids).enumerate() {
        let gi = match keying {
            Keying::Desc => n - 1 - i,
            Keying::Interleaved => if i % 2 == 0 { i / 2 } else { n - 1 - i / 2 },
            _ => i,
        };
        let base = 0x10 + ((gi * 0xd0) / n) as u8;
        d.nodes[c1].rank = base;
        d.nodes[b].rank = base;
        d.nodes[c2].rank = base;
        // ids also carry the node index, so equal rank bytes are ordered by index: make c1 < b < c2
        // hold through priorities instead (the strand key is (priority, id))
        d.nodes[c1].kind = Kind::Basic(0);
        d.nodes[b].kind = Kind::Basic(1);
        d.nodes[c2].kind = Kind::Basic(2);
    }
    d
}

/// Diamonds nested `d` deep on both sides of a fork, next to a short chain.
pub fn nested(d: usize, keying: Keying) -> Dag {
    fn build(g: &mut B, root: usize, d: usize) -> usize {
        if d == 0 {
            return g.basic(root);
        }
        let l = build(g, root, d - 1);
        let r = build(g, root, d - 1);
        let l2 = g.basic(l);
        g.merge(l2, r)
    }
    let mut g = B::new();
    let t = build(&mut g, 0, d);
    g.basic(t);
    g.basic(0);
    g.finish(keying)
}

/// `init – F1 – c1 … ck – F2` with a one-command side branch off init, F1 and every c_i: the
/// finalize head keeps its strand parked, so the branch points below it stay live in the convergence
/// map. All finalize commands are causally ordered. `parallel` adds a third finalize on the side
/// branch off c1 (incomparable with F2).
pub fn finalize_comb(k: usize, keying: Keying, parallel: bool) -> Dag {
    let mut g = B::new();
    let f1 = g.finalize(0);
    let mut spine = vec![0, f1];
    let mut p = f1;
    for _ in 0..k {
        p = g.basic(p);
        spine.push(p);
    }
    for (j, &s) in spine.iter().enumerate() {
        if parallel && j == 2 {
            g.finalize(s);
        } else {
            g.basic(s);
        }
    }
    // F2 arrives last so that it sits in its own segment
    g.finalize(p);
    g.finish(keying)
}

/// C05 on structured graphs that spill: ordered finalizes must never give ParallelFinalize
/// (any error is reported by `run_graph`); the parallel variant must be refused.
pub fn run_finalize_families(rep: &mut Report, thorough: bool) -> Vec<mcx::Value> {
    let kmax = if thorough { 24 } else { 12 };
    let mut jobs: Vec<(String, Dag, u8)> = Vec::new();
    for &ky in &KEYINGS {
        for k in 1..=kmax {
            for seg in 0..3 {
                jobs.push((format!("finalize_comb({k},{ky:?})"), finalize_comb(k, ky, false), seg));
            }
        }
    }
    let accs: Vec<Acc> = jobs
        .par_iter()
        .map(|(name, dag, seg)| {
            let mut acc = Acc::default();
            run_graph(dag, name, *seg, |_| false, &mut acc);
            acc
        })
        .collect();
    for a in accs {
        rep.count("executions", a.executions);
        rep.count("transitions", a.transitions);
        rep.count("comb_runs", a.executions);
        rep.count("comb_runs_that_spilled", a.spilled_runs);
        for (k, d, r) in a.violations {
            rep.violation(k, d, r);
        }
    }
    // parallel variant: the final commit must fail with ParallelFinalize
    let mut refused = 0u64;
    for &ky in &KEYINGS {
        for k in 2..=kmax.min(10) {
            let dag = finalize_comb(k, ky, true);
            let cmds = dag.cmds();
            let mut r = MemReplica::new_mem(rtlib::replica::graph_id_of(cmds[0].id));
            let mut t = r.trx();
            let res = mcx::catch(|| r.add(&mut t, &cmds).and_then(|_| r.commit(t)));
            rep.count("executions", 1);
            match res {
                Ok(Err(rtlib::rt::ClientError::ParallelFinalize)) => refused += 1,
                other => rep.violation(
                    format!("parallel-finalize-accepted: finalize_comb({k},{ky:?},parallel)"),
                    format!("two incomparable finalize commands were not refused: {:?}", other.map(|x| x.map_err(|e| e.to_string()))),
                    json!({"family": "finalize_comb", "k": k, "keying": format!("{ky:?}")}),
                ),
            }
        }
    }
    rep.count("comb_parallel_refused", refused);
    vec![json!({"family": "finalize comb (ordered finalizes over k side branches, flavour S spills for k >= 7)", "graphs": jobs.len()})]
}

#[derive(Default)]
pub struct Acc {
    pub executions: u64,
    pub transitions: u64,
    pub spill_writes: u64,
    pub spill_reads: u64,
    pub spilled_runs: u64,
    pub max_nodes: u64,
    pub violations: Vec<(String, String, mcx::Value)>,
    pub sample: Option<mcx::Value>,
    pub states: std::collections::BTreeSet<u64>,
}

/// Segmentation: 0 = one batch; 1 = flush after every command; 2 = batches of 7 with a commit after each.
pub fn run_graph(dag: &Dag, family: &str, seg: u8, class_ok: fn(&str) -> bool, acc: &mut Acc) {
    let cmds: Vec<Cmd> = dag.cmds();
    let n = dag.len();
    let graph = rtlib::replica::graph_id_of(cmds[0].id);
    let w0 = SPILL_WRITES.with(|c| c.get());
    let r0 = SPILL_READS.with(|c| c.get());
    let mut r = MemReplica::new_mem(graph);
    let key = format!("{family} n={n} seg={seg}");
    let mut fail = |acc: &mut Acc, class: &str, msg: String| {
        if !matches!(class, "panic" | "error" | "observe" | "harness") && !class_ok(class) {
            return;
        }
        if acc.violations.len() < 4 {
            acc.violations.push((format!("{class}: {key}"), msg, json!({"family": family, "n": n, "segmentation": seg, "universe": if n <= 40 { dag.describe() } else { format!("{n} nodes") }})));
        }
    };
    acc.executions += 1;
    acc.max_nodes = acc.max_nodes.max(n as u64);
    let res = mcx::catch(|| -> Result<(), String> {
        let mut t = r.trx();
        match seg {
            0 => {
                for chunk in cmds.chunks(64) {
                    r.add(&mut t, chunk).map_err(|e| format!("add: {e}"))?;
                }
            }
            1 => {
                for c in &cmds {
                    r.add(&mut t, std::slice::from_ref(c)).map_err(|e| format!("add: {e}"))?;
                    r.flush(&mut t).map_err(|e| format!("flush: {e}"))?;
                }
            }
            _ => {
                for chunk in cmds.chunks(7) {
                    r.add(&mut t, chunk).map_err(|e| format!("add: {e}"))?;
                    let old = std::mem::replace(&mut t, r.trx());
                    r.commit(old).map_err(|e| format!("commit: {e}"))?;
                }
            }
        }
        r.commit(t).map_err(|e| format!("commit: {e}"))?;
        Ok(())
    });
    acc.transitions += n as u64 + 1;
    match res {
        Err(p) => return fail(acc, "panic", format!("runtime panicked at {}: {p}", mcx::last_panic_location())),
        Ok(Err(e)) => return fail(acc, "error", e),
        Ok(Ok(())) => {}
    }
    let sw = SPILL_WRITES.with(|c| c.get()) - w0;
    let sr = SPILL_READS.with(|c| c.get()) - r0;
    acc.spill_writes += sw;
    acc.spill_reads += sr;
    if sw > 0 {
        acc.spilled_runs += 1;
    }
    let obs = match r.observe() {
        Ok(o) => o,
        Err(e) => return fail(acc, "observe", e),
    };
    acc.states.insert(obs.canon());
    // heads = childless nodes
    let mut has_child = vec![false; n];
    for nd in &dag.nodes {
        for &p in &nd.parents {
            has_child[p] = true;
        }
    }
    let ids = dag.ids();
    let mc = dag.max_cuts();
    let fr: Vec<usize> = (0..n).filter(|&i| !has_child[i]).collect();
    let mut want: Vec<_> = fr.iter().map(|&i| (ids[i], mc[i])).collect();
    want.sort();
    if obs.heads != want {
        fail(acc, "heads", format!("heads {:?} != frontier {:?}", crate::exec::short_ids(&obs.heads), crate::exec::short_ids(&want)));
    }
    if obs.cmds.len() != n {
        fail(acc, "cmdset", format!("{} commands stored, {} delivered", obs.cmds.len(), n));
    }
    // audit: every non-merge command exactly once, after its ancestors
    let refm = Ref::new(dag);
    if let Some((_, _, seq)) = obs.facts.iter().find(|(nm, _, _)| nm == "seq") {
        let names: Vec<&str> = std::str::from_utf8(seq).unwrap_or("").split(':').collect();
        let mut pos: BTreeMap<&str, usize> = BTreeMap::new();
        for (k, nm) in names.iter().enumerate() {
            if pos.insert(nm, k).is_some() {
                fail(acc, "audit-twice", format!("command {nm} applied twice"));
            }
        }
        let nm_of: Vec<String> = (0..n).map(node_name).collect();
        for i in 0..n {
            if dag.nodes[i].kind == Kind::Merge {
                continue;
            }
            match pos.get(nm_of[i].as_str()) {
                None => fail(acc, "audit-missing", format!("command {} never applied", nm_of[i])),
                Some(&k) => {
                    for &p in &dag.nodes[i].parents {
                        // nearest non-merge ancestors suffice transitively, but check all direct ancestors via anc
                        let _ = p;
                    }
                    for a in 0..n {
                        if dag.nodes[a].kind != Kind::Merge && refm.is_ancestor(a, i) {
                            if let Some(&ka) = pos.get(nm_of[a].as_str()) {
                                if ka > k {
                                    fail(acc, "audit-order", format!("{} applied before its ancestor {}", nm_of[i], nm_of[a]));
                                }
                            }
                        }
                    }
                }
            }
        }
        let nonmerge = dag.nodes.iter().filter(|x| x.kind != Kind::Merge).count();
        if names.len() != nonmerge {
            fail(acc, "audit-count", format!("seq has {} entries, {} non-merge commands", names.len(), nonmerge));
        }
    } else {
        fail(acc, "audit-missing", "no seq fact".into());
    }
    if r.log.borrow().rule_calls.iter().any(|c| c.is_merge) {
        fail(acc, "merge-evaluated", "the policy was asked to evaluate a merge command".into());
    }
    // reference braid (C03 oracle as a cross-check of order, not only multiplicity)
    let mut refm = refm;
    match refm.facts(&fr) {
        Ok((f, _)) => {
            if obs.facts != dump(&f) {
                fail(acc, "facts", format!("fact cache differs from the reference braid (n={n})"));
            }
        }
        Err(e) => fail(acc, "harness", format!("reference failed: {e:?}")),
    }
    if acc.sample.is_none() && sw > 0 {
        acc.sample = Some(json!({"family": family, "n": n, "segmentation": seg, "spill_writes": sw, "spill_reads": sr}));
    }
}

pub fn run_families(rep: &mut Report, flavour_s: bool, thorough: bool, class_ok: fn(&str) -> bool) -> Vec<mcx::Value> {
    let mut jobs: Vec<(String, Dag, u8)> = Vec::new();
    if flavour_s {
        let (smax, lmax, kmax, dmax) = if thorough { (9, 4, 14, 4) } else { (6, 3, 9, 3) };
        for &ky in &KEYINGS {
            for b in 2..=smax {
                for len in 1..=lmax {
                    for seg in 0..3 {
                        jobs.push((format!("star({b},{len},{ky:?})"), star(b, len, ky), seg));
                    }
                }
            }
            for k in 1..=kmax {
                for c in 1..=3 {
                    for seg in 0..3 {
                        jobs.push((format!("ladder_and_chain({k},{c},{ky:?})"), ladder_and_chain(k, c, ky), seg));
                    }
                }
            }
            for d in 1..=dmax {
                for seg in 0..3 {
                    jobs.push((format!("nested({d},{ky:?})"), nested(d, ky), seg));
                }
            }
            for k in 2..=(if thorough { 40 } else { 20 }) {
                for seg in 0..3 {
                    jobs.push((format!("fan2({k},{ky:?})"), fan2(k, ky), seg));
                }
            }
        }
    } else {
        // shipped thresholds: braids of 257+, > 768 live convergence entries
        let stars: &[(usize, usize)] = if thorough { &[(2, 129), (2, 150), (3, 100), (5, 160)] } else { &[(2, 129), (3, 100)] };
        for &ky in &[Keying::Asc, Keying::AltPrio] {
            for &(b, len) in stars {
                jobs.push((format!("star({b},{len},{ky:?})"), star(b, len, ky), 0));
            }
        }
        for &ky in &[Keying::Asc, Keying::Desc] {
            jobs.push((format!("fan2(600,{ky:?})"), fan2(600, ky), 0));
        }
        let ladders: &[(usize, usize)] = if thorough { &[(300, 2), (800, 3), (800, 300)] } else { &[(300, 2)] };
        for &ky in &[Keying::Desc, Keying::AltPrio] {
            for &(k, c) in ladders {
                jobs.push((format!("ladder_and_chain({k},{c},{ky:?})"), ladder_and_chain(k, c, ky), 0));
            }
        }
    }
    if let Ok(only) = std::env::var("RTG_ONLY") {
        jobs.retain(|(n, _, _)| n.starts_with(&only));
        for (n, _, s) in &jobs {
            eprintln!("job {n} seg={s}");
        }
    }
    let accs: Vec<Acc> = jobs
        .par_iter()
        .map(|(name, dag, seg)| {
            let mut acc = Acc::default();
            if std::env::var("RTG_ONLY").is_ok() {
                eprintln!("start {name} seg={seg}");
            }
            run_graph(dag, name, *seg, class_ok, &mut acc);
            acc
        })
        .collect();
    let mut states = std::collections::BTreeSet::new();
    let mut maxn = 0;
    for a in accs {
        rep.count("executions", a.executions);
        rep.count("transitions", a.transitions);
        rep.count("family_runs", a.executions);
        rep.count("spill_writes", a.spill_writes);
        rep.count("spill_reads", a.spill_reads);
        rep.count("runs_that_spilled", a.spilled_runs);
        maxn = maxn.max(a.max_nodes);
        states.extend(a.states);
        if let Some(s) = a.sample {
            rep.sample(s);
        }
        for (k, d, r) in a.violations {
            rep.violation(k, d, r);
        }
    }
    crate::props::graph::STATES.with(|s| s.borrow_mut().extend(states));
    vec![json!({"family": if flavour_s { "structured spill families (flavour S thresholds 4/2)" } else { "structured spill families (shipped thresholds)" }, "graphs": jobs.len(), "largest_graph_commands": maxn})]
}
