//! C08 — transactions are isolated and history only grows.
//!
//! 2–3 actors on one replica (`&mut ClientState` makes schedules sequential): each a transaction
//! with 1–2 `add_commands` calls then `commit`, or an action; every interleaving of the actors'
//! event sequences; every assignment of a small universe's commands to the actors.

use mcx::{json, Args, Level, Report, Tier};
use rtlib::dag::{Dag, MergeRank, Op};

use crate::{
    props::simrun::{finish, run_all},
    sim::{ActScript, Ev, SimOracles},
    universe::{for_each_universe, UniverseOpts},
};

/// All interleavings of the given sequences (preserving each sequence's order).
fn interleavings(seqs: &[Vec<Ev>], f: &mut dyn FnMut(&[Ev])) {
    fn rec(seqs: &[Vec<Ev>], pos: &mut Vec<usize>, cur: &mut Vec<Ev>, f: &mut dyn FnMut(&[Ev])) {
        let mut done = true;
        for i in 0..seqs.len() {
            if pos[i] < seqs[i].len() {
                done = false;
                cur.push(seqs[i][pos[i]].clone());
                pos[i] += 1;
                rec(seqs, pos, cur, f);
                pos[i] -= 1;
                cur.pop();
            }
        }
        if done {
            f(cur);
        }
    }
    let mut pos = vec![0; seqs.len()];
    let mut cur = Vec::new();
    rec(seqs, &mut pos, &mut cur, f);
}

pub fn cases(dag: &Dag, actors: usize, with_action: bool, split: bool, f: &mut dyn FnMut(&[Ev])) {
    let n = dag.len();
    let setup = vec![Ev::Add { trx: 9, nodes: vec![0] }, Ev::Commit { trx: 9 }];
    mcx::enumerate::sequences(actors, n - 1, |assign| {
        // canonical: actor labels appear in order of first use (symmetry reduction)
        let mut maxseen = 0;
        for &a in assign {
            if a > maxseen {
                return;
            }
            if a == maxseen {
                maxseen += 1;
            }
        }
        let mut seqs: Vec<Vec<Vec<Ev>>> = Vec::new(); // per actor: alternative event sequences
        for a in 0..actors {
            let nodes: Vec<usize> = (1..n).filter(|&i| assign[i - 1] == a).collect();
            let mut alts = Vec::new();
            // an actor with no commands is an empty transaction: commit only (after an empty add)
            alts.push(vec![Ev::Add { trx: a, nodes: nodes.clone() }, Ev::Commit { trx: a }]);
            if split && nodes.len() >= 2 {
                for k in 1..nodes.len() {
                    alts.push(vec![
                        Ev::Add { trx: a, nodes: nodes[..k].to_vec() },
                        Ev::Add { trx: a, nodes: nodes[k..].to_vec() },
                        Ev::Commit { trx: a },
                    ]);
                }
            }
            seqs.push(alts);
        }
        if with_action {
            seqs.push(vec![vec![Ev::Action(ActScript { publish: vec![(0xa0, false, 0, vec![Op::Append])], fail_after: None })]]);
        }
        // product over alternatives
        let mut idx = vec![0usize; seqs.len()];
        loop {
            let chosen: Vec<Vec<Ev>> = seqs.iter().zip(&idx).map(|(alts, &i)| alts[i].clone()).collect();
            interleavings(&chosen, &mut |evs| {
                let mut all = setup.clone();
                all.extend_from_slice(evs);
                f(&all);
            });
            let mut k = 0;
            loop {
                if k == idx.len() {
                    return;
                }
                idx[k] += 1;
                if idx[k] < seqs[k].len() {
                    break;
                }
                idx[k] = 0;
                k += 1;
            }
        }
    });
}

pub fn run(args: &Args) {
    let mut rep = Report::new(args, Level::ModelChecking);
    let uni = |n_min, n_max| UniverseOpts {
        n_min,
        n_max,
        allow_merges: true,
        prios: vec![0],
        max_finalize: 0,
        ordered_finalize_only: true,
        full_rank_perms_upto: 0,
        merge_ranks: vec![MergeRank::Hash],
    };
    let oracles = SimOracles { outcomes: true, state: true, effects: false, monotone: true };
    let plans: Vec<(&str, UniverseOpts, usize, bool, bool)> = match args.tier {
        Tier::Quick => vec![
            ("n<=5: 2 transactions (split adds) + action, all interleavings", uni(2, 5), 2, true, true),
            ("n<=5: 3 transactions (split adds), all interleavings", uni(3, 5), 3, false, true),
            ("n<=4: 3 transactions + action, all interleavings", uni(3, 4), 3, true, false),
        ],
        Tier::Thorough => vec![
            ("n<=6: 2 transactions (split adds) + action, all interleavings", uni(2, 6), 2, true, true),
            ("n<=5: 3 transactions (split adds) + action, all interleavings", uni(3, 5), 3, true, true),
            ("n=6: 3 transactions, all interleavings", uni(6, 6), 3, false, false),
        ],
    };
    let mut families = Vec::new();
    for (name, o, actors, act, split) in plans {
        let mut dags = Vec::new();
        // one rank scheme (ascending) is enough here: ids do not influence stamps
        let mut seen = std::collections::BTreeSet::new();
        for_each_universe(&o, |d| {
            let shape: Vec<Vec<usize>> = d.nodes.iter().map(|n| n.parents.clone()).collect();
            if seen.insert(shape) {
                dags.push(d.clone())
            }
        });
        let filter: crate::props::simrun::Filter = |c, _| matches!(c, "commit-outcome" | "history-shrank" | "failed-op-changed-state" | "cmdset" | "heads");
        let ex = run_all(&mut rep, name, &dags, oracles, false, filter, |d, f| cases(d, actors, act, split, f));
        families.push(json!({"family": name, "universes": dags.len(), "executions": ex}));
        // the file writer's stamp is a file offset rather than a counter: same space on the libc backend
        let small: Vec<Dag> = dags.iter().filter(|d| d.len() <= if args.tier == Tier::Thorough { 5 } else { 4 }).cloned().collect();
        let exf = crate::props::simrun::run_all_on(&mut rep, name, &small, oracles, false, filter, true, |d, f| cases(d, actors, act, split, f));
        rep.count("file_backend_executions", exf);
        families.push(json!({"family": format!("{name} [file backend]"), "universes": small.len(), "executions": exf}));
    }
    {
        // Backend faults: exactly one head-set commit (of a transaction or of the action) is refused
        // with an I/O error; the failed operation must change nothing, the set of committed commands
        // must not shrink, and the other actors behave as the stamp rule says.
        let o = uni(2, if args.tier == Tier::Thorough { 5 } else { 4 });
        let mut dags = Vec::new();
        let mut seen = std::collections::BTreeSet::new();
        for_each_universe(&o, |d| {
            let shape: Vec<Vec<usize>> = d.nodes.iter().map(|n| n.parents.clone()).collect();
            if seen.insert(shape) {
                dags.push(d.clone())
            }
        });
        let filter: crate::props::simrun::Filter = |c, _| matches!(c, "commit-outcome" | "action-outcome" | "history-shrank" | "failed-op-changed-state" | "cmdset" | "heads");
        let ex = crate::props::simrun::run_all_faulty(&mut rep, "fault", &dags, oracles, filter, |d, f| {
            cases(d, 2, true, false, &mut |evs: &[Ev]| {
                for (i, e) in evs.iter().enumerate() {
                    if i >= 2 && matches!(e, Ev::Commit { .. } | Ev::Action(_)) {
                        let mut v = evs[..i].to_vec();
                        v.push(Ev::FailNextCommit);
                        v.extend_from_slice(&evs[i..]);
                        f(&v);
                    }
                }
            })
        });
        families.push(json!({"family": "one refused backend commit at every commit/action position, 2 transactions + action, all interleavings", "universes": dags.len(), "executions": ex}));
        rep.require_nonzero("faults_fired");
    }
    {
        // wide head sets: a local action on k = 2..=16 committed concurrent heads collapses them; the set
        // of committed commands must not shrink (every previous head stays reachable)
        let dags = crate::props::action::wide_dags(16);
        let act = crate::sim::ActScript { publish: vec![(0xa0, false, 0, vec![rtlib::dag::Op::Append, rtlib::dag::Op::Emit(1)])], fail_after: None };
        let follow = crate::sim::ActScript { publish: vec![(0xb8, false, 0, vec![rtlib::dag::Op::Append, rtlib::dag::Op::Emit(9)])], fail_after: None };
        let filter: crate::props::simrun::Filter = |c, _| matches!(c, "commit-outcome" | "action-outcome" | "history-shrank" | "failed-op-changed-state" | "cmdset" | "heads");
        let ex = run_all(&mut rep, "wide", &dags, oracles, false, filter, |d, f| crate::props::action::wide_cases(d, &act, &follow, f));
        rep.count("wide_head_set_executions", ex);
        families.push(json!({"family": "k = 2..16 concurrent heads (one or two sync transactions), then an action and a follow-up", "universes": dags.len(), "executions": ex}));
        rep.require_nonzero("wide_head_set_executions");
    }
    rep.require_nonzero("concurrent_transaction_errors");
    rep.require_nonzero("file_backend_executions");
    rep.require_nonzero("ok_actions");
    finish(rep, families)
}
