//! General event simulator: runs events on a real replica and on a model side by side.
//! The model predicts, from the statement-level rules only, the outcome of every operation
//! (accepted / NoSuchParent / Rejected / ParallelFinalize / ConcurrentTransaction) and the
//! committed state (frontier, command set, reference facts, committed effects).

use rtlib::{
    dag::{node_name, Cmd, Dag, Kind, Node, Op},
    policy::{ActionScript, Publish},
    refmodel::{dump, BraidError, Fail, Ref},
    replica::{Obs, Replica},
    rt::{ClientError, PolicyError, StorageError, StorageProvider, Transaction},
};


/// When set, `check_state` also compares the fact state stored at every committed command with the
/// reference state of that command (class "stored-state"); used by families where damage can hide
/// in a segment's own fact index while the fact cache at the heads is rebuilt by a braid.
pub static STORED_STATE_CHECK: std::sync::atomic::AtomicBool = std::sync::atomic::AtomicBool::new(false);

#[derive(Clone, Debug, PartialEq, Eq, Hash, PartialOrd, Ord)]
pub enum Ev {
    /// open (or reuse) transaction slot `trx` and add the nodes in one `add_commands` call
    Add { trx: usize, nodes: Vec<usize> },
    Flush { trx: usize },
    Commit { trx: usize },
    Action(ActScript),
    /// arm the backend so that its next head-set commit fails with an I/O error (fault replicas only)
    FailNextCommit,
}

/// Action description in terms of the universe: published commands become new nodes.
#[derive(Clone, Debug, PartialEq, Eq, Hash, PartialOrd, Ord)]
pub struct ActScript {
    /// (rank, finalize, prio, prog) per published command
    pub publish: Vec<(u8, bool, u32, Vec<Op>)>,
    pub fail_after: Option<(usize, u8)>,
}

pub fn describe_events(evs: &[Ev]) -> String {
    let mut s = String::new();
    for e in evs {
        match e {
            Ev::Add { trx, nodes } => {
                s.push_str(&format!("add{trx}[{}] ", nodes.iter().map(|&n| node_name(n)).collect::<Vec<_>>().join("")));
            }
            Ev::Flush { trx } => s.push_str(&format!("flush{trx} ")),
            Ev::Commit { trx } => s.push_str(&format!("commit{trx} ")),
            Ev::FailNextCommit => s.push_str("FAULT(next backend commit) "),
            Ev::Action(a) => {
                s.push_str(&format!(
                    "action(pub={}{}) ",
                    a.publish.iter().map(|(r, f, p, prog)| format!("<{r:02x}{}{p}{}>", if *f { "F" } else { "B" }, if prog == &[Op::Append] { String::new() } else { format!("{prog:?}") })).collect::<String>(),
                    a.fail_after.map(|(j, k)| format!(" fail@{j}:{k}")).unwrap_or_default()
                ));
            }
        }
    }
    s.trim_end().to_string()
}

#[derive(Clone, Debug, PartialEq, Eq)]
pub enum Expect {
    Ok,
    NoSuchParent,
    Rejected,
    Panic,
    Internal,
    ParallelFinalize,
    Concurrent,
    InitError,
    /// refused with whatever error (malformed command)
    Refused,
}

fn classify(e: &ClientError) -> String {
    match e {
        ClientError::NoSuchParent(_) => "NoSuchParent".into(),
        ClientError::PolicyError(PolicyError::Rejected) => "Rejected".into(),
        ClientError::PolicyError(PolicyError::Panic) => "Panic".into(),
        ClientError::PolicyError(PolicyError::InternalError) => "Internal".into(),
        ClientError::ParallelFinalize => "ParallelFinalize".into(),
        ClientError::ConcurrentTransaction => "Concurrent".into(),
        ClientError::InitError => "InitError".into(),
        ClientError::StorageError(StorageError::EmptyPerspective) => "Storage(EmptyPerspective)".into(),
        other => format!("Other({other})"),
    }
}

fn expect_name(e: &Expect) -> &'static str {
    match e {
        Expect::Ok => "Ok",
        Expect::NoSuchParent => "NoSuchParent",
        Expect::Rejected => "Rejected",
        Expect::Panic => "Panic",
        Expect::Internal => "Internal",
        Expect::ParallelFinalize => "ParallelFinalize",
        Expect::Concurrent => "Concurrent",
        Expect::InitError => "InitError",
        Expect::Refused => "Refused",
    }
}

#[derive(Clone, Default)]
struct TrxModel {
    stamp: Option<u64>,
    set: u128,
}

#[derive(Default, Clone, Copy)]
pub struct SimOracles {
    pub outcomes: bool,
    pub state: bool,
    pub effects: bool,
    pub monotone: bool,
}

pub struct Sim<SP: StorageProvider> {
    pub dag: Dag,
    cmds: Vec<Cmd>,
    pub replica: Replica<SP>,
    trxs: Vec<Option<Transaction<SP, rtlib::policy::AuditStore>>>,
    tm: Vec<TrxModel>,
    pub committed: u128,
    epoch: u64,
    graph_exists: bool,
    pub expected_effects: Vec<String>,
    pub violations: Vec<(String, String)>,
    pub transitions: u64,
    pub outcome_classes: Vec<String>,
    pub oracles: SimOracles,
    pub last_obs: Option<Obs>,
    pub action_views_checked: u64,
    pub collapses: u64,
    /// set after a panic inside the runtime: the replica is not used any further
    pub dead: bool,
    /// drop a transaction whose `add_commands` failed instead of continuing to use it
    pub abandon_on_add_error: bool,
    /// a backend commit fault is armed: the next commit / action must fail and change nothing
    fault_armed: bool,
    pub faults_fired: u64,
}

impl<SP: StorageProvider> Sim<SP> {
    pub fn new(dag: &Dag, oracles: SimOracles, make: fn(rtlib::rt::GraphId) -> Replica<SP>) -> Self {
        let cmds = dag.cmds();
        let graph = rtlib::replica::graph_id_of(cmds[0].id);
        Sim {
            dag: dag.clone(),
            cmds,
            replica: make(graph),
            trxs: Vec::new(),
            tm: Vec::new(),
            committed: 0,
            epoch: 0,
            graph_exists: false,
            expected_effects: Vec::new(),
            violations: Vec::new(),
            transitions: 0,
            outcome_classes: Vec::new(),
            oracles,
            last_obs: None,
            action_views_checked: 0,
            collapses: 0,
            dead: false,
            abandon_on_add_error: false,
            fault_armed: false,
            faults_fired: 0,
        }
    }

    fn slot(&mut self, t: usize) {
        while self.trxs.len() <= t {
            self.trxs.push(None);
            self.tm.push(TrxModel::default());
        }
        if self.trxs[t].is_none() {
            self.trxs[t] = Some(self.replica.trx());
            self.tm[t] = TrxModel::default();
        }
    }

    fn viol(&mut self, class: &str, msg: String) {
        self.violations.push((class.to_string(), msg));
    }

    fn has_parallel_finalize(&self, heads: &[usize]) -> bool {
        let r = Ref::new(&self.dag);
        matches!(r.braid(heads), Err(BraidError::ParallelFinalize))
    }

    /// Effects of braiding `heads` (reference), appended to the expected committed effects.
    fn braid_effects(&self, heads: &[usize]) -> Vec<String> {
        let mut r = Ref::new(&self.dag);
        r.facts(heads).map(|(_, e)| e).unwrap_or_default()
    }

    /// Model of adding one node to transaction `t`. Returns the expectation.
    fn model_add_one(&mut self, t: usize, x: usize) -> Expect {
        let node = self.dag.nodes[x].clone();
        if !self.graph_exists {
            if x != 0 {
                return Expect::InitError;
            }
            // init is evaluated and the graph created with it committed
            let mut f = Default::default();
            let mut e = vec![];
            return match rtlib::refmodel::apply(&node_name(0), &node.prog, &mut f, &mut e) {
                Ok(()) => {
                    self.graph_exists = true;
                    self.committed |= 1;
                    self.epoch += 1;
                    self.expected_effects.extend(e);
                    Expect::Ok
                }
                Err(Fail::Rejected) => Expect::Rejected,
                Err(Fail::Panic) => Expect::Panic,
                Err(Fail::Internal) => Expect::Internal,
            };
        }
        let have = self.committed | self.tm[t].set;
        if have >> x & 1 == 1 {
            return Expect::Ok; // duplicate: skipped
        }
        if node.kind == Kind::Init {
            return Expect::Ok; // spurious re-delivery of our own init
        }
        for &p in &node.parents {
            if have >> p & 1 == 0 {
                return Expect::NoSuchParent;
            }
        }
        match node.kind {
            Kind::Merge => {
                if self.has_parallel_finalize(&node.parents) {
                    return Expect::ParallelFinalize;
                }
                let eff = self.braid_effects(&node.parents);
                self.expected_effects.extend(eff);
                self.tm[t].set |= 1 << x;
                Expect::Ok
            }
            _ if node.prog.contains(&Op::BadParentCut) => Expect::Refused,
            _ => {
                let mut r = Ref::new(&self.dag);
                let mut f = r.state(node.parents[0]).expect("parent state");
                let mut e = vec![];
                match rtlib::refmodel::apply(&node_name(x), &node.prog, &mut f, &mut e) {
                    Ok(()) => {
                        self.expected_effects.extend(e);
                        self.tm[t].set |= 1 << x;
                        Expect::Ok
                    }
                    Err(Fail::Rejected) => Expect::Rejected,
                    Err(Fail::Panic) => Expect::Panic,
                    Err(Fail::Internal) => Expect::Internal,
                }
            }
        }
    }

    fn guarded<T>(&mut self, what: &str, f: impl FnOnce(&mut Self) -> T) -> Option<T> {
        match mcx::catch(|| f(self)) {
            Ok(v) => Some(v),
            Err(p) => {
                self.dead = true;
                let loc = mcx::last_panic_location();
                self.outcome_classes.push("panic".into());
                self.violations.push(("panic".into(), format!("{what}: the runtime panicked at {loc}: {p}")));
                None
            }
        }
    }

    pub fn step(&mut self, ev: &Ev) {
        if self.dead {
            return;
        }
        self.transitions += 1;
        match ev {
            Ev::FailNextCommit => {
                if let Some(f) = self.replica.commit_fault() {
                    f.arm(1);
                    self.fault_armed = true;
                }
            }
            Ev::Add { trx, nodes } => {
                let t = *trx;
                self.slot(t);
                let existed = self.graph_exists;
                let mut expect = Expect::Ok;
                if nodes.is_empty() && !self.graph_exists {
                    expect = Expect::InitError;
                }
                if self.graph_exists && self.tm[t].stamp.is_none() {
                    // the head-set stamp is read on the first add, even an empty one
                    self.tm[t].stamp = Some(self.epoch);
                }
                for &x in nodes {
                    // stamp is captured once storage exists, before the remaining commands are handled
                    let e = self.model_add_one(t, x);
                    if self.graph_exists && self.tm[t].stamp.is_none() {
                        self.tm[t].stamp = Some(self.epoch);
                    }
                    if e != Expect::Ok {
                        expect = e;
                        break;
                    }
                }
                let _ = existed;
                let batch: Vec<Cmd> = nodes.iter().map(|&x| self.cmds[x].clone()).collect();
                let mut trx_obj = self.trxs[t].take().unwrap();
                let Some(res) = self.guarded("add_commands", |s| s.replica.add(&mut trx_obj, &batch)) else { return };
                self.trxs[t] = Some(trx_obj);
                if res.is_err() && self.abandon_on_add_error {
                    self.trxs[t] = None;
                    self.tm[t] = TrxModel::default();
                }
                let got = match &res {
                    Ok(_) => "Ok".to_string(),
                    Err(e) => classify(e),
                };
                self.outcome_classes.push(format!("add:{got}"));
                let matches = if expect == Expect::Refused { got != "Ok" } else { got == expect_name(&expect) };
                if self.oracles.outcomes && !matches {
                    self.viol("add-outcome", format!("add{t}{:?}: runtime returned {got}, statement model expects {}", nodes.iter().map(|&n| node_name(n)).collect::<Vec<_>>(), expect_name(&expect)));
                }
            }
            Ev::Flush { trx } => {
                let t = *trx;
                if self.trxs.get(t).map(|x| x.is_none()).unwrap_or(true) || !self.graph_exists {
                    return;
                }
                let mut trx_obj = self.trxs[t].take().unwrap();
                let Some(res) = self.guarded("flush", |s| s.replica.flush(&mut trx_obj)) else { return };
                self.trxs[t] = Some(trx_obj);
                if let Err(e) = res {
                    self.outcome_classes.push(format!("flush:{}", classify(&e)));
                    if self.oracles.outcomes {
                        self.viol("flush-error", format!("flush{t} failed: {e}"));
                    }
                } else {
                    self.outcome_classes.push("flush:Ok".into());
                }
            }
            Ev::Commit { trx } => {
                let t = *trx;
                if self.trxs.get(t).map(|x| x.is_none()).unwrap_or(true) || !self.graph_exists {
                    return;
                }
                let m = std::mem::take(&mut self.tm[t]);
                let expect = match m.stamp {
                    None => Expect::Ok, // nothing read, nothing to do
                    Some(s) if s != self.epoch => Expect::Concurrent,
                    Some(_) => {
                        let total = self.committed | m.set;
                        let fr = self.dag.frontier(total);
                        if fr.len() > 1 && self.has_parallel_finalize(&fr) {
                            Expect::ParallelFinalize
                        } else if self.fault_armed {
                            // the backend refuses the head-set commit: nothing may change
                            self.fault_armed = false;
                            self.faults_fired += 1;
                            Expect::Refused
                        } else {
                            if fr.len() > 1 {
                                let eff = self.braid_effects(&fr);
                                self.expected_effects.extend(eff);
                            }
                            self.committed = total;
                            self.epoch += 1;
                            Expect::Ok
                        }
                    }
                };
                let trx_obj = self.trxs[t].take().unwrap();
                let before = self.last_obs.clone();
                let Some(res) = self.guarded("commit", |s| s.replica.commit(trx_obj)) else { return };
                let got = match &res {
                    Ok(_) => "Ok".to_string(),
                    Err(e) => classify(e),
                };
                self.outcome_classes.push(format!("commit:{got}"));
                if expect == Expect::Refused {
                    // effects a braid emitted before the failed head-set commit are not specified: resynchronise
                    self.expected_effects = self.replica.sink.committed_effects();
                }
                let matches = if expect == Expect::Refused { got != "Ok" } else { got == expect_name(&expect) };
                if self.oracles.outcomes && !matches {
                    self.viol("commit-outcome", format!("commit{t}: runtime returned {got}, statement model expects {}", expect_name(&expect)));
                }
                self.check_state(&format!("commit{t}"), res.is_err(), before);
            }
            Ev::Action(script) => {
                if !self.graph_exists {
                    return;
                }
                // model: collapse heads
                let fr = self.dag.frontier(self.committed);
                let mut expect = Expect::Ok;
                let saved_dag = self.dag.clone();
                let mut new_nodes: Vec<usize> = Vec::new();
                let mut head = fr[0];
                if fr.len() > 1 {
                    self.collapses += 1;
                    // pairwise front-to-back fold over heads sorted by id
                    let ids = self.dag.ids();
                    let mut q: std::collections::VecDeque<usize> = {
                        let mut v = fr.clone();
                        v.sort_by_key(|&i| ids[i]);
                        v.into()
                    };
                    while q.len() > 1 {
                        let l = q.pop_front().unwrap();
                        let r = q.pop_front().unwrap();
                        if self.has_parallel_finalize(&[l, r]) {
                            expect = Expect::ParallelFinalize;
                            break;
                        }
                        let (a, b) = if l < r { (l, r) } else { (r, l) };
                        let existing = self.dag.nodes.iter().position(|n| n.kind == Kind::Merge && n.parents == [a, b]);
                        let m = match existing {
                            Some(m) => m,
                            None => {
                                self.dag.nodes.push(Node { kind: Kind::Merge, parents: vec![a, b], rank: 0, prog: vec![] });
                                self.dag.len() - 1
                            }
                        };
                        new_nodes.push(m);
                        q.push_back(m);
                    }
                    if expect == Expect::Ok {
                        head = q[0];
                    }
                }
                let publish_base = self.dag.len();
                let mut action_effects = Vec::new();
                let mut expected_view = None;
                let expected_parent_idx = head;
                if expect == Expect::Ok {
                    // the view the action must see: reference state at the collapsed head
                    let mut r = Ref::new(&self.dag);
                    let mut facts = r.state(head).expect("state at head");
                    expected_view = Some(dump(&facts));
                    let mut parent = head;
                    for (j, (rank, fin, prio, prog)) in script.publish.iter().enumerate() {
                        if script.fail_after.map(|(a, _)| a == j).unwrap_or(false) {
                            expect = fail_expect(script.fail_after.unwrap().1);
                            break;
                        }
                        let idx = self.dag.len();
                        let name = node_name(idx);
                        let mut e = vec![];
                        match rtlib::refmodel::apply(&name, prog, &mut facts, &mut e) {
                            Ok(()) => action_effects.extend(e),
                            Err(f) => {
                                expect = match f {
                                    Fail::Rejected => Expect::Rejected,
                                    Fail::Panic => Expect::Panic,
                                    Fail::Internal => Expect::Internal,
                                };
                                break;
                            }
                        }
                        self.dag.nodes.push(Node {
                            kind: if *fin { Kind::Finalize } else { Kind::Basic(*prio) },
                            parents: vec![parent],
                            rank: *rank,
                            prog: prog.clone(),
                        });
                        new_nodes.push(idx);
                        parent = idx;
                    }
                    if expect == Expect::Ok {
                        if let Some((a, k)) = script.fail_after {
                            if a >= script.publish.len() {
                                expect = fail_expect(k);
                            }
                        }
                    }
                }
                if expect == Expect::Ok && self.fault_armed {
                    // everything evaluates, then the backend refuses the head-set commit
                    self.fault_armed = false;
                    self.faults_fired += 1;
                    expect = Expect::Refused;
                }
                // the real script publishes everything it is told to (the policy decides where it fails);
                // ids follow the model's numbering: merges first, then the published chain
                let real = ActionScript {
                    publish: script
                        .publish
                        .iter()
                        .enumerate()
                        .map(|(j, (rank, fin, prio, prog))| {
                            let idx = publish_base + j;
                            Publish { rank: *rank, idx, name: node_name(idx), finalize: *fin, prio: *prio, prog: prog.clone() }
                        })
                        .collect(),
                    fail_after: script.fail_after,
                    direct: vec![],
                    probe: false,
                };
                let before = self.last_obs.clone();
                let views_before = self.replica.log.borrow().action_views.len();
                let sink_before = self.replica.sink.events.len();
                let Some(res) = self.guarded("action", |s| s.replica.action(&real)) else { return };
                let got = match &res {
                    Ok(_) => "Ok".to_string(),
                    Err(e) => classify(e),
                };
                self.outcome_classes.push(format!("action:{got}"));
                // An action that publishes nothing has no specified outcome (the statement speaks of
                // the commands it published): it may succeed or fail, atomically either way.
                if script.publish.is_empty() && expect == Expect::Ok && res.is_err() {
                    expect = Expect::Internal;
                    self.outcome_classes.push("action:empty-refused".into());
                } else if self.oracles.outcomes && !(if expect == Expect::Refused { got != "Ok" } else { got == expect_name(&expect) }) {
                    self.viol("action-outcome", format!("action: runtime returned {got}, statement model expects {}", expect_name(&expect)));
                }
                // what the action saw
                if self.oracles.state {
                    if let Some(want) = &expected_view {
                        let log = self.replica.log.borrow();
                        if let Some(view) = log.action_views.get(views_before) {
                            self.action_views_checked += 1;
                            // model-independent: what queries saw before == what the action sees after the collapse
                            if let Some(b) = &before {
                                if &b.facts != view {
                                    self.violations.push(("lazy-merge-view".into(), format!("fact cache before the action {} != facts visible inside call_action {}", crate::exec::show_facts(&b.facts), crate::exec::show_facts(view))));
                                }
                            }
                            if view != want {
                                let msg = format!("facts visible inside call_action {} != reference state of the collapsed heads {}", crate::exec::show_facts(view), crate::exec::show_facts(want));
                                drop(log);
                                self.viol("action-view", msg);
                            } else {
                                // parent address of the first publish == collapsed head
                                let ids = self.dag.ids();
                                let mc = self.dag.max_cuts();
                                let wantp = (ids[expected_parent_idx], mc[expected_parent_idx]);
                                let gotp = log.action_parents.get(views_before).cloned().flatten().map(|a| (a.id, a.max_cut.get()));
                                if let (true, Some(Ok(hb))) = (fr.len() > 1, before.as_ref().map(|b| b.hello.clone())) {
                                    if Some(hb) != gotp {
                                        self.violations.push(("hello-vs-collapse".into(), format!("hello head advertised before the action {:?} is not the address of the merge the collapse wrote {:?}", (hb.0.as_bytes()[0], hb.1), gotp.map(|(i, m)| (i.as_bytes()[0], m)))));
                                    }
                                }
                                if gotp != Some(wantp) {
                                    let msg = format!("action parent {:?} != collapsed head {:?}", gotp.map(|(i, m)| (i.as_bytes()[0], m)), (wantp.0.as_bytes()[0], wantp.1));
                                    drop(log);
                                    self.viol("action-parent", msg);
                                }
                            }
                        }
                    }
                }
                if self.oracles.effects {
                    // One sink transaction per action: begin, the action's own effects, then commit
                    // (success) or rollback (failure). The collapse of the heads must be silent.
                    let evs = &self.replica.sink.events[sink_before..];
                    let begins = evs.iter().filter(|e| matches!(e, rtlib::replica::SinkEv::Begin)).count();
                    // on failure the statement only demands that no effects are committed
                    let ends_ok = match (evs.last(), res.is_ok()) {
                        (Some(rtlib::replica::SinkEv::Commit), true) => true,
                        (_, false) => true,
                        _ => false,
                    };
                    let commits = evs.iter().filter(|e| matches!(e, rtlib::replica::SinkEv::Commit)).count();
                    if begins > 1 || !ends_ok || (res.is_err() && commits > 0) || (begins == 1 && !matches!(evs.first(), Some(rtlib::replica::SinkEv::Begin))) {
                        let msg = format!("sink transcript of the action is {} (result {got})", crate::exec::sink_summary(evs));
                        self.viol("action-sink", msg);
                    }
                }
                if expect == Expect::Ok {
                    for m in &new_nodes {
                        self.committed |= 1 << m;
                    }
                    self.epoch += 1;
                    self.expected_effects.extend(action_effects);
                    self.cmds = self.dag.cmds();
                } else {
                    self.dag = saved_dag;
                }
                self.check_state("action", res.is_err(), before);
            }
        }
    }

    /// After a commit/action: observe and compare with the model.
    fn check_state(&mut self, what: &str, failed: bool, before: Option<Obs>) {
        let Some(o) = self.guarded("observe", |s| s.replica.observe()) else { return };
        let obs = match o {
            Ok(o) => o,
            Err(e) => {
                if self.oracles.state {
                    self.viol("observe-error", format!("after {what}: {e}"));
                }
                return;
            }
        };
        if failed {
            if let Some(b) = &before {
                if self.oracles.state && *b != obs {
                    self.viol("failed-op-changed-state", format!("after failed {what}: observation changed:\n  before {}\n  after  {}", b.short(), obs.short()));
                }
            }
        }
        if self.oracles.monotone {
            if let Some(b) = &before {
                for id in b.cmds.keys() {
                    if !obs.cmds.contains_key(id) {
                        self.viol("history-shrank", format!("after {what}: command {:02x}.. no longer in the committed graph", id.as_bytes()[0]));
                        break;
                    }
                }
            }
        }
        if self.oracles.state {
            let ids = self.dag.ids();
            let mc = self.dag.max_cuts();
            let fr = self.dag.frontier(self.committed);
            let mut want: Vec<_> = fr.iter().map(|&i| (ids[i], mc[i])).collect();
            want.sort();
            if obs.heads != want {
                self.viol("heads", format!("after {what}: heads {:?} != model frontier {:?}", crate::exec::short_ids(&obs.heads), crate::exec::short_ids(&want)));
            }
            let want_cmds: std::collections::BTreeSet<_> = (0..self.dag.len()).filter(|&i| self.committed >> i & 1 == 1).map(|i| ids[i]).collect();
            let got: std::collections::BTreeSet<_> = obs.cmds.keys().copied().collect();
            if want_cmds != got {
                self.viol("cmdset", format!("after {what}: committed graph has {} commands, model has {}", got.len(), want_cmds.len()));
            }
            let (rf, wh) = {
                let mut r = Ref::new(&self.dag);
                (r.facts(&fr), r.merge_fold(&fr))
            };
            match rf {
                Ok((f, _)) => {
                    let w = dump(&f);
                    if obs.facts != w {
                        self.viol("facts", format!("after {what}: fact cache {} != reference {}", crate::exec::show_facts(&obs.facts), crate::exec::show_facts(&w)));
                    }
                }
                Err(e) => self.viol("harness", format!("reference failed: {e:?}")),
            }
            match &obs.hello {
                Ok(h) if *h == wh => {}
                other => self.viol("hello", format!("after {what}: hello_head {:?} != reference fold", other.as_ref().map(|(i, m)| (i.as_bytes()[0], *m)))),
            }
        }
        if self.oracles.state && STORED_STATE_CHECK.load(std::sync::atomic::Ordering::Relaxed) {
            // the fact state STORED at every committed command equals the reference state of that command
            use rtlib::rt::Storage as _;
            let ids = self.dag.ids();
            let mc = self.dag.max_cuts();
            let graph = self.replica.graph;
            let mut found: Vec<(&'static str, String)> = Vec::new();
            match self.replica.client.provider().get_storage(graph) {
                Err(e) => found.push(("observe-error", format!("get_storage: {e}"))),
                Ok(storage) => {
                    let mut buf = rtlib::rt::TraversalBuffer::new();
                    let mut r = Ref::new(&self.dag);
                    for i in 0..self.dag.len() {
                        if self.committed >> i & 1 == 0 {
                            continue;
                        }
                        let loc = match storage.get_location(rtlib::replica::addr(ids[i], mc[i]), &mut buf) {
                            Ok(Some(l)) => l,
                            _ => continue, // reported by the command-set clause
                        };
                        let got = match storage.get_fact_perspective(loc).map_err(|e| format!("{e}")).and_then(|fp| rtlib::policy::dump_facts(&fp).map_err(|e| format!("{e}"))) {
                            Ok(g) => g,
                            Err(e) => {
                                found.push(("observe-error", format!("facts stored at {}: {e}", node_name(i))));
                                continue;
                            }
                        };
                        if let Ok(f) = r.state(i) {
                            let want = dump(&f);
                            if got != want {
                                found.push(("stored-state", format!("after {what}: facts stored at {}: {} != reference {}", node_name(i), crate::exec::show_facts(&got), crate::exec::show_facts(&want))));
                                break;
                            }
                        }
                    }
                }
            }
            for (c, d) in found {
                self.viol(c, d);
            }
        }
        if self.oracles.effects {
            let got = self.replica.sink.committed_effects();
            if got != self.expected_effects {
                self.viol("effects", format!("after {what}: committed effects {:?} != expected {:?}", got, self.expected_effects));
                // resynchronise so one divergence is reported once
                self.expected_effects = got;
            }
        }
        self.last_obs = Some(obs);
    }
}

fn fail_expect(k: u8) -> Expect {
    match k {
        0 => Expect::Rejected,
        1 => Expect::Panic,
        _ => Expect::Internal,
    }
}
