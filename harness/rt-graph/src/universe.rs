//! Universe enumeration (DESIGN.md 4.1): shapes × kinds × id ranks × merge-rank mode × programs.

use rtlib::dag::{shapes, is_canonical_shape, Dag, Kind, MergeRank, Node, Op};

#[derive(Clone, Debug)]
pub struct UniverseOpts {
    pub n_min: usize,
    pub n_max: usize,
    pub allow_merges: bool,
    /// priorities available to Basic nodes
    pub prios: Vec<u32>,
    /// maximum number of Finalize nodes
    pub max_finalize: usize,
    /// require all finalize nodes to be pairwise comparable (no ParallelFinalize anywhere)
    pub ordered_finalize_only: bool,
    /// all rank permutations if n ≤ this, else the reduced scheme set
    pub full_rank_perms_upto: usize,
    pub merge_ranks: Vec<MergeRank>,
}

pub const RANK_INIT: u8 = 0x08;

/// Rank vectors for the `k` non-init, non-merge nodes.
pub fn rank_vectors(k: usize, full: bool) -> Vec<Vec<u8>> {
    let base: Vec<u8> = (0..k).map(|i| 0x10 + 0x10 * i as u8).collect();
    let mut out = Vec::new();
    if full {
        mcx::enumerate::permutations(k, |p| out.push(p.iter().map(|&i| base[i]).collect()));
    } else {
        let asc: Vec<u8> = base.clone();
        let desc: Vec<u8> = base.iter().rev().copied().collect();
        // interleaved: 0, k-1, 1, k-2 …
        let mut inter = Vec::new();
        let (mut lo, mut hi) = (0usize, k);
        while lo < hi {
            inter.push(base[lo]);
            lo += 1;
            if lo < hi {
                hi -= 1;
                inter.push(base[hi]);
            }
        }
        let mut set = std::collections::BTreeSet::new();
        for v in [asc, desc, inter] {
            set.insert(v.clone());
            for i in 0..k.saturating_sub(1) {
                let mut w = v.clone();
                w.swap(i, i + 1);
                set.insert(w);
            }
        }
        out.extend(set);
    }
    out
}

/// Calls `f` for every universe. Returns the number produced.
pub fn for_each_universe(opts: &UniverseOpts, mut f: impl FnMut(&Dag)) -> u64 {
    let mut count = 0;
    for n in opts.n_min..=opts.n_max {
        let mut shape_list: Vec<Vec<Vec<usize>>> = Vec::new();
        shapes(n, opts.allow_merges, |p| {
            if is_canonical_shape(p) {
                shape_list.push(p.to_vec());
            }
        });
        for parents in &shape_list {
            let singles: Vec<usize> = (1..n).filter(|&i| parents[i].len() == 1).collect();
            let has_merge = parents.iter().any(|p| p.len() == 2);
            // kinds
            let mut kinds_alpha: Vec<Kind> = opts.prios.iter().map(|&p| Kind::Basic(p)).collect();
            if opts.max_finalize > 0 {
                kinds_alpha.push(Kind::Finalize);
            }
            let ranks = rank_vectors(singles.len(), n <= opts.full_rank_perms_upto);
            let merge_ranks: &[MergeRank] = if has_merge { &opts.merge_ranks } else { &opts.merge_ranks[..1] };
            mcx::enumerate::sequences(kinds_alpha.len(), singles.len(), |ks| {
                let nfin = ks.iter().filter(|&&k| kinds_alpha[k] == Kind::Finalize).count();
                if nfin > opts.max_finalize {
                    return;
                }
                for rv in &ranks {
                    for &mr in merge_ranks {
                        let mut nodes = Vec::with_capacity(n);
                        let mut si = 0;
                        for i in 0..n {
                            let node = if i == 0 {
                                Node { kind: Kind::Init, parents: vec![], rank: RANK_INIT, prog: vec![Op::Append] }
                            } else if parents[i].len() == 2 {
                                Node { kind: Kind::Merge, parents: parents[i].clone(), rank: 0, prog: vec![] }
                            } else {
                                let nd = Node { kind: kinds_alpha[ks[si]], parents: parents[i].clone(), rank: rv[si], prog: vec![Op::Append] };
                                si += 1;
                                nd
                            };
                            nodes.push(node);
                        }
                        let dag = Dag { nodes, merge_rank: mr };
                        if opts.ordered_finalize_only && !finalizes_ordered(&dag) {
                            continue;
                        }
                        count += 1;
                        f(&dag);
                    }
                }
            });
        }
    }
    count
}

pub fn finalizes_ordered(dag: &Dag) -> bool {
    let anc = dag.ancestors();
    let fins: Vec<usize> = (0..dag.len()).filter(|&i| dag.nodes[i].kind == Kind::Finalize).collect();
    for (a, &x) in fins.iter().enumerate() {
        for &y in &fins[a + 1..] {
            if anc[x] >> y & 1 == 0 && anc[y] >> x & 1 == 0 {
                return false;
            }
        }
    }
    true
}
