//! Level-synchronous breadth-first exploration over operation histories.
//!
//! States are histories over non-clonable real objects: `exec(history)` rebuilds the state by
//! replaying the whole history on fresh real objects, checks the oracle for the last step and
//! returns the canonical key of the reached state.  A state is expanded once (first history in
//! deterministic frontier × operation order wins); violating transitions are reported and not
//! expanded further, so reported histories are shortest for their canonical predecessor.

use std::collections::HashSet;

use mcx::rayon::prelude::*;

pub struct BfsResult {
    pub states: u64,
    pub transitions: u64,
    pub new_per_depth: Vec<u64>,
    pub cap_hit: bool,
    /// largest depth whose frontier was expanded completely
    pub completed_depth: usize,
    pub violations: u64,
}

#[allow(dead_code)]
pub enum Event<'a, Op, Info> {
    New { hist: &'a [Op], info: &'a Info, depth: usize },
    Violation { hist: &'a [Op], text: String },
}

#[allow(clippy::too_many_arguments)]
pub fn bfs<Op, Info>(
    starts: &[Vec<Op>],
    max_depth: usize,
    deadline: &mcx::Deadline,
    exec: &(dyn Fn(&[Op]) -> Result<(u128, Info), String> + Sync),
    enabled: &(dyn Fn(&Info) -> Vec<Op> + Sync),
    sink: &mut dyn FnMut(Event<'_, Op, Info>),
) -> BfsResult
where
    Op: Clone + Send + Sync,
    Info: Send + Sync,
{
    let mut seen: HashSet<u128> = HashSet::new();
    let mut res = BfsResult { states: 0, transitions: 0, new_per_depth: vec![0], cap_hit: false, completed_depth: 0, violations: 0 };
    let mut frontier: Vec<(Vec<Op>, Info)> = Vec::new();
    let start_out: Vec<Result<(u128, Info), String>> = starts.par_iter().map(|h| exec(h)).collect();
    for (h, r) in starts.iter().zip(start_out) {
        res.transitions += 1;
        match r {
            Ok((key, info)) => {
                if seen.insert(key) {
                    res.states += 1;
                    res.new_per_depth[0] += 1;
                    sink(Event::New { hist: h, info: &info, depth: 0 });
                    frontier.push((h.clone(), info));
                }
            }
            Err(text) => {
                res.violations += 1;
                sink(Event::Violation { hist: h, text });
            }
        }
    }
    for depth in 1..=max_depth {
        if frontier.is_empty() {
            res.completed_depth = max_depth;
            break;
        }
        let mut next: Vec<(Vec<Op>, Info)> = Vec::new();
        res.new_per_depth.push(0);
        for chunk in frontier.chunks(2048) {
            if deadline.passed() {
                res.cap_hit = true;
                break;
            }
            let outs: Vec<Vec<(Vec<Op>, Result<(u128, Info), String>)>> = chunk
                .par_iter()
                .map(|(hist, info)| {
                    enabled(info)
                        .into_iter()
                        .map(|op| {
                            let mut h = Vec::with_capacity(hist.len() + 1);
                            h.extend_from_slice(hist);
                            h.push(op);
                            let r = exec(&h);
                            (h, r)
                        })
                        .collect()
                })
                .collect();
            for per_state in outs {
                for (h, r) in per_state {
                    res.transitions += 1;
                    match r {
                        Ok((key, info)) => {
                            if seen.insert(key) {
                                res.states += 1;
                                res.new_per_depth[depth] += 1;
                                sink(Event::New { hist: &h, info: &info, depth });
                                next.push((h, info));
                            }
                        }
                        Err(text) => {
                            res.violations += 1;
                            sink(Event::Violation { hist: &h, text });
                        }
                    }
                }
            }
        }
        if res.cap_hit {
            break;
        }
        res.completed_depth = depth;
        frontier = next;
    }
    res
}
