//! In-process syscall interposition for C15.
//!
//! The binary itself defines `pwrite64`, `fdatasync`, `fsync` and `fallocate64`; the dynamic
//! linker resolves aranya-libc's calls (`libc::pwrite64` …) to these definitions, which forward
//! with a raw `syscall` and — while recording is switched on, and only for descriptors that point
//! below the recording directory — log `(op, offset, bytes)`.

use std::{
    ffi::c_void,
    path::PathBuf,
    sync::{
        atomic::{AtomicBool, AtomicU64, Ordering},
        Mutex,
    },
};

#[derive(Clone, Debug, PartialEq, Eq)]
pub enum Rec {
    Write { off: u64, data: Vec<u8> },
    /// the file is at least `end` bytes long afterwards
    Falloc { end: u64 },
    /// a completed fsync / fdatasync
    Sync,
    /// harness marker: commit `k` returned to the caller
    Marker(usize),
}

static RECORDING: AtomicBool = AtomicBool::new(false);
static LOG: Mutex<Vec<Rec>> = Mutex::new(Vec::new());
static DIR: Mutex<Option<PathBuf>> = Mutex::new(None);
pub static SEEN_PWRITE: AtomicU64 = AtomicU64::new(0);
pub static SEEN_FDATASYNC: AtomicU64 = AtomicU64::new(0);
pub static SEEN_FSYNC: AtomicU64 = AtomicU64::new(0);
pub static SEEN_FALLOCATE: AtomicU64 = AtomicU64::new(0);

thread_local! {
    /// In the checking phase preallocation is forwarded as a size extension (same content:
    /// zeros), so that reopening tens of thousands of images does not touch 4 MiB of pages each.
    static CHEAP_FALLOC: std::cell::Cell<bool> = const { std::cell::Cell::new(false) };
}

/// Intercepted calls, for error-return injection.
#[derive(Clone, Copy, Debug, PartialEq, Eq)]
pub enum Sys {
    Pwrite = 0,
    Fdatasync = 1,
    Fsync = 2,
    Fallocate = 3,
}

thread_local! {
    static ARMED: std::cell::Cell<bool> = const { std::cell::Cell::new(false) };
    static COUNTS: std::cell::Cell<[u64; 4]> = const { std::cell::Cell::new([0; 4]) };
    static FAULT: std::cell::Cell<Option<(Sys, u64, i32)>> = const { std::cell::Cell::new(None) };
    static FIRED: std::cell::Cell<bool> = const { std::cell::Cell::new(false) };
}

/// Start counting this thread's intercepted calls; `fault = (call, index, errno)` makes the
/// index-th call of that kind (counted from arming) return -1 with that errno, once.
pub fn arm(fault: Option<(Sys, u64, i32)>) {
    COUNTS.with(|c| c.set([0; 4]));
    FAULT.with(|c| c.set(fault));
    FIRED.with(|c| c.set(false));
    ARMED.with(|c| c.set(true));
}

pub fn fired() -> bool {
    FIRED.with(|c| c.get())
}

/// Per-call counts since arming.
pub fn counts() -> [u64; 4] {
    COUNTS.with(|c| c.get())
}

/// Stop counting; returns the per-call counts since arming and whether the fault fired.
pub fn disarm() -> ([u64; 4], bool) {
    ARMED.with(|c| c.set(false));
    FAULT.with(|c| c.set(None));
    (COUNTS.with(|c| c.get()), FIRED.with(|c| c.get()))
}

fn inject(sys: Sys) -> bool {
    if !ARMED.with(|c| c.get()) {
        return false;
    }
    let mut counts = COUNTS.with(|c| c.get());
    let idx = counts[sys as usize];
    counts[sys as usize] += 1;
    COUNTS.with(|c| c.set(counts));
    if let Some((s, i, errno)) = FAULT.with(|c| c.get()) {
        if s == sys && i == idx && !FIRED.with(|c| c.get()) {
            FIRED.with(|c| c.set(true));
            unsafe { *libc::__errno_location() = errno };
            return true;
        }
    }
    false
}

pub fn set_cheap_falloc(on: bool) {
    CHEAP_FALLOC.with(|c| c.set(on));
}

pub fn start(dir: &std::path::Path) {
    *DIR.lock().unwrap() = Some(dir.to_path_buf());
    LOG.lock().unwrap().clear();
    RECORDING.store(true, Ordering::SeqCst);
}

pub fn marker(k: usize) {
    LOG.lock().unwrap().push(Rec::Marker(k));
}

pub fn stop() -> Vec<Rec> {
    RECORDING.store(false, Ordering::SeqCst);
    std::mem::take(&mut *LOG.lock().unwrap())
}

fn ours(fd: i32) -> bool {
    if !RECORDING.load(Ordering::SeqCst) {
        return false;
    }
    let Ok(target) = std::fs::read_link(format!("/proc/self/fd/{fd}")) else { return false };
    DIR.lock().unwrap().as_ref().is_some_and(|d| target.starts_with(d))
}

/// # Safety
/// Same contract as pwrite64(2).
#[unsafe(no_mangle)]
pub unsafe extern "C" fn pwrite64(fd: i32, buf: *const c_void, count: usize, offset: i64) -> isize {
    SEEN_PWRITE.fetch_add(1, Ordering::Relaxed);
    if inject(Sys::Pwrite) {
        return -1;
    }
    let r = unsafe { libc::syscall(libc::SYS_pwrite64, fd, buf, count, offset) } as isize;
    if r > 0 && ours(fd) {
        let data = unsafe { std::slice::from_raw_parts(buf as *const u8, r as usize) }.to_vec();
        LOG.lock().unwrap().push(Rec::Write { off: offset as u64, data });
    }
    r
}

/// # Safety
/// Same contract as fdatasync(2).
#[unsafe(no_mangle)]
pub unsafe extern "C" fn fdatasync(fd: i32) -> i32 {
    SEEN_FDATASYNC.fetch_add(1, Ordering::Relaxed);
    if inject(Sys::Fdatasync) {
        return -1;
    }
    let r = unsafe { libc::syscall(libc::SYS_fdatasync, fd) } as i32;
    if r == 0 && ours(fd) {
        LOG.lock().unwrap().push(Rec::Sync);
    }
    r
}

/// # Safety
/// Same contract as fsync(2).
#[unsafe(no_mangle)]
pub unsafe extern "C" fn fsync(fd: i32) -> i32 {
    SEEN_FSYNC.fetch_add(1, Ordering::Relaxed);
    if inject(Sys::Fsync) {
        return -1;
    }
    let r = unsafe { libc::syscall(libc::SYS_fsync, fd) } as i32;
    if r == 0 && ours(fd) {
        LOG.lock().unwrap().push(Rec::Sync);
    }
    r
}

/// # Safety
/// Same contract as fallocate(2).
#[unsafe(no_mangle)]
pub unsafe extern "C" fn fallocate64(fd: i32, mode: i32, offset: i64, len: i64) -> i32 {
    SEEN_FALLOCATE.fetch_add(1, Ordering::Relaxed);
    if inject(Sys::Fallocate) {
        return -1;
    }
    if mode == 0 && CHEAP_FALLOC.with(|c| c.get()) {
        // extend the file size without allocating pages (reads give zeros either way)
        let mut st: libc::stat = unsafe { std::mem::zeroed() };
        if unsafe { libc::fstat(fd, &mut st) } != 0 {
            return -1;
        }
        let want = offset.saturating_add(len);
        if st.st_size < want {
            return unsafe { libc::syscall(libc::SYS_ftruncate, fd, want) } as i32;
        }
        return 0;
    }
    let r = unsafe { libc::syscall(libc::SYS_fallocate, fd, mode, offset, len) } as i32;
    if r == 0 && mode == 0 && ours(fd) {
        LOG.lock().unwrap().push(Rec::Falloc { end: (offset + len) as u64 });
    }
    r
}
