//! rt-store: C11, C12, C13, C15, C21 — the real storage code of aranya-runtime
//! (storage/mod.rs, storage/linear/mod.rs, storage/linear/libc/imp.rs, storage/linear/testing.rs).
mod bfs;
mod interpose;
mod policy;
mod props;
mod store;

fn main() {
    let args = mcx::parse_args();
    match args.prop.as_str() {
        "C21" => props::c21::run(&args),
        "C12" => props::c12::run(&args),
        "C13" => props::c13::run(&args),
        "C11" => props::c11::run(&args),
        "C15" => props::c15::run(&args),
        // parts of properties whose main check lives in another crate (driver: "also")
        "C07" => props::errfam::run_part(&args, props::errfam::Mode::C07),
        "C08" => props::errfam::run_part(&args, props::errfam::Mode::C08),
        p => mcx::machinery_error(&format!("rt-store does not serve {p}")),
    }
}
