//! A scripted `Policy` / `PolicyStore` written against the runtime's public traits (the runtime
//! is generic over them, as its own `SeqPolicy` tests are).  A command's payload is a tiny
//! program over the fact API; actions are lists of such programs.  Used to drive the real
//! `ClientState` (transactions, commits, actions, sessions) from outside the crate.

use aranya_runtime::{
    ActionPlacement, Address, Bytes, CmdId, Command, CommandPlacement, FactPerspective, Keys, MergeIds, Perspective, Policy, PolicyError, PolicyId,
    PolicyStore, Prior, Priority, Sink,
};
use serde::{Deserialize, Serialize};

use crate::store::{TestCmd, K};

const MARK: u8 = 0xFE;

#[derive(Clone, Debug, PartialEq, Eq, Serialize, Deserialize)]
pub enum Wop {
    Ins(String, K, Vec<u8>),
    Del(String, K),
    /// clean rejection at this point of the rule (writes before it were made)
    Reject,
    /// emit the rule's view of the facts under `name` (prefix query with the empty prefix, and an
    /// exact query per listed key) as one effect string
    Observe(String, Vec<K>),
}

pub fn encode(ops: &[Wop]) -> Vec<u8> {
    let mut v = vec![MARK];
    v.extend(postcard::to_allocvec(&ops.to_vec()).expect("encode ops"));
    v
}

fn decode(data: &[u8]) -> Vec<Wop> {
    match data.split_first() {
        Some((&MARK, rest)) => postcard::from_bytes(rest).unwrap_or_default(),
        _ => Vec::new(),
    }
}

fn keys_of(k: &K) -> Keys {
    k.iter().map(|p| Bytes::from(p.as_slice())).collect()
}

fn run_ops(ops: &[Wop], facts: &mut impl FactPerspective, sink: &mut impl Sink<String>) -> Result<(), PolicyError> {
    for op in ops {
        match op {
            Wop::Ins(n, k, v) => facts.insert(n.clone(), keys_of(k), v.clone().into_boxed_slice()).map_err(|_| PolicyError::Write)?,
            Wop::Del(n, k) => facts.delete(n.clone(), keys_of(k)).map_err(|_| PolicyError::Write)?,
            Wop::Reject => return Err(PolicyError::Rejected),
            Wop::Observe(n, keys) => {
                let mut s = format!("{n}:");
                let it = facts.query_prefix(n, &[]).map_err(|_| PolicyError::Read)?;
                for f in it {
                    let f = f.map_err(|_| PolicyError::Read)?;
                    let key: Vec<String> = f.key.iter().map(|p| String::from_utf8_lossy(p).to_string()).collect();
                    s.push_str(&format!(" {key:?}={}", String::from_utf8_lossy(&f.value)));
                }
                s.push_str(" |");
                for k in keys {
                    let kb: Vec<Bytes> = k.iter().map(|p| Bytes::from(p.as_slice())).collect();
                    let v = facts.query(n, &kb).map_err(|_| PolicyError::Read)?;
                    s.push_str(&format!(" {:?}", v.as_deref().map(|b| String::from_utf8_lossy(b).to_string())));
                }
                sink.consume(s);
            }
        }
    }
    Ok(())
}

pub struct ScriptPolicy;
pub struct ScriptStore;

impl PolicyStore for ScriptStore {
    type Policy = ScriptPolicy;
    type Effect = String;
    fn add_policy(&mut self, _policy: &[u8]) -> Result<PolicyId, PolicyError> {
        Ok(PolicyId::new(0))
    }
    fn get_policy(&self, _id: PolicyId) -> Result<&ScriptPolicy, PolicyError> {
        Ok(&ScriptPolicy)
    }
}

/// One action = commands to publish in order; each is a program.  `tag`/`seq` make ids unique.
pub struct Action {
    pub tag: u8,
    pub seq: u64,
    pub cmds: Vec<Vec<Wop>>,
}

pub fn derived_id(tag: u8, seq: u64, i: usize, parent: &Prior<Address>) -> CmdId {
    let mut b = [0u8; 32];
    b[0] = tag;
    b[1] = 0xAC;
    b[2] = i as u8;
    b[8..16].copy_from_slice(&seq.to_be_bytes());
    let pid = match parent {
        Prior::None => [0u8; 32],
        Prior::Single(a) => *a.id.as_array(),
        Prior::Merge(a, c) => {
            let mut x = *a.id.as_array();
            for (d, s) in x.iter_mut().zip(c.id.as_array()) {
                *d ^= s.rotate_left(3);
            }
            x
        }
    };
    let h = mcx::fnv64(&pid);
    b[16..24].copy_from_slice(&h.to_be_bytes());
    CmdId::from_bytes(b)
}

impl Policy for ScriptPolicy {
    type Action<'a> = &'a Action;
    type Effect = String;
    type Command<'a> = TestCmd;

    fn serial(&self) -> u32 {
        0
    }

    fn call_rule(&self, command: &impl Command, facts: &mut impl FactPerspective, sink: &mut impl Sink<String>, _placement: CommandPlacement) -> Result<(), PolicyError> {
        if matches!(command.parent(), Prior::Merge(..)) {
            // the runtime never evaluates merge commands
            return Err(PolicyError::InternalError);
        }
        run_ops(&decode(command.bytes()), facts, sink)
    }

    fn call_action(&self, action: &Action, facts: &mut impl Perspective, sink: &mut impl Sink<String>, _placement: ActionPlacement) -> Result<(), PolicyError> {
        for (i, ops) in action.cmds.iter().enumerate() {
            let parent = facts.head_address()?;
            let prio = if matches!(parent, Prior::None) { Priority::Init } else { Priority::Basic(0) };
            let cmd = TestCmd { id: derived_id(action.tag, action.seq, i, &parent), parent, prio, data: encode(ops) };
            run_ops(ops, facts, sink)?;
            facts.add_command(&cmd).map_err(|_| PolicyError::Write)?;
        }
        Ok(())
    }

    fn merge<'a>(&self, _target: &'a mut [u8], ids: MergeIds) -> Result<TestCmd, PolicyError> {
        let (left, right): (Address, Address) = ids.into();
        let parent = Prior::Merge(left, right);
        Ok(TestCmd { id: derived_id(0x4D, 0, 0, &parent), parent, prio: Priority::Merge, data: Vec::new() })
    }
}

/// Transactional effect collector.
#[derive(Default)]
pub struct VecSink {
    pub pending: Vec<String>,
    pub committed: Vec<String>,
    pub rollbacks: u64,
}

impl Sink<String> for VecSink {
    fn begin(&mut self) {}
    fn consume(&mut self, e: String) {
        self.pending.push(e);
    }
    fn rollback(&mut self) {
        self.pending.clear();
        self.rollbacks += 1;
    }
    fn commit(&mut self) {
        self.committed.append(&mut self.pending);
    }
}

/// Transactional collector of serialized session commands.
#[derive(Default)]
pub struct MsgSink {
    pub pending: Vec<Vec<u8>>,
    pub committed: Vec<Vec<u8>>,
}

impl<'b> Sink<&'b [u8]> for MsgSink {
    fn begin(&mut self) {}
    fn consume(&mut self, e: &'b [u8]) {
        self.pending.push(e.to_vec());
    }
    fn rollback(&mut self) {
        self.pending.clear();
    }
    fn commit(&mut self) {
        self.committed.append(&mut self.pending);
    }
}
