//! C11 — command lookup and ancestry queries are exact.
//!
//! Subject: `Storage::get_location`, `get_location_from`, `is_ancestor` and `search_queued`
//! (storage/mod.rs) over segments and skip lists built by the real `LinearStorage::write` /
//! `build_skip_list` / `walk_collecting_skips` / `has_nearby_rich_anchor` (storage/linear/mod.rs).
//!
//! Graphs are committed through the real `ClientState` (transactions, `add_commands`, `commit`)
//! with a scripted no-op policy, so segments are cut, merge perspectives get their last common
//! ancestor and head sets are committed exactly as the runtime does it.  Segment shape is chosen
//! by the commit points (a chain delivered in one transaction becomes one segment) and is part of
//! the canonical key of a graph (the walked segment layout: commands per segment, priors, skip
//! lists).
//!
//! Space:
//!  * chains of every length 1..=N (quick 24, thorough 48; the skip machinery starts at max cut 10
//!    and builds multi-entry lists past 20) × segment sizes {1,2,3,7,mixed} ×
//!    {plain chain; one side branch of length 1 or 2 forking at EVERY position and left as a
//!    second head; one diamond (fork b, side branch, merge command at j) for EVERY pair b<j;
//!    two diamonds / nested diamonds with fork and join positions from the depth classes
//!    {0,1,n/4,n/2-1,n/2,n/2+1,3n/4,n-2,n-1}};
//!  * all creation-ordered DAGs with n ≤ 6 commands (single parent = any earlier command, merge =
//!    two incomparable earlier commands) × every subset of commit points.
//! on `MemStorageProvider` (all) and `LinearStorageProvider<FileManager>` (a sub-family).
//!
//! Oracle (reference = reachability on the harness's own parent map): for EVERY committed command
//! x: `get_location(address(x))` is `Some(l)` and the segment at `l` holds x at `l`; for EVERY
//! ordered pair (x,y): `is_ancestor(loc x, loc y)` ⇔ x is a proper ancestor of y;
//! `get_location_from(loc y, address(x))` finds x (at its location) exactly when x is an
//! ancestor-or-self of y; absent addresses (right id / wrong max cut ±1, unknown id / right
//! max cut, flushed-but-uncommitted command) are not found.
//!
//! Multi-command init segments: graphs created from an init perspective holding 2..4 commands
//! (through `ClientState::new_graph` with a multi-publish action, and through new_perspective +
//! add_command + new_storage) × every DAG extension by ≤ 2 (thorough 3) commands × commit-point
//! subsets, with the full oracle (plus `get_head_address` and the head set's max cuts) right
//! after creation and after every further commit.
//!
//! Fault family: the same delivery on the harness's capturing in-memory `IoManager`, with the
//! k-th backend `Write::commit` failing once with an I/O error, for every k ≥ 1 (k = 0 is the
//! graph creation) over all DAGs n ≤ 5 (thorough 6) × commit-point subsets.  On the SAME storage
//! handle the clauses must then hold for the last successful commit: `get_heads` is its frontier,
//! `heads_offset` did not move, its commands are found, the commands written for the failed
//! commit are not found (from the heads / from each head), ancestry is unchanged; the batch is
//! then offered again and the following commits must behave normally.

use std::{
    collections::BTreeSet,
    sync::atomic::{AtomicU64, Ordering::Relaxed},
};

use aranya_runtime::{
    storage::linear::{libc::FileManager, testing::MemStorageProvider, LinearStorageProvider},
    Address, ClientState, CmdId, Command, GraphId, Location, MaxCut, MemSpill, Perspective, PolicyId, Prior, Priority, RuntimeBuffers, Segment, Storage, StorageProvider, TraversalBuffer,
};
use mcx::{json, rayon::prelude::*, Args, Level, Report, Value};

use crate::{
    policy::{derived_id, Action, ScriptStore, VecSink},
    store::{cmd_id, hash128, CapIo, TestCmd},
};

#[derive(Clone, Debug, PartialEq, Eq, PartialOrd, Ord)]
pub struct Graph {
    /// parents[i] ⊂ 0..i ; node 0 is the init command
    pub parents: Vec<Vec<usize>>,
    /// commit after delivering node i
    pub commit_after: Vec<bool>,
    pub label: String,
    /// number of commands in the init perspective the graph is created from (nodes 0..init_len
    /// form a chain); 1 for every family delivered through transactions only
    pub init_len: usize,
    /// created through `ClientState::new_graph` with a multi-publish action (ids are then the
    /// scripted policy's derived ids) instead of new_perspective + add_command + new_storage
    pub via_new_graph: bool,
}

impl Graph {
    fn n(&self) -> usize {
        self.parents.len()
    }
    fn max_cuts(&self) -> Vec<u64> {
        let mut mc = vec![0u64; self.n()];
        for i in 1..self.n() {
            mc[i] = self.parents[i].iter().map(|&p| mc[p]).max().unwrap() + 1;
        }
        mc
    }
    /// proper-ancestor sets as bit masks
    fn ancestors(&self) -> Vec<u128> {
        let mut a = vec![0u128; self.n()];
        for i in 1..self.n() {
            for &p in &self.parents[i] {
                a[i] |= a[p] | (1u128 << p);
            }
        }
        a
    }
    fn id(&self, i: usize) -> CmdId {
        if self.via_new_graph && i < self.init_len {
            // the ids the scripted policy gives to the commands an action publishes
            let mut parent = Prior::None;
            let mut id = derived_id(0x30, 0, 0, &parent);
            for j in 1..=i {
                parent = Prior::Single(Address { id, max_cut: MaxCut::new(j as u64 - 1) });
                id = derived_id(0x30, 0, j, &parent);
            }
            return id;
        }
        cmd_id(3, i as u64)
    }
    fn cmd(&self, i: usize, mc: &[u64]) -> TestCmd {
        let addr = |p: usize| Address { id: self.id(p), max_cut: MaxCut::new(mc[p]) };
        let (parent, prio) = match self.parents[i].as_slice() {
            [] => (Prior::None, Priority::Init),
            [p] => (Prior::Single(addr(*p)), Priority::Basic(0)),
            [p, q] => {
                let (a, b) = (addr(*p), addr(*q));
                (if a.id < b.id { Prior::Merge(a, b) } else { Prior::Merge(b, a) }, Priority::Merge)
            }
            _ => unreachable!(),
        };
        TestCmd { id: self.id(i), parent, prio, data: Vec::new() }
    }
    fn replay_json(&self) -> Value {
        json!({"label": self.label, "parents": self.parents, "commit_after": self.commit_after, "init_len": self.init_len, "via_new_graph": self.via_new_graph})
    }
}

#[derive(Default)]
struct Stats {
    graphs: AtomicU64,
    commands: AtomicU64,
    lookups: AtomicU64,
    ancestry: AtomicU64,
    ancestry_true: AtomicU64,
    lookups_from: AtomicU64,
    from_found_non_ancestor: AtomicU64,
    absent: AtomicU64,
    uncommitted_probe: AtomicU64,
    segments: AtomicU64,
    seg_with_skips: AtomicU64,
    seg_rich_skips: AtomicU64,
    merge_segments: AtomicU64,
    merge_lca_far: AtomicU64,
    multi_head_graphs: AtomicU64,
    max_skip_len: AtomicU64,
    fault_runs: AtomicU64,
    fault_fired: AtomicU64,
    fault_uncommitted_probes: AtomicU64,
    fault_multi_head_failed: AtomicU64,
    multi_init_graphs: AtomicU64,
    multi_init_stages: AtomicU64,
}

thread_local! {
    static BUFS_CAP: std::cell::RefCell<Option<Box<RuntimeBuffers<<LinearStorageProvider<CapIo> as StorageProvider>::Segment>>>> = const { std::cell::RefCell::new(None) };
    static BUFS_MEM: std::cell::RefCell<Option<Box<RuntimeBuffers<<MemStorageProvider as StorageProvider>::Segment>>>> = const { std::cell::RefCell::new(None) };
    static BUFS_FILE: std::cell::RefCell<Option<Box<RuntimeBuffers<<LinearStorageProvider<FileManager> as StorageProvider>::Segment>>>> = const { std::cell::RefCell::new(None) };
}

/// Build `g` through the real client, then ask every question.  Returns the layout signature.
fn check_graph<SP: StorageProvider>(sp: SP, bufs: &mut RuntimeBuffers<SP::Segment>, g: &Graph, st: &Stats, tag: &str) -> Result<u128, String> {
    let n = g.n();
    let mc = g.max_cuts();
    let anc = g.ancestors();
    let mut client = ClientState::new(ScriptStore, sp);
    let gid = GraphId::transmute(g.id(0));
    let mut sink = VecSink::default();
    let mut trx = client.transaction(gid);
    for i in 0..n {
        let cmd = g.cmd(i, &mc);
        let added = client.add_commands(&mut trx, &mut sink, &[cmd], bufs, MemSpill::new).map_err(|e| format!("[{tag}] add_commands(command {i}) failed: {e:?}"))?;
        if added != 1 {
            return Err(format!("[{tag}] add_commands(command {i}) added {added} commands (a new command was taken for a stored one?)"));
        }
        if g.commit_after[i] || i + 1 == n {
            client.commit(trx, &mut sink, bufs, MemSpill::new).map_err(|e| format!("[{tag}] commit after command {i} failed: {e:?}"))?;
            trx = client.transaction(gid);
        }
    }
    st.graphs.fetch_add(1, Relaxed);
    st.commands.fetch_add(n as u64, Relaxed);

    // a flushed but uncommitted command on top of command n-1 must stay invisible
    let extra = TestCmd { id: cmd_id(4, 1), parent: Prior::Single(Address { id: g.id(n - 1), max_cut: MaxCut::new(mc[n - 1]) }), prio: Priority::Basic(0), data: Vec::new() };
    let extra_addr = Address { id: extra.id, max_cut: MaxCut::new(mc[n - 1] + 1) };
    client.add_commands(&mut trx, &mut sink, &[extra], bufs, MemSpill::new).map_err(|e| format!("[{tag}] add_commands(uncommitted probe) failed: {e:?}"))?;
    {
        let storage = client.provider().get_storage(gid).map_err(|e| format!("[{tag}] get_storage: {e:?}"))?;
        trx.flush(storage).map_err(|e| format!("[{tag}] flush: {e:?}"))?;
    }
    let storage = client.provider().get_storage(gid).map_err(|e| format!("[{tag}] get_storage: {e:?}"))?;
    let mut buf = TraversalBuffer::new();

    // reference head set
    let mut is_parent = vec![false; n];
    for i in 0..n {
        for &p in &g.parents[i] {
            is_parent[p] = true;
        }
    }
    let want_heads: BTreeSet<CmdId> = (0..n).filter(|&i| !is_parent[i]).map(|i| g.id(i)).collect();
    let got_heads: BTreeSet<CmdId> = storage.get_heads().map_err(|e| format!("[{tag}] get_heads: {e:?}"))?.iter().map(|h| h.id).collect();
    if want_heads != got_heads {
        return Err(format!("[{tag}] committed head set {got_heads:?} is not the frontier {want_heads:?}"));
    }
    if want_heads.len() > 1 {
        st.multi_head_graphs.fetch_add(1, Relaxed);
    }

    // lookups
    let mut loc: Vec<Location> = Vec::with_capacity(n);
    for x in 0..n {
        let addr = Address { id: g.id(x), max_cut: MaxCut::new(mc[x]) };
        st.lookups.fetch_add(1, Relaxed);
        let l = storage
            .get_location(addr, &mut buf)
            .map_err(|e| format!("[{tag}] get_location(command {x}) failed: {e:?}"))?
            .ok_or_else(|| format!("[{tag}] get_location(command {x}, max cut {}) = None although the command is committed", mc[x]))?;
        let seg = storage.get_segment(l).map_err(|e| format!("[{tag}] get_segment({l}) failed: {e:?}"))?;
        let c = seg.get_command(l).ok_or_else(|| format!("[{tag}] get_location(command {x}) = {l}, which holds no command"))?;
        if c.id() != g.id(x) || l.max_cut.get() != mc[x] {
            return Err(format!("[{tag}] get_location(command {x}) = {l}, which holds another command"));
        }
        if c.parent() != g.cmd(x, &mc).parent {
            return Err(format!("[{tag}] stored command {x} has parent {:?}", c.parent()));
        }
        loc.push(l);
        // absent addresses
        for wrong_mc in [mc[x].wrapping_sub(1), mc[x] + 1] {
            if wrong_mc == u64::MAX {
                continue;
            }
            st.absent.fetch_add(1, Relaxed);
            let bad = Address { id: g.id(x), max_cut: MaxCut::new(wrong_mc) };
            if let Some(l) = storage.get_location(bad, &mut buf).map_err(|e| format!("[{tag}] get_location(absent) failed: {e:?}"))? {
                return Err(format!("[{tag}] get_location(id of command {x}, wrong max cut {wrong_mc}) = Some({l})"));
            }
        }
        st.absent.fetch_add(1, Relaxed);
        let bad = Address { id: cmd_id(5, x as u64), max_cut: MaxCut::new(mc[x]) };
        if let Some(l) = storage.get_location(bad, &mut buf).map_err(|e| format!("[{tag}] get_location(absent) failed: {e:?}"))? {
            return Err(format!("[{tag}] get_location(unknown id, max cut of command {x}) = Some({l})"));
        }
    }
    st.uncommitted_probe.fetch_add(1, Relaxed);
    if let Some(l) = storage.get_location(extra_addr, &mut buf).map_err(|e| format!("[{tag}] get_location(uncommitted) failed: {e:?}"))? {
        return Err(format!("[{tag}] get_location finds the flushed but uncommitted command at {l}"));
    }

    // ancestry, every ordered pair
    for x in 0..n {
        for y in 0..n {
            let want = anc[y] & (1u128 << x) != 0;
            st.ancestry.fetch_add(1, Relaxed);
            let got = storage.is_ancestor(loc[x], loc[y], &mut buf).map_err(|e| format!("[{tag}] is_ancestor({x},{y}) failed: {e:?}"))?;
            if got != want {
                return Err(format!("[{tag}] is_ancestor(command {x} at {}, command {y} at {}) = {got}, reachability says {want}", loc[x], loc[y]));
            }
            if want {
                st.ancestry_true.fetch_add(1, Relaxed);
            }
            st.lookups_from.fetch_add(1, Relaxed);
            let addr = Address { id: g.id(x), max_cut: MaxCut::new(mc[x]) };
            let got = storage.get_location_from(loc[y], addr, &mut buf).map_err(|e| format!("[{tag}] get_location_from({y},{x}) failed: {e:?}"))?;
            match got {
                Some(l) => {
                    if l != loc[x] {
                        return Err(format!("[{tag}] get_location_from(command {y}, address of command {x}) = {l}, the command is at {}", loc[x]));
                    }
                    if !(want || x == y) {
                        st.from_found_non_ancestor.fetch_add(1, Relaxed);
                        return Err(format!("[{tag}] get_location_from(command {y} at {}, address of command {x}) = Some({l}) although command {x} is not an ancestor-or-self of command {y}", loc[y]));
                    }
                }
                None => {
                    if want || x == y {
                        return Err(format!("[{tag}] get_location_from(command {y} at {}, address of command {x}) = None although it is an ancestor-or-self", loc[y]));
                    }
                }
            }
        }
    }

    // layout signature (segment shape is part of the canonical key) + structure counters
    let mut seen: BTreeSet<u64> = BTreeSet::new();
    let mut sig: Vec<String> = Vec::new();
    let mut stack: Vec<Location> = storage.get_heads().map_err(|e| format!("{e:?}"))?.iter().map(|h| h.location()).collect();
    let id_at = |l: Location| -> Result<usize, String> {
        let seg = storage.get_segment(l).map_err(|e| format!("[{tag}] get_segment: {e:?}"))?;
        let c = seg.get_command(l).ok_or_else(|| format!("[{tag}] location {l} (prior / skip entry) holds no command"))?;
        (0..n).find(|&i| g.id(i) == c.id()).ok_or_else(|| format!("[{tag}] location {l} holds an unknown command"))
    };
    while let Some(l) = stack.pop() {
        if !seen.insert(l.segment.get()) {
            continue;
        }
        let seg = storage.get_segment(l).map_err(|e| format!("[{tag}] get_segment: {e:?}"))?;
        let first = seg.first_location();
        let last = seg.head_location().map_err(|e| format!("{e:?}"))?;
        let first_i = id_at(first)?;
        let last_i = id_at(last)?;
        let mut priors = Vec::new();
        for p in seg.prior() {
            priors.push(id_at(p)?);
            stack.push(p);
        }
        let mut skips = Vec::new();
        for s in seg.skip_list() {
            let si = id_at(*s)?;
            // a skip entry must be a proper ancestor of the segment's first command
            if anc[first_i] & (1u128 << si) == 0 {
                return Err(format!("[{tag}] skip list of the segment starting at command {first_i} contains command {si}, which is not one of its ancestors"));
            }
            skips.push(si);
        }
        st.segments.fetch_add(1, Relaxed);
        if !skips.is_empty() {
            st.seg_with_skips.fetch_add(1, Relaxed);
        }
        if skips.len() > 1 {
            st.seg_rich_skips.fetch_add(1, Relaxed);
        }
        st.max_skip_len.fetch_max(skips.len() as u64, Relaxed);
        if priors.len() == 2 {
            st.merge_segments.fetch_add(1, Relaxed);
            if let Some(&lca) = skips.last() {
                if mc[first_i] - mc[lca] >= 10 {
                    st.merge_lca_far.fetch_add(1, Relaxed);
                }
            }
        }
        sig.push(format!("{first_i}-{last_i} p{priors:?} s{skips:?}"));
    }
    sig.sort();
    Ok(hash128(&format!("{:?}|{sig:?}", g.parents)))
}

fn run_graph(g: &Graph, st: &Stats, with_file: bool, scratch: &std::path::Path) -> Result<u128, String> {
    let r = mcx::catch(|| -> Result<u128, String> {
        let sig = BUFS_MEM.with(|b| {
            let mut b = b.borrow_mut();
            let bufs = b.get_or_insert_with(|| Box::new(RuntimeBuffers::new()));
            check_graph(MemStorageProvider::default(), bufs, g, st, "mem")
        })?;
        if with_file {
            let dir = scratch.join(format!("t{}", mcx::rayon::current_thread_index().map(|i| i as i64).unwrap_or(-1)));
            let _ = std::fs::remove_dir_all(&dir);
            std::fs::create_dir_all(&dir).map_err(|e| format!("scratch: {e}"))?;
            let fm = FileManager::new(dir.as_path()).map_err(|e| format!("FileManager::new: {e:?}"))?;
            let sig2 = BUFS_FILE.with(|b| {
                let mut b = b.borrow_mut();
                let bufs = b.get_or_insert_with(|| Box::new(RuntimeBuffers::new()));
                check_graph(LinearStorageProvider::new(fm), bufs, g, st, "file")
            });
            let _ = std::fs::remove_dir_all(&dir);
            if sig2? != sig {
                return Err("the file-backed graph has a different segment layout than the in-memory one".into());
            }
        }
        Ok(sig)
    });
    match r {
        Ok(r) => r,
        Err(p) => Err(format!("panic: {p} at {}", mcx::last_panic_location())),
    }
}


// ---------------------------------------------------------------------------------------------
// fault family: a backend commit that fails

/// The C11 clauses for the committed set `in_s` (a down-closed set of nodes of `g`): the head set
/// is its frontier, every member is found (at a location holding it), every non-member that was
/// already delivered (`written`) is NOT found from the heads, ancestry among members is exact.
fn verify_subset<S: Storage>(storage: &S, g: &Graph, mc: &[u64], anc: &[u128], in_s: &[bool], written: &[bool], st: &Stats, tag: &str) -> Result<(), String> {
    let n = g.n();
    let mut buf = TraversalBuffer::new();
    let mut is_parent = vec![false; n];
    for i in (0..n).filter(|&i| in_s[i]) {
        for &p in &g.parents[i] {
            is_parent[p] = true;
        }
    }
    let want_heads: BTreeSet<CmdId> = (0..n).filter(|&i| in_s[i] && !is_parent[i]).map(|i| g.id(i)).collect();
    let heads = storage.get_heads().map_err(|e| format!("[{tag}] get_heads: {e:?}"))?.clone();
    let got_heads: BTreeSet<CmdId> = heads.iter().map(|h| h.id).collect();
    if want_heads != got_heads {
        return Err(format!("[{tag}] get_heads() = {:?} but the frontier of the last successful commit is {:?}", got_heads.iter().map(|i| (0..n).find(|&x| g.id(x) == *i)).collect::<Vec<_>>(), want_heads.iter().map(|i| (0..n).find(|&x| g.id(x) == *i)).collect::<Vec<_>>()));
    }
    let addr = |x: usize| Address { id: g.id(x), max_cut: MaxCut::new(mc[x]) };
    for h in heads.iter() {
        let x = (0..n).find(|&x| g.id(x) == h.id).unwrap();
        if h.max_cut.get() != mc[x] {
            return Err(format!("[{tag}] the committed head set locates head command {x} at max cut {}, its max cut is {}", h.max_cut, mc[x]));
        }
    }
    if want_heads.len() == 1 {
        let x = (0..n).find(|&x| want_heads.contains(&g.id(x))).unwrap();
        let got = storage.get_head_address().map_err(|e| format!("[{tag}] get_head_address: {e:?}"))?;
        if got != addr(x) {
            return Err(format!("[{tag}] get_head_address() = (max cut {}) but the sole head is command {x} at max cut {}", got.max_cut, mc[x]));
        }
    }
    let mut loc: Vec<Option<Location>> = vec![None; n];
    for x in 0..n {
        st.lookups.fetch_add(1, Relaxed);
        let got = storage.get_location(addr(x), &mut buf).map_err(|e| format!("[{tag}] get_location(command {x}) failed: {e:?}"))?;
        if in_s[x] {
            let l = got.ok_or_else(|| format!("[{tag}] get_location(command {x}) = None although it is in the last successful commit"))?;
            let seg = storage.get_segment(l).map_err(|e| format!("[{tag}] get_segment({l}) failed: {e:?}"))?;
            let c = seg.get_command(l).ok_or_else(|| format!("[{tag}] get_location(command {x}) = {l}, which holds no command"))?;
            if c.id() != g.id(x) {
                return Err(format!("[{tag}] get_location(command {x}) = {l}, which holds another command"));
            }
            loc[x] = Some(l);
        } else if written[x] {
            st.fault_uncommitted_probes.fetch_add(1, Relaxed);
            if let Some(l) = got {
                return Err(format!("[{tag}] get_location finds command {x} at {l}, but it was only written for a commit that failed (not in the committed graph)"));
            }
            for h in heads.iter() {
                st.lookups_from.fetch_add(1, Relaxed);
                if let Some(l) = storage.get_location_from(h.location(), addr(x), &mut buf).map_err(|e| format!("[{tag}] get_location_from failed: {e:?}"))? {
                    return Err(format!("[{tag}] get_location_from(head {}, command {x}) = Some({l}), but the command is not in the committed graph", h.location()));
                }
            }
        }
    }
    for x in (0..n).filter(|&x| in_s[x]) {
        for y in (0..n).filter(|&y| in_s[y]) {
            let want = anc[y] & (1u128 << x) != 0;
            st.ancestry.fetch_add(1, Relaxed);
            let got = storage.is_ancestor(loc[x].unwrap(), loc[y].unwrap(), &mut buf).map_err(|e| format!("[{tag}] is_ancestor({x},{y}) failed: {e:?}"))?;
            if got != want {
                return Err(format!("[{tag}] is_ancestor(command {x}, command {y}) = {got}, reachability says {want}"));
            }
            st.lookups_from.fetch_add(1, Relaxed);
            let got = storage.get_location_from(loc[y].unwrap(), addr(x), &mut buf).map_err(|e| format!("[{tag}] get_location_from({y},{x}) failed: {e:?}"))?;
            if got.is_some() != (want || x == y) || got.is_some_and(|l| Some(l) != loc[x]) {
                return Err(format!("[{tag}] get_location_from(command {y}, command {x}) = {got:?}, expected found={}", want || x == y));
            }
        }
    }
    Ok(())
}

/// Deliver `g` through the real client on a `CapIo` whose `fail_at`-th backend commit fails.
/// Returns whether the fault fired.
fn check_fault(g: &Graph, fail_at: u64, st: &Stats) -> Result<bool, String> {
    let tag = "cap+fault";
    let n = g.n();
    let mc = g.max_cuts();
    let anc = g.ancestors();
    let (io, plan) = CapIo::failing_commit(fail_at);
    let mut client = ClientState::new(ScriptStore, LinearStorageProvider::new(io));
    let gid = GraphId::transmute(g.id(0));
    let mut sink = VecSink::default();
    st.fault_runs.fetch_add(1, Relaxed);
    BUFS_CAP.with(|b| -> Result<bool, String> {
        let mut b = b.borrow_mut();
        let bufs = b.get_or_insert_with(|| Box::new(RuntimeBuffers::new()));
        let mut trx = client.transaction(gid);
        let mut committed = 0usize; // nodes 0..committed are in the last successful commit
        let mut fired = false;
        let mut i = 0usize;
        while i < n {
            let cmd = g.cmd(i, &mc);
            let added = client.add_commands(&mut trx, &mut sink, &[cmd], bufs, MemSpill::new).map_err(|e| format!("[{tag}] add_commands(command {i}) failed: {e:?}"))?;
            if added != 1 {
                return Err(format!("[{tag}] add_commands(command {i}) added {added} commands"));
            }
            if i == 0 {
                // delivering the init command creates the graph: backend commit #0 (never failed here)
                committed = 1;
            }
            if !(g.commit_after[i] || i + 1 == n) {
                i += 1;
                continue;
            }
            let before = {
                let storage = client.provider().get_storage(gid).map_err(|e| format!("[{tag}] get_storage: {e:?}"))?;
                storage.heads_offset().map_err(|e| format!("[{tag}] heads_offset: {e:?}"))?
            };
            let failed_before = plan.failed.load(Relaxed);
            let res = client.commit(trx, &mut sink, bufs, MemSpill::new);
            trx = client.transaction(gid);
            let fault_now = plan.failed.load(Relaxed) > failed_before;
            match (res, fault_now) {
                (Ok(_), false) => {
                    committed = i + 1;
                    i += 1;
                }
                (Ok(_), true) => return Err(format!("[{tag}] commit after command {i} returned Ok although the backend commit failed")),
                (Err(e), false) => return Err(format!("[{tag}] commit after command {i} failed without an injected fault: {e:?}")),
                (Err(_), true) => {
                    fired = true;
                    st.fault_fired.fetch_add(1, Relaxed);
                    // same storage handle: everything must still describe the last successful commit
                    let in_s: Vec<bool> = (0..n).map(|x| x < committed).collect();
                    let written: Vec<bool> = (0..n).map(|x| x <= i).collect();
                    let storage = client.provider().get_storage(gid).map_err(|e| format!("[{tag}] get_storage: {e:?}"))?;
                    let after = storage.heads_offset().map_err(|e| format!("[{tag}] heads_offset: {e:?}"))?;
                    if after != before {
                        return Err(format!("[{tag}] heads_offset moved although the commit after command {i} failed"));
                    }
                    verify_subset(&*storage, g, &mc, &anc, &in_s, &written, st, tag).map_err(|e| format!("after the failed commit following command {i} (last successful commit holds commands 0..{committed}): {e}"))?;
                    let is_parent: BTreeSet<usize> = (0..=i).flat_map(|x| g.parents[x].iter().copied()).collect();
                    if (0..=i).filter(|x| !is_parent.contains(x)).count() > 1 {
                        st.fault_multi_head_failed.fetch_add(1, Relaxed);
                    }
                    // the batch is offered again (a sync retry) and must now commit normally
                    i = committed;
                }
            }
        }
        let all = vec![true; n];
        let storage = client.provider().get_storage(gid).map_err(|e| format!("[{tag}] get_storage: {e:?}"))?;
        verify_subset(&*storage, g, &mc, &anc, &all, &all, st, tag).map_err(|e| format!("after the final successful commit: {e}"))?;
        Ok(fired)
    })
}

fn run_fault(g: &Graph, fail_at: u64, st: &Stats) -> Result<bool, String> {
    match mcx::catch(|| check_fault(g, fail_at, st)) {
        Ok(r) => r,
        Err(p) => Err(format!("panic: {p} at {}", mcx::last_panic_location())),
    }
}

// ---------------------------------------------------------------------------------------------
// graphs created from an init perspective that holds several commands

/// Create the graph from an init perspective holding nodes 0..init_len (through
/// `ClientState::new_graph` with a multi-publish action, or through new_perspective +
/// add_command + new_storage), ask every question right after creation, then deliver the rest
/// through transactions and ask again after every commit.
fn check_multi_init(g: &Graph, st: &Stats) -> Result<(), String> {
    let tag = if g.via_new_graph { "mem/new_graph" } else { "mem/new_storage" };
    let n = g.n();
    let k = g.init_len;
    let mc = g.max_cuts();
    let anc = g.ancestors();
    let mut client = ClientState::new(ScriptStore, MemStorageProvider::default());
    let mut sink = VecSink::default();
    let gid = if g.via_new_graph {
        let a = Action { tag: 0x30, seq: 0, cmds: vec![vec![]; k] };
        client.new_graph(b"p", &a, &mut sink).map_err(|e| format!("[{tag}] new_graph failed: {e:?}"))?
    } else {
        let sp = client.provider();
        let mut p = sp.new_perspective(PolicyId::new(0));
        for i in 0..k {
            p.add_command(&g.cmd(i, &mc)).map_err(|e| format!("[{tag}] add_command({i}) failed: {e:?}"))?;
        }
        sp.new_storage(p).map_err(|e| format!("[{tag}] new_storage failed: {e:?}"))?.0
    };
    if gid != GraphId::transmute(g.id(0)) {
        return Err(format!("[{tag}] the graph id is not the id of the init command"));
    }
    st.multi_init_graphs.fetch_add(1, Relaxed);
    let stage = |client: &mut ClientState<ScriptStore, MemStorageProvider>, upto: usize, what: &str| -> Result<(), String> {
        st.multi_init_stages.fetch_add(1, Relaxed);
        let in_s: Vec<bool> = (0..n).map(|x| x < upto).collect();
        let storage = client.provider().get_storage(gid).map_err(|e| format!("[{tag}] get_storage: {e:?}"))?;
        verify_subset(&*storage, g, &mc, &anc, &in_s, &in_s, st, tag).map_err(|e| format!("{what}: {e}"))
    };
    stage(&mut client, k, &format!("right after creating the graph from {k} commands"))?;
    BUFS_MEM.with(|b| -> Result<(), String> {
        let mut b = b.borrow_mut();
        let bufs = b.get_or_insert_with(|| Box::new(RuntimeBuffers::new()));
        let mut trx = client.transaction(gid);
        for i in k..n {
            let added = client.add_commands(&mut trx, &mut sink, &[g.cmd(i, &mc)], bufs, MemSpill::new).map_err(|e| format!("[{tag}] add_commands(command {i}) failed: {e:?}"))?;
            if added != 1 {
                return Err(format!("[{tag}] add_commands(command {i}) added {added} commands"));
            }
            if g.commit_after[i] || i + 1 == n {
                client.commit(trx, &mut sink, bufs, MemSpill::new).map_err(|e| format!("[{tag}] commit after command {i} failed: {e:?}"))?;
                trx = client.transaction(gid);
                stage(&mut client, i + 1, &format!("after the commit following command {i}"))?;
            }
        }
        Ok(())
    })
}

fn run_multi_init(g: &Graph, st: &Stats) -> Result<(), String> {
    match mcx::catch(|| check_multi_init(g, st)) {
        Ok(r) => r,
        Err(p) => Err(format!("panic: {p} at {}", mcx::last_panic_location())),
    }
}

/// Init segments of 2..=4 commands × every DAG extension by ≤ `extra` commands (single parent =
/// any earlier command, merge = two incomparable earlier commands) × commit-point subsets of the
/// extension × both creation paths.
fn multi_init_family(extra: usize) -> Vec<Graph> {
    fn rec(target: usize, parents: &mut Vec<Vec<usize>>, anc: &mut Vec<u128>, out: &mut Vec<Vec<Vec<usize>>>) {
        let i = parents.len();
        if i == target {
            out.push(parents.clone());
            return;
        }
        for p in 0..i {
            parents.push(vec![p]);
            anc.push(anc[p] | (1 << p));
            rec(target, parents, anc, out);
            parents.pop();
            anc.pop();
        }
        for p in 0..i {
            for q in p + 1..i {
                if anc[q] & (1 << p) == 0 && anc[p] & (1 << q) == 0 {
                    parents.push(vec![p, q]);
                    anc.push(anc[p] | anc[q] | (1 << p) | (1 << q));
                    rec(target, parents, anc, out);
                    parents.pop();
                    anc.pop();
                }
            }
        }
    }
    let mut out = Vec::new();
    for k in 2..=4usize {
        for e in 0..=extra {
            let mut parents: Vec<Vec<usize>> = (0..k).map(|i| if i == 0 { vec![] } else { vec![i - 1] }).collect();
            let mut anc: Vec<u128> = (0..k).map(|i| (1u128 << i) - 1).collect();
            let mut dags = Vec::new();
            rec(k + e, &mut parents, &mut anc, &mut dags);
            for (di, parents) in dags.into_iter().enumerate() {
                let free = e.saturating_sub(1);
                for mask in 0..(1u32 << free) {
                    let mut commit_after = vec![false; k + e];
                    commit_after[k - 1] = true;
                    for j in 0..free {
                        commit_after[k + j] = mask & (1 << j) != 0;
                    }
                    commit_after[k + e - 1] = true;
                    for via_new_graph in [false, true] {
                        out.push(Graph { parents: parents.clone(), commit_after: commit_after.clone(), label: format!("init segment of {k} commands + {e} more #{di} commits={mask:b} via {}", if via_new_graph { "new_graph" } else { "new_storage" }), init_len: k, via_new_graph });
                    }
                }
            }
        }
    }
    out
}

// ---------------------------------------------------------------------------------------------
// graph families

/// Commit pattern producing segments of the given sizes along delivery order.
fn commits_for(n: usize, sizes: &[usize]) -> Vec<bool> {
    let mut v = vec![false; n];
    let mut i = 0usize;
    let mut k = 0usize;
    // the init command is always its own segment (new_storage)
    v[0] = true;
    i += 1;
    while i < n {
        let s = sizes[k % sizes.len()];
        k += 1;
        i = (i + s).min(n);
        v[i - 1] = true;
    }
    v
}

const SEGMENTATIONS: [(&str, &[usize]); 5] = [("1", &[1]), ("2", &[2]), ("3", &[3]), ("7", &[7]), ("mixed", &[3, 1, 7, 2])];

/// A chain 0..n-1 plus "features": (fork position b, side length len, join position j or none).
/// Main-chain positions are chain indices; the merge command replaces chain command j (its
/// parents are chain j-1 and the side tip).  Delivery order: side branch commands are delivered
/// right before the join (or at the end when left as a head).
fn chain_with(n: usize, feats: &[(usize, usize, Option<usize>)], sizes: &[usize], label: String) -> Option<Graph> {
    // node numbering = delivery order
    let mut parents: Vec<Vec<usize>> = Vec::new();
    let mut chain_node: Vec<usize> = Vec::with_capacity(n);
    let mut pending: Vec<(usize, usize, Option<usize>)> = feats.to_vec();
    for c in 0..n {
        // side branches that join at c are delivered now
        let mut join_tip: Option<usize> = None;
        let mut k = 0;
        while k < pending.len() {
            let (b, len, j) = pending[k];
            if j == Some(c) {
                if b + 1 >= c || join_tip.is_some() {
                    return None; // fork must be at least two below the join; one join per command
                }
                let mut prev = chain_node[b];
                for _ in 0..len {
                    parents.push(vec![prev]);
                    prev = parents.len() - 1;
                }
                join_tip = Some(prev);
                pending.remove(k);
            } else {
                k += 1;
            }
        }
        let node = match (c, join_tip) {
            (0, _) => vec![],
            (_, Some(t)) => vec![chain_node[c - 1], t],
            (_, None) => vec![chain_node[c - 1]],
        };
        parents.push(node);
        chain_node.push(parents.len() - 1);
    }
    // unjoined side branches become extra heads
    for (b, len, j) in pending {
        if j.is_some() || b >= n {
            return None;
        }
        let mut prev = chain_node[b];
        for _ in 0..len {
            parents.push(vec![prev]);
            prev = parents.len() - 1;
        }
    }
    let total = parents.len();
    if total > 120 {
        return None;
    }
    Some(Graph { commit_after: commits_for(total, sizes), parents, label, init_len: 1, via_new_graph: false })
}

fn depth_classes(n: usize) -> Vec<usize> {
    let mut v: Vec<usize> = [0, 1, n / 4, (n / 2).saturating_sub(1), n / 2, n / 2 + 1, 3 * n / 4, n.saturating_sub(2), n.saturating_sub(1)].into_iter().filter(|&x| x < n).collect();
    v.sort();
    v.dedup();
    v
}

fn chain_family(max_n: usize, quick: bool) -> Vec<Graph> {
    let mut out = Vec::new();
    for n in 1..=max_n {
        for (sname, sizes) in SEGMENTATIONS {
            let mut push = |feats: &[(usize, usize, Option<usize>)], what: String| {
                if let Some(g) = chain_with(n, feats, sizes, format!("chain n={n} seg={sname} {what}")) {
                    out.push(g);
                }
            };
            push(&[], "plain".into());
            // one open side branch at every position
            for b in 0..n {
                for len in [1usize, 2] {
                    push(&[(b, len, None)], format!("open-branch b={b} len={len}"));
                }
            }
            // one diamond for every pair
            let step = if quick && n > 16 { 3 } else { 1 };
            for b in (0..n).step_by(step) {
                for j in b + 2..n {
                    push(&[(b, 1, Some(j))], format!("diamond b={b} j={j}"));
                }
            }
            for b in depth_classes(n) {
                for j in depth_classes(n) {
                    if j >= b + 2 {
                        push(&[(b, 2, Some(j))], format!("diamond b={b} j={j} len=2"));
                    }
                }
            }
            // two diamonds (sequential, overlapping or nested) at the depth classes
            if quick && !(n % 4 == 0 || n >= 22) {
                continue;
            }
            let dc = depth_classes(n);
            for &b1 in &dc {
                for &j1 in &dc {
                    for &b2 in &dc {
                        for &j2 in &dc {
                            if j1 >= b1 + 2 && j2 >= b2 + 2 && (b1, j1) < (b2, j2) && j1 != j2 {
                                push(&[(b1, 1, Some(j1)), (b2, 1, Some(j2))], format!("diamonds ({b1},{j1}) ({b2},{j2})"));
                            }
                        }
                    }
                }
            }
            // a diamond plus an open branch
            for &b1 in &dc {
                for &j1 in &dc {
                    for &b2 in &dc {
                        if j1 >= b1 + 2 {
                            push(&[(b1, 1, Some(j1)), (b2, 1, None)], format!("diamond ({b1},{j1}) + open b={b2}"));
                        }
                    }
                }
            }
        }
    }
    out
}

/// All creation-ordered DAGs with n commands: node i has one earlier parent or two incomparable
/// earlier parents.
fn small_dags(n: usize) -> Vec<Vec<Vec<usize>>> {
    fn rec(n: usize, parents: &mut Vec<Vec<usize>>, anc: &mut Vec<u128>, out: &mut Vec<Vec<Vec<usize>>>) {
        let i = parents.len();
        if i == n {
            out.push(parents.clone());
            return;
        }
        for p in 0..i {
            parents.push(vec![p]);
            anc.push(anc[p] | (1 << p));
            rec(n, parents, anc, out);
            parents.pop();
            anc.pop();
        }
        for p in 0..i {
            for q in p + 1..i {
                let comparable = anc[q] & (1 << p) != 0 || anc[p] & (1 << q) != 0;
                if !comparable {
                    parents.push(vec![p, q]);
                    anc.push(anc[p] | anc[q] | (1 << p) | (1 << q));
                    rec(n, parents, anc, out);
                    parents.pop();
                    anc.pop();
                }
            }
        }
    }
    let mut out = Vec::new();
    rec(n, &mut vec![vec![]], &mut vec![0], &mut out);
    out
}

fn dag_family(max_n: usize) -> Vec<Graph> {
    let mut out = Vec::new();
    for n in 1..=max_n {
        for (di, parents) in small_dags(n).into_iter().enumerate() {
            // every subset of commit points after the init command (the last delivery always commits)
            let free = n.saturating_sub(2);
            for mask in 0..(1u32 << free) {
                let mut commit_after = vec![false; n];
                commit_after[0] = true;
                for k in 0..free {
                    commit_after[k + 1] = mask & (1 << k) != 0;
                }
                commit_after[n - 1] = true;
                out.push(Graph { parents: parents.clone(), commit_after, label: format!("dag n={n} #{di} commits={mask:b}"), init_len: 1, via_new_graph: false });
            }
        }
    }
    out
}

pub fn run(args: &Args) {
    mcx::quiet_panics();
    if let Some(p) = &args.replay {
        replay(args, p);
    }
    let mut rep = Report::new(args, Level::ModelChecking);
    let quick = args.tier == mcx::Tier::Quick;
    let stats = Stats::default();
    let scratch = mcx::Scratch::new("c11");
    let deadline = mcx::Deadline::after_secs(if quick { 45 } else { 1000 });
    let max_chain = if quick { 24 } else { 48 };
    let max_dag = 6;
    let mut families: Vec<(String, Vec<Graph>, bool)> = Vec::new();
    families.push((format!("all DAGs n<={max_dag} x all commit-point subsets"), dag_family(max_dag), false));
    families.push(("DAGs n<=5 x commit subsets on FileManager".into(), dag_family(if quick { 4 } else { 5 }), true));
    let file_chain: Vec<Graph> = chain_family(if quick { 24 } else { 32 }, true).into_iter().filter(|g| g.label.contains("plain") || (g.label.contains("diamond b=0 j=") && (!quick || g.label.contains("seg=3")))).collect();
    families.push(("plain chains and fork-at-init diamonds on FileManager".into(), file_chain, true));
    families.push((format!("chains 1..={max_chain} x segment sizes {{1,2,3,7,mixed}} x branches/diamonds"), chain_family(max_chain, quick), false));

    let mut sigs: BTreeSet<u128> = BTreeSet::new();
    let mut fam_json = Vec::new();
    let mut cap = false;
    let mut samples = 0;
    for (name, graphs, with_file) in &families {
        let mut done = 0usize;
        for chunk in graphs.chunks(4096) {
            if deadline.passed() {
                cap = true;
                break;
            }
            let outs: Vec<Result<u128, String>> = chunk.par_iter().map(|g| run_graph(g, &stats, *with_file, scratch.path())).collect();
            for (g, r) in chunk.iter().zip(outs) {
                match r {
                    Ok(s) => {
                        if sigs.insert(s) && samples < 4 && g.n() >= 5 && g.parents.iter().any(|p| p.len() == 2) {
                            samples += 1;
                            rep.sample(json!({"graph": g.label, "parents": g.parents, "commit_after": g.commit_after}));
                        }
                    }
                    Err(text) => {
                        rep.outcome("violation", 1);
                        rep.violation(format!("{} parents={:?} commits={:?}", g.label, g.parents, g.commit_after.iter().map(|&b| b as u8).collect::<Vec<_>>()), text, g.replay_json());
                    }
                }
            }
            done += chunk.len();
        }
        fam_json.push(json!({"family": name, "graphs": graphs.len(), "checked": done, "file_manager": with_file}));
    }
    // graphs whose init segment holds several commands
    let mi = multi_init_family(if quick { 2 } else { 3 });
    let mouts: Vec<Result<(), String>> = mi.par_iter().map(|g| run_multi_init(g, &stats)).collect();
    for (g, r) in mi.iter().zip(mouts) {
        if let Err(text) = r {
            rep.outcome("violation", 1);
            rep.violation(format!("{} parents={:?} commits={:?}", g.label, g.parents, g.commit_after.iter().map(|&b| b as u8).collect::<Vec<_>>()), text, g.replay_json());
        }
    }
    if let Some(g) = mi.iter().find(|g| g.init_len == 3 && g.n() == 5 && g.parents.iter().any(|p| p.len() == 2)) {
        rep.sample(json!({"graph": g.label, "parents": g.parents, "commit_after": g.commit_after, "init_len": g.init_len}));
    }
    fam_json.push(json!({"family": "init segment of 2..4 commands (new_graph multi-publish action / new_storage) + every DAG extension, queried after creation and after every commit", "graphs": mi.len(), "query_stages": stats.multi_init_stages.load(Relaxed)}));
    // fault family: every backend commit index >= 1 fails once (index 0 is the graph creation)
    let fault_graphs = dag_family(if quick { 5 } else { 6 });
    let cases: Vec<(usize, u64)> = fault_graphs.iter().enumerate().flat_map(|(gi, g)| (1..=g.n() as u64 + 1).map(move |k| (gi, k))).collect();
    let fouts: Vec<Result<bool, String>> = cases.par_iter().map(|&(gi, k)| run_fault(&fault_graphs[gi], k, &stats)).collect();
    for (&(gi, k), r) in cases.iter().zip(fouts) {
        if let Err(text) = r {
            let g = &fault_graphs[gi];
            rep.outcome("violation", 1);
            rep.violation(format!("backend commit #{k} fails: {} parents={:?} commits={:?}", g.label, g.parents, g.commit_after.iter().map(|&b| b as u8).collect::<Vec<_>>()), text, json!({"label": g.label, "parents": g.parents, "commit_after": g.commit_after, "fail_commit": k}));
        }
    }
    fam_json.push(json!({"family": "failed backend commit: DAGs x commit subsets x every commit index >= 1 failing once (CapIo)", "graphs": fault_graphs.len(), "runs": cases.len(), "faults_fired": stats.fault_fired.load(Relaxed)}));
    drop(scratch);
    rep.count("states", sigs.len() as u64);
    rep.count("transitions", stats.lookups.load(Relaxed) + stats.ancestry.load(Relaxed) + stats.lookups_from.load(Relaxed) + stats.absent.load(Relaxed) + stats.uncommitted_probe.load(Relaxed));
    rep.count("traces_validated_against_impl", stats.graphs.load(Relaxed) + stats.fault_fired.load(Relaxed) + stats.multi_init_graphs.load(Relaxed));
    rep.set("families", Value::Array(fam_json));
    rep.set("exhaustive", !cap);
    if cap {
        rep.set("cap_hit", true);
    }
    rep.set("bounds", json!({"chain_lengths": format!("1..={max_chain}"), "segment_sizes": "1,2,3,7,mixed(3,1,7,2)", "small_dags": format!("n<={max_dag}"), "states_are": "distinct (parent map, walked segment layout incl. skip lists)"}));
    for (k, v) in [
        ("graphs_built", stats.graphs.load(Relaxed)),
        ("commands_committed", stats.commands.load(Relaxed)),
        ("get_location_calls", stats.lookups.load(Relaxed)),
        ("is_ancestor_calls", stats.ancestry.load(Relaxed)),
        ("is_ancestor_true", stats.ancestry_true.load(Relaxed)),
        ("get_location_from_calls", stats.lookups_from.load(Relaxed)),
        ("absent_address_lookups", stats.absent.load(Relaxed)),
        ("segments_walked", stats.segments.load(Relaxed)),
        ("segments_with_skip_list", stats.seg_with_skips.load(Relaxed)),
        ("segments_with_multi_entry_skip_list", stats.seg_rich_skips.load(Relaxed)),
        ("merge_segments", stats.merge_segments.load(Relaxed)),
        ("merge_segments_with_lca_10_or_more_below", stats.merge_lca_far.load(Relaxed)),
        ("multi_head_graphs", stats.multi_head_graphs.load(Relaxed)),
        ("multi_command_init_graphs", stats.multi_init_graphs.load(Relaxed)),
        ("multi_command_init_query_stages", stats.multi_init_stages.load(Relaxed)),
        ("failed_commit_runs_with_fault_fired", stats.fault_fired.load(Relaxed)),
        ("failed_commit_uncommitted_commands_probed", stats.fault_uncommitted_probes.load(Relaxed)),
        ("failed_commit_with_several_written_heads", stats.fault_multi_head_failed.load(Relaxed)),
    ] {
        rep.count(k, v);
        if rep.violations().is_empty() {
            rep.require_nonzero(k);
        }
        rep.outcome(k, v);
    }
    rep.count("get_location_from_found_command_that_is_no_ancestor_of_start", stats.from_found_non_ancestor.load(Relaxed));
    rep.set("longest_skip_list", stats.max_skip_len.load(Relaxed));
    rep.assume("graphs are delivered in creation order through ClientState::add_commands/commit with a no-op policy; segment shape is varied through the commit points only");
    rep.assume("get_location_from(start, address) is read as: Some(location holding the command) exactly when the command is an ancestor-or-self of the command at `start`");
    rep.finish()
}

fn replay(args: &Args, path: &std::path::Path) -> ! {
    let txt = std::fs::read_to_string(path).unwrap_or_else(|e| mcx::machinery_error(&format!("replay file: {e}")));
    let v: Value = mcx::serde_json::from_str(&txt).unwrap_or_else(|e| mcx::machinery_error(&format!("replay file: {e}")));
    let r = &v["replay"];
    let parents: Vec<Vec<usize>> = r["parents"].as_array().unwrap_or_else(|| mcx::machinery_error("replay: parents")).iter().map(|p| p.as_array().unwrap().iter().map(|x| x.as_u64().unwrap() as usize).collect()).collect();
    let commit_after: Vec<bool> = r["commit_after"].as_array().unwrap_or_else(|| mcx::machinery_error("replay: commit_after")).iter().map(|b| b.as_bool().unwrap()).collect();
    let g = Graph { parents, commit_after, label: r["label"].as_str().unwrap_or("").to_string(), init_len: r["init_len"].as_u64().unwrap_or(1) as usize, via_new_graph: r["via_new_graph"].as_bool().unwrap_or(false) };
    let stats = Stats::default();
    if g.init_len > 1 {
        match run_multi_init(&g, &stats) {
            Ok(()) => {
                println!("replay: no violation ({})", g.label);
                std::process::exit(0)
            }
            Err(e) => {
                println!("VIOLATION property={} replay={}\n  {e}", args.prop, path.display());
                std::process::exit(1)
            }
        }
    }
    if let Some(k) = r["fail_commit"].as_u64() {
        match run_fault(&g, k, &stats) {
            Ok(f) => {
                println!("replay: no violation ({}, backend commit #{k} failing, fired={f})", g.label);
                std::process::exit(0)
            }
            Err(e) => {
                println!("VIOLATION property={} replay={}\n  {e}", args.prop, path.display());
                std::process::exit(1)
            }
        }
    }
    let scratch = mcx::Scratch::new("c11replay");
    let res = run_graph(&g, &stats, true, scratch.path());
    drop(scratch);
    match res {
        Ok(_) => {
            println!("replay: no violation ({})", g.label);
            std::process::exit(0)
        }
        Err(e) => {
            println!("VIOLATION property={} replay={}\n  {e}", args.prop, path.display());
            std::process::exit(1)
        }
    }
}
