//! C12 — fact storage behaves as a key-value map.
//!
//! Subject: the real `LinearStorage` / `LinearPerspective` / `LinearFactPerspective` /
//! `LinearFactIndex` code (storage/linear/mod.rs), driven only through the public
//! `StorageProvider` / `Storage` / `Perspective` / `Segment` / `Query` traits, on three I/O
//! managers in lock-step: the crate's own in-memory `testing::Manager` (`MemStorageProvider`),
//! the harness's capturing in-memory manager `CapIo` (same public traits; used to derive the
//! canonical key from what the storage code really wrote) and — for a sub-space — the real libc
//! `FileManager` on /dev/shm.
//!
//! Operations: `ins(name,key,val)`, `del(name,key)` on the in-flight perspective; `cmd`
//! (add_command: the pending updates become the command's update list); `seg` (write the
//! perspective as a segment, commit it as the head, open a new perspective at that head;
//! enabled with ≥ 1 command and no unattached write); `rehead` (drop the in-flight perspective,
//! reopen at the head); `remid(j)` (reopen at command j < last of the last written segment —
//! the state is rebuilt from the segment's per-command update lists over its prior facts).
//! Before the graph exists the perspective is the unrooted one and `seg` is `new_storage`.
//!
//! Oracle (the statement): after every step, on the in-flight perspective — and after every `seg`
//! on the written segment's `facts()`, on `fact_cache()`, and on `get_fact_perspective` /
//! `get_linear_perspective` at *every* command of the written segment — `query` for every key of
//! the alphabet and `query_prefix` for every probe equal a flat `BTreeMap` that had the same
//! inserts/deletes applied in order (snapshots per command); prefix results strictly ascending,
//! no deleted fact, no error, no panic.
//!
//! Spaces (all exhaustive within their bounds; flavour S = `--cfg aranya_core_verif`, fact
//! indexes compact after 3 levels; flavour P = the shipped limit 16):
//!  * exact: every operation sequence of length ≤ d over the *full* alphabet (8 keys × 2 names ×
//!    {v0,v1,delete} + cmd/seg/rehead/remid) appended to each preamble of p one-write segments
//!    (two preamble families, p up to past the compaction limit).  No state merging except
//!    identical histories.
//!  * deep: BFS to depth D with canonical-state merging.  Canonical key = (address-free rendering
//!    of the last written segment as captured from the real writer: per-command update lists,
//!    the whole fact-index chain layer by layer with tombstones and depths, the prior-facts
//!    chain; where the in-flight perspective was opened; its write operations grouped per
//!    command; the model snapshots).  In this mode update lists are normalised to "last write
//!    per (name,key)": the storage code consumes an update list only by folding it left-to-right
//!    into an ordered map keyed by (name,key) (`apply_updates`, `insert`/`delete` on the
//!    perspective map), so two lists with the same last write per key drive it identically; the
//!    exact space above does not rely on this argument.

use std::sync::atomic::{AtomicU64, Ordering::Relaxed};

use aranya_runtime::{
    storage::linear::{libc::FileManager, testing::MemStorageProvider, LinearStorageProvider},
    GraphId, HeadSet, LocatedAddress, Location, MaxCut, Perspective, PolicyId, Prior, Priority, QueryMut, Segment, SegmentIndex, Storage,
    StorageProvider,
};
use mcx::{json, Args, Level, Report, Value};

use crate::{
    bfs::{bfs, Event},
    store::{self, check_queries, cmd_id, hash128, key_alphabet, prefix_probes, show_key, to_keys, CapIo, CapRegistry, Model, QueryStats, TestCmd, K},
};

#[derive(Clone, Copy, Debug, PartialEq, Eq, PartialOrd, Ord)]
pub enum Op {
    Ins(u8, u8, u8),
    Del(u8, u8),
    Cmd,
    Seg,
    ReHead,
    ReMid(u8),
}

pub struct Alphabet {
    pub names: Vec<String>,
    pub keys: Vec<K>,
    pub all_keys: Vec<K>,
    pub probes: Vec<K>,
    pub vals: usize,
}

impl Alphabet {
    pub fn full() -> Self {
        Alphabet { names: store::names(2), keys: key_alphabet(), all_keys: key_alphabet(), probes: prefix_probes(), vals: 2 }
    }
    /// keys restricted to the given indices of the full alphabet (queries still probe all keys)
    fn restricted(names: usize, key_idx: &[usize], vals: usize) -> Self {
        let all = key_alphabet();
        Alphabet { names: store::names(names), keys: key_idx.iter().map(|&i| all[i].clone()).collect(), all_keys: all, probes: prefix_probes(), vals }
    }
    fn write_ops(&self) -> Vec<Op> {
        let mut v = Vec::new();
        for n in 0..self.names.len() as u8 {
            for k in 0..self.keys.len() as u8 {
                for val in 0..self.vals as u8 {
                    v.push(Op::Ins(n, k, val));
                }
                v.push(Op::Del(n, k));
            }
        }
        v
    }
    fn show(&self, op: &Op) -> String {
        match *op {
            Op::Ins(n, k, v) => format!("ins(n{n},{},v{v})", show_key(&self.keys[k as usize])),
            Op::Del(n, k) => format!("del(n{n},{})", show_key(&self.keys[k as usize])),
            Op::Cmd => "cmd".into(),
            Op::Seg => "seg".into(),
            Op::ReHead => "rehead".into(),
            Op::ReMid(j) => format!("remid({j})"),
        }
    }
    fn show_hist(&self, h: &[Op]) -> String {
        h.iter().map(|o| self.show(o)).collect::<Vec<_>>().join("; ")
    }
    fn op_json(&self, op: &Op) -> Value {
        match *op {
            Op::Ins(n, k, v) => json!(["ins", n, self.keys[k as usize].iter().map(|p| String::from_utf8_lossy(p).to_string()).collect::<Vec<_>>(), v]),
            Op::Del(n, k) => json!(["del", n, self.keys[k as usize].iter().map(|p| String::from_utf8_lossy(p).to_string()).collect::<Vec<_>>()]),
            Op::Cmd => json!(["cmd"]),
            Op::Seg => json!(["seg"]),
            Op::ReHead => json!(["rehead"]),
            Op::ReMid(j) => json!(["remid", j]),
        }
    }
}

fn val_bytes(v: u8) -> Vec<u8> {
    format!("v{v}").into_bytes()
}

// ---------------------------------------------------------------------------------------------
// harness-side simulation (pure function of the history)

#[derive(Clone, Copy, PartialEq, Eq, Debug)]
enum OpenAt {
    Fresh,
    Head,
    Mid(u8),
}

type W = (u8, u8, Option<u8>);

#[derive(Clone)]
pub struct Sim {
    stored: bool,
    pub cur: Model,
    base: Model,
    open_at: OpenAt,
    groups: Vec<Vec<W>>,
    snaps: Vec<Model>,
    pending: Vec<W>,
    last_snaps: Vec<Model>,
    segments: u32,
    shadowing_deletes: u64,
}

impl Sim {
    pub fn new() -> Self {
        Sim { stored: false, cur: Model::new(), base: Model::new(), open_at: OpenAt::Fresh, groups: vec![], snaps: vec![], pending: vec![], last_snaps: vec![], segments: 0, shadowing_deletes: 0 }
    }
    pub fn apply(&mut self, a: &Alphabet, op: &Op) {
        match *op {
            Op::Ins(n, k, v) => {
                self.cur.insert((a.names[n as usize].clone(), a.keys[k as usize].clone()), val_bytes(v));
                self.pending.push((n, k, Some(v)));
            }
            Op::Del(n, k) => {
                let key = (a.names[n as usize].clone(), a.keys[k as usize].clone());
                if self.base.contains_key(&key) {
                    self.shadowing_deletes += 1;
                }
                self.cur.remove(&key);
                self.pending.push((n, k, None));
            }
            Op::Cmd => {
                self.groups.push(std::mem::take(&mut self.pending));
                self.snaps.push(self.cur.clone());
            }
            Op::Seg => {
                self.last_snaps = std::mem::take(&mut self.snaps);
                self.groups.clear();
                self.base = self.cur.clone();
                self.open_at = OpenAt::Head;
                self.stored = true;
                self.segments += 1;
            }
            Op::ReHead => {
                self.cur = self.last_snaps.last().cloned().unwrap_or_default();
                self.base = self.cur.clone();
                self.groups.clear();
                self.snaps.clear();
                self.pending.clear();
                self.open_at = if self.stored { OpenAt::Head } else { OpenAt::Fresh };
            }
            Op::ReMid(j) => {
                self.cur = self.last_snaps[j as usize].clone();
                self.base = self.cur.clone();
                self.groups.clear();
                self.snaps.clear();
                self.pending.clear();
                self.open_at = OpenAt::Mid(j);
            }
        }
    }
    fn dirty(&self) -> bool {
        !self.groups.is_empty() || !self.pending.is_empty() || matches!(self.open_at, OpenAt::Mid(_))
    }
}

fn norm_group(g: &[W], normalise: bool) -> String {
    if !normalise {
        return format!("{g:?}");
    }
    let mut last = std::collections::BTreeMap::new();
    for &(n, k, v) in g {
        last.insert((n, k), v);
    }
    format!("{last:?}")
}

// ---------------------------------------------------------------------------------------------
// driver over a real storage provider

struct Last {
    seg: SegmentIndex,
    first_mc: u64,
    n: usize,
}

pub struct Driver<SP: StorageProvider> {
    pub sp: SP,
    pub gid: Option<GraphId>,
    pub persp: Option<SP::Perspective>,
    counter: u64,
    last: Option<Last>,
    pub tag: &'static str,
}

impl<SP: StorageProvider> Driver<SP> {
    pub fn new(mut sp: SP, tag: &'static str) -> Self {
        let persp = Some(sp.new_perspective(PolicyId::new(0)));
        Driver { sp, gid: None, persp, counter: 0, last: None, tag }
    }

    fn head_loc(&self) -> Location {
        let l = self.last.as_ref().expect("stored");
        Location::new(l.seg, MaxCut::new(l.first_mc + l.n as u64 - 1))
    }

    pub fn apply(&mut self, a: &Alphabet, op: &Op) -> Result<(), String> {
        let tag = self.tag;
        let e = |what: &str, e: &dyn std::fmt::Debug| format!("[{tag}] {what} failed: {e:?}");
        match *op {
            Op::Ins(n, k, v) => self
                .persp
                .as_mut()
                .unwrap()
                .insert(a.names[n as usize].clone(), to_keys(&a.keys[k as usize]), val_bytes(v).into_boxed_slice())
                .map_err(|x| e("insert", &x)),
            Op::Del(n, k) => self.persp.as_mut().unwrap().delete(a.names[n as usize].clone(), to_keys(&a.keys[k as usize])).map_err(|x| e("delete", &x)),
            Op::Cmd => {
                let p = self.persp.as_mut().unwrap();
                let parent = p.head_address().map_err(|x| e("head_address", &x))?;
                let prio = if matches!(parent, Prior::None) { Priority::Init } else { Priority::Basic(0) };
                self.counter += 1;
                let cmd = TestCmd { id: cmd_id(1, self.counter), parent, prio, data: vec![self.counter as u8] };
                p.add_command(&cmd).map(|_| ()).map_err(|x| e("add_command", &x))
            }
            Op::Seg => {
                let p = self.persp.take().unwrap();
                let head;
                match self.gid {
                    None => {
                        let (gid, st) = self.sp.new_storage(p).map_err(|x| e("new_storage", &x))?;
                        self.gid = Some(gid);
                        let heads = st.get_heads().map_err(|x| e("get_heads", &x))?;
                        let h = heads.iter().next().ok_or("no head after new_storage")?;
                        self.last = Some(Last { seg: h.segment, first_mc: 0, n: h.max_cut.get() as usize + 1 });
                        head = h.location();
                    }
                    Some(gid) => {
                        let st = self.sp.get_storage(gid).map_err(|x| e("get_storage", &x))?;
                        let seg = st.write(p).map_err(|x| e("write", &x))?;
                        let first = seg.shortest_max_cut().get();
                        let longest = seg.longest_max_cut().map_err(|x| e("longest_max_cut", &x))?;
                        let la = LocatedAddress { id: seg.head_id(), segment: seg.index(), max_cut: longest };
                        let facts = seg.facts().map_err(|x| e("segment.facts", &x))?;
                        st.commit_heads(HeadSet::single(la), facts).map_err(|x| e("commit_heads", &x))?;
                        self.last = Some(Last { seg: seg.index(), first_mc: first, n: (longest.get() - first) as usize + 1 });
                        head = la.location();
                    }
                }
                let st = self.sp.get_storage(self.gid.unwrap()).map_err(|x| e("get_storage", &x))?;
                self.persp = Some(st.get_linear_perspective(head).map_err(|x| e("get_linear_perspective(head)", &x))?);
                Ok(())
            }
            Op::ReHead => {
                self.persp = None;
                match self.gid {
                    None => self.persp = Some(self.sp.new_perspective(PolicyId::new(0))),
                    Some(gid) => {
                        let head = self.head_loc();
                        let st = self.sp.get_storage(gid).map_err(|x| e("get_storage", &x))?;
                        self.persp = Some(st.get_linear_perspective(head).map_err(|x| e("get_linear_perspective(head)", &x))?);
                    }
                }
                Ok(())
            }
            Op::ReMid(j) => {
                self.persp = None;
                let l = self.last.as_ref().ok_or("remid before any segment")?;
                let loc = Location::new(l.seg, MaxCut::new(l.first_mc + j as u64));
                let st = self.sp.get_storage(self.gid.unwrap()).map_err(|x| e("get_storage", &x))?;
                self.persp = Some(st.get_linear_perspective(loc).map_err(|x| e("get_linear_perspective(mid)", &x))?);
                Ok(())
            }
        }
    }

    pub fn check_persp(&self, a: &Alphabet, model: &Model, qs: &mut QueryStats) -> Result<(), String> {
        check_queries(self.persp.as_ref().unwrap(), model, &a.names, &a.all_keys, &a.probes, &format!("[{}] in-flight perspective", self.tag), qs)
    }

    /// Everything committed by the last `seg`, at every command of that segment.
    pub fn check_committed(&mut self, a: &Alphabet, snaps: &[Model], qs: &mut QueryStats) -> Result<(), String> {
        let tag = self.tag;
        let Some(l) = self.last.as_ref() else { return Ok(()) };
        if snaps.len() != l.n {
            return Err(format!("[{tag}] written segment holds {} commands, {} were added", l.n, snaps.len()));
        }
        let (segi, first, n) = (l.seg, l.first_mc, l.n);
        let head = self.head_loc();
        let st = self.sp.get_storage(self.gid.unwrap()).map_err(|x| format!("[{tag}] get_storage: {x:?}"))?;
        let seg = st.get_segment(head).map_err(|x| format!("[{tag}] get_segment: {x:?}"))?;
        let fi = seg.facts().map_err(|x| format!("[{tag}] segment.facts: {x:?}"))?;
        check_queries(&fi, &snaps[n - 1], &a.names, &a.all_keys, &a.probes, &format!("[{tag}] written fact index"), qs)?;
        let fc = st.fact_cache().map_err(|x| format!("[{tag}] fact_cache: {x:?}"))?;
        check_queries(&fc, &snaps[n - 1], &a.names, &a.all_keys, &a.probes, &format!("[{tag}] fact cache"), qs)?;
        for j in 0..n {
            let loc = Location::new(segi, MaxCut::new(first + j as u64));
            let fp = st.get_fact_perspective(loc).map_err(|x| format!("[{tag}] get_fact_perspective(cmd {j}): {x:?}"))?;
            check_queries(&fp, &snaps[j], &a.names, &a.all_keys, &a.probes, &format!("[{tag}] get_fact_perspective at command {j} of {n}"), qs)?;
            let lp = st.get_linear_perspective(loc).map_err(|x| format!("[{tag}] get_linear_perspective(cmd {j}): {x:?}"))?;
            check_queries(&lp, &snaps[j], &a.names, &a.all_keys, &a.probes, &format!("[{tag}] get_linear_perspective at command {j} of {n}"), qs)?;
        }
        Ok(())
    }
}

// ---------------------------------------------------------------------------------------------

#[derive(Default)]
pub struct Stats {
    executions: AtomicU64,
    storage_ops: AtomicU64,
    compactions: AtomicU64,
    max_chain_depth: AtomicU64,
    shadowing_deletes: AtomicU64,
    mid_reopens: AtomicU64,
    segs: AtomicU64,
    q_exact_hits: AtomicU64,
    q_exact_misses: AtomicU64,
    q_prefix: AtomicU64,
    q_prefix_results: AtomicU64,
    q_prefix_multi: AtomicU64,
    file_executions: AtomicU64,
}

pub struct Info {
    sim_stored: bool,
    groups: usize,
    pending: usize,
    dirty: bool,
    last_n: usize,
}

struct Cfg<'a> {
    alpha: &'a Alphabet,
    normalise: bool,
    with_file: bool,
    stats: &'a Stats,
    scratch: &'a std::path::Path,
}

/// Replay `hist` on fresh real objects; run the oracle for steps `>= check_from`.
fn exec(cfg: &Cfg<'_>, hist: &[Op], check_from: usize) -> Result<(u128, Info), String> {
    let r = mcx::catch(|| exec_inner(cfg, hist, check_from));
    match r {
        Ok(r) => r,
        Err(p) => Err(format!("panic: {p} at {}", mcx::last_panic_location())),
    }
}

fn exec_inner(cfg: &Cfg<'_>, hist: &[Op], check_from: usize) -> Result<(u128, Info), String> {
    let a = cfg.alpha;
    cfg.stats.executions.fetch_add(1, Relaxed);
    cfg.stats.storage_ops.fetch_add(hist.len() as u64, Relaxed);
    let (capio, reg): (CapIo, CapRegistry) = CapIo::new();
    let mut d_cap = Driver::new(LinearStorageProvider::new(capio), "cap");
    let mut d_mem = Driver::new(MemStorageProvider::default(), "mem");
    let mut d_file = if cfg.with_file {
        cfg.stats.file_executions.fetch_add(1, Relaxed);
        let dir = cfg.scratch.join(format!("t{}", mcx::rayon::current_thread_index().map(|i| i as i64).unwrap_or(-1)));
        let _ = std::fs::remove_dir_all(&dir);
        std::fs::create_dir_all(&dir).map_err(|e| format!("scratch: {e}"))?;
        let fm = FileManager::new(dir.as_path()).map_err(|e| format!("FileManager::new: {e:?}"))?;
        Some(Driver::new(LinearStorageProvider::new(fm), "file"))
    } else {
        None
    };
    let mut sim = Sim::new();
    let mut qs = QueryStats::default();
    let mut result: Result<(), String> = Ok(());
    for (i, op) in hist.iter().enumerate() {
        sim.apply(a, op);
        let items_before = if *op == Op::Seg { cap_items(&reg) } else { 0 };
        let step = (|| -> Result<(), String> {
            d_cap.apply(a, op)?;
            d_mem.apply(a, op)?;
            if let Some(d) = d_file.as_mut() {
                d.apply(a, op)?;
            }
            if *op == Op::Seg {
                cfg.stats.segs.fetch_add(1, Relaxed);
                // a write that appended more than (fact index, segment) compacted the chain
                let appended = cap_items(&reg) - items_before;
                if appended >= 3 {
                    cfg.stats.compactions.fetch_add(1, Relaxed);
                }
            }
            if matches!(op, Op::ReMid(_)) {
                cfg.stats.mid_reopens.fetch_add(1, Relaxed);
            }
            if i >= check_from {
                d_cap.check_persp(a, &sim.cur, &mut qs)?;
                d_mem.check_persp(a, &sim.cur, &mut qs)?;
                if let Some(d) = d_file.as_mut() {
                    d.check_persp(a, &sim.cur, &mut qs)?;
                }
                if *op == Op::Seg {
                    d_cap.check_committed(a, &sim.last_snaps, &mut qs)?;
                    d_mem.check_committed(a, &sim.last_snaps, &mut qs)?;
                    if let Some(d) = d_file.as_mut() {
                        d.check_committed(a, &sim.last_snaps, &mut qs)?;
                    }
                }
            }
            Ok(())
        })();
        if let Err(e) = step {
            result = Err(format!("step {} ({}): {e}", i + 1, a.show(op)));
            break;
        }
    }
    if result.is_ok() && hist.is_empty() {
        result = d_cap.check_persp(a, &sim.cur, &mut qs).and_then(|_| d_mem.check_persp(a, &sim.cur, &mut qs));
    }
    // the file backend leaves a graph file in the per-thread scratch dir: remove it
    if let Some(d) = d_file.as_mut() {
        d.persp = None;
        if let Some(gid) = d.gid {
            let _ = d.sp.remove_storage(gid);
        }
    }
    result?;
    let st = cfg.stats;
    st.q_exact_hits.fetch_add(qs.exact_hits, Relaxed);
    st.q_exact_misses.fetch_add(qs.exact_misses, Relaxed);
    st.q_prefix.fetch_add(qs.prefix_queries, Relaxed);
    st.q_prefix_results.fetch_add(qs.prefix_results, Relaxed);
    st.q_prefix_multi.fetch_add(qs.prefix_multi, Relaxed);
    st.shadowing_deletes.fetch_add(sim.shadowing_deletes, Relaxed);

    // canonical key
    let mut key = String::new();
    if let (Some(gid), Some(l)) = (d_cap.gid, d_cap.last.as_ref()) {
        let reg = reg.lock().unwrap();
        let shared = reg.get(&gid).ok_or("captured graph missing")?;
        let items = shared.items.lock().unwrap();
        key.push_str(&store::shape_segment(&items, l.seg.get(), cfg.normalise));
        let depth = store::fact_index_depth(&items, store::segment_facts_offset(&items, l.seg.get()));
        st.max_chain_depth.fetch_max(depth, Relaxed);
    } else {
        key.push_str("UNBORN");
    }
    key.push_str(&format!(" open={:?} groups=[", sim.open_at));
    for g in &sim.groups {
        key.push_str(&norm_group(g, cfg.normalise));
        key.push('|');
    }
    key.push_str(&format!("] pending={} ", norm_group(&sim.pending, cfg.normalise)));
    key.push_str(&format!("model={:?} last={:?} snaps={:?}", sim.cur, sim.last_snaps, sim.snaps));
    if !cfg.normalise {
        // exact space: nothing but identical histories may merge
        key = format!("{hist:?}");
    }
    Ok((hash128(&key), Info { sim_stored: sim.stored, groups: sim.groups.len(), pending: sim.pending.len(), dirty: sim.dirty(), last_n: sim.last_snaps.len() }))
}

fn cap_items(reg: &CapRegistry) -> usize {
    reg.lock().unwrap().values().map(|s| s.items.lock().unwrap().len()).sum()
}

fn enabled(a: &Alphabet, info: &Info) -> Vec<Op> {
    let mut v = a.write_ops();
    v.push(Op::Cmd);
    if info.groups >= 1 && info.pending == 0 {
        v.push(Op::Seg);
    }
    if info.dirty {
        v.push(Op::ReHead);
    }
    if info.sim_stored {
        for j in 0..info.last_n.saturating_sub(1) {
            v.push(Op::ReMid(j as u8));
        }
    }
    v
}

/// Preamble families (indices into the *full* key alphabet, name n0).
fn preamble(family: char, p: usize) -> Vec<Op> {
    let mut h = Vec::new();
    for i in 0..p {
        let op = match family {
            // A: one insert per segment, cycling through the keys
            'A' => Op::Ins(0, (i % 8) as u8, 0),
            // C: two commands per segment (so a mid-segment reopen is enabled at once)
            'C' => {
                h.extend([Op::Ins(0, (i % 8) as u8, 0), Op::Cmd, Op::Del(0, ((i + 6) % 8) as u8), Op::Ins(1, (i % 8) as u8, 1), Op::Cmd, Op::Seg]);
                continue;
            }
            // B: value, newer value, tombstone for the same key, then the next key
            _ => match i % 3 {
                0 => Op::Ins(0, ((i / 3) % 8) as u8, 0),
                1 => Op::Ins(0, ((i / 3) % 8) as u8, 1),
                _ => Op::Del(0, ((i / 3) % 8) as u8),
            },
        };
        h.extend([op, Op::Cmd, Op::Seg]);
    }
    h
}

struct SpaceResult {
    name: String,
    states: u64,
    transitions: u64,
    per_depth: Vec<u64>,
    cap_hit: bool,
    completed_depth: usize,
}

#[allow(clippy::too_many_arguments)]
fn run_space(rep: &mut Report, flavour: &str, name: &str, alpha: &Alphabet, starts: Vec<Vec<Op>>, depth: usize, normalise: bool, with_file: bool, stats: &Stats, deadline: &mcx::Deadline, scratch: &std::path::Path) -> SpaceResult {
    let cfg = Cfg { alpha, normalise, with_file, stats, scratch };
    let nstarts = starts.len();
    let start_set: std::collections::BTreeSet<Vec<Op>> = starts.iter().cloned().collect();
    let exec_f = |h: &[Op]| {
        // start histories are checked at every step; extensions only at their last step
        let from = if start_set.contains(h) { 0 } else { h.len() - 1 };
        exec(&cfg, h, from)
    };
    let en = |i: &Info| enabled(alpha, i);
    let mut samples = 0;
    let r = bfs(&starts, depth, deadline, &exec_f, &en, &mut |ev| match ev {
        Event::New { hist, depth: d, .. } => {
            if samples < 1 && d == depth.min(4) {
                samples += 1;
                rep.sample(json!({"space": name, "flavour": flavour, "history": alpha.show_hist(hist)}));
            }
        }
        Event::Violation { hist, text } => {
            rep.outcome("violation", 1);
            rep.violation(
                format!("{flavour}: {}", alpha.show_hist(hist)),
                text,
                json!({"flavour": flavour, "ops": hist.iter().map(|o| alpha.op_json(o)).collect::<Vec<_>>()}),
            );
        }
    });
    let _ = nstarts;
    SpaceResult { name: name.to_string(), states: r.states, transitions: r.transitions, per_depth: r.new_per_depth, cap_hit: r.cap_hit, completed_depth: r.completed_depth }
}

pub fn run(args: &Args) {
    mcx::quiet_panics();
    let flavour = args.extra.get("flavour").cloned().unwrap_or_else(|| "P".into());
    let small = cfg!(aranya_core_verif);
    if (flavour == "S") != small {
        mcx::machinery_error(&format!("flavour {flavour} requested but the binary was built with aranya_core_verif={small}"));
    }
    if let Some(p) = &args.replay {
        replay(args, &flavour, p);
    }
    let mut rep = Report::new(args, Level::ModelChecking);
    let stats = Stats::default();
    let quick = args.tier == mcx::Tier::Quick;
    let deadline = mcx::Deadline::after_secs(if quick { 40 } else { 900 });
    let full = Alphabet::full();
    let scratch = mcx::Scratch::new("c12");
    let mut results: Vec<SpaceResult> = Vec::new();

    let limit = if small { 3 } else { 16 };
    if small {
        // exact space: full alphabet after preambles crossing the 3-level limit twice
        let mut starts = vec![vec![]];
        for p in 1..=7 {
            starts.push(preamble('A', p));
            starts.push(preamble('B', p));
            if p <= 4 {
                starts.push(preamble('C', p));
            }
        }
        let d = if quick { 2 } else { 3 };
        results.push(run_space(&mut rep, &flavour, "exact/full-alphabet", &full, starts, d, false, false, &stats, &deadline, scratch.path()));
        // exact space on the real file manager too (shallower)
        let mut starts = vec![vec![]];
        for p in [3, 4, 6] {
            starts.push(preamble('B', p));
        }
        let d = if quick { 1 } else { 2 };
        results.push(run_space(&mut rep, &flavour, "exact/full-alphabet+FileManager", &full, starts, d, false, true, &stats, &deadline, scratch.path()));
        // deep space: merged BFS
        let deep = Alphabet::restricted(1, &[0, 2, 3], 2);
        let d = if quick { 6 } else { 8 };
        results.push(run_space(&mut rep, &flavour, "deep/1 name x keys {[],[a],[a,\"\"]} x 2 values", &deep, vec![vec![], preamble('B', 2), preamble('B', 3)], d, true, false, &stats, &deadline, scratch.path()));
        let deep2 = Alphabet::restricted(2, &[2, 4, 5, 6], 1);
        let d = if quick { 5 } else { 6 };
        results.push(run_space(&mut rep, &flavour, "deep/2 names x keys {[a],[a,a],[ab],[a,ab]} x 1 value", &deep2, vec![vec![], preamble('A', 3)], d, true, false, &stats, &deadline, scratch.path()));
    } else {
        // flavour P: every sequence of length ≤ 2 after a preamble of 0..18 segments, and of length
        // ≤ 3 after the preambles around the 16-level limit
        let mut starts = Vec::new();
        let mut near = Vec::new();
        for p in 0..=18 {
            starts.push(preamble('A', p));
            if p > 0 {
                starts.push(preamble('B', p));
            }
            if [1, 2, 15, 16, 17].contains(&p) {
                starts.push(preamble('C', p));
            }
            if (15..=17).contains(&p) {
                near.extend([preamble('A', p), preamble('B', p), preamble('C', p)]);
            }
        }
        results.push(run_space(&mut rep, &flavour, "exact/full-alphabet after 0..18 segments", &full, starts, 2, false, false, &stats, &deadline, scratch.path()));
        if !quick {
            results.push(run_space(&mut rep, &flavour, "exact/full-alphabet after 15..17 segments", &full, near, 3, false, false, &stats, &deadline, scratch.path()));
        }
        let starts = vec![preamble('B', 15), preamble('B', 16), preamble('B', 17)];
        results.push(run_space(&mut rep, &flavour, "exact/full-alphabet+FileManager around the 16-level limit", &full, starts, if quick { 1 } else { 2 }, false, true, &stats, &deadline, scratch.path()));
    }

    let mut states = 0;
    let mut transitions = 0;
    let mut cap = false;
    let mut spaces = Vec::new();
    for r in &results {
        states += r.states;
        transitions += r.transitions;
        cap |= r.cap_hit;
        spaces.push(json!({"space": r.name, "states": r.states, "transitions": r.transitions, "new_states_per_depth": r.per_depth, "completed_depth": r.completed_depth, "cap_hit": r.cap_hit}));
    }
    rep.count("states", states);
    rep.count("transitions", transitions);
    rep.count("traces_validated_against_impl", stats.executions.load(Relaxed));
    rep.count("storage_operations_replayed", stats.storage_ops.load(Relaxed));
    rep.set(&format!("spaces_{flavour}"), Value::Array(spaces));
    rep.set("exhaustive", !cap);
    if cap {
        rep.set("cap_hit", true);
    }
    rep.set(&format!("bounds_{flavour}"), json!({"fact_index_depth_limit": limit, "alphabet": "8 keys {[],[\"\"],[a],[a,\"\"],[a,a],[ab],[a,ab],[ab,a]} x 2 names x {v0,v1,delete} + cmd, seg, rehead, remid(j)", "probes": "14 prefixes of length 0..3 (every key, i.e. full-length prefixes too, plus prefixes matching nothing)"}));
    for (k, v) in [
        ("segments_written", stats.segs.load(Relaxed)),
        ("compactions", stats.compactions.load(Relaxed)),
        ("deletes_shadowing_committed_fact", stats.shadowing_deletes.load(Relaxed)),
        ("mid_segment_reopens", stats.mid_reopens.load(Relaxed)),
        ("exact_query_hits", stats.q_exact_hits.load(Relaxed)),
        ("exact_query_misses", stats.q_exact_misses.load(Relaxed)),
        ("prefix_queries", stats.q_prefix.load(Relaxed)),
        ("prefix_queries_with_several_results", stats.q_prefix_multi.load(Relaxed)),
        ("file_manager_executions", stats.file_executions.load(Relaxed)),
    ] {
        rep.count(k, v);
        if rep.violations().is_empty() {
            rep.require_nonzero(k);
        }
        rep.outcome(k, v);
    }
    drop(scratch);
    rep.set(&format!("max_fact_index_depth_seen_{flavour}"), stats.max_chain_depth.load(Relaxed));
    if stats.max_chain_depth.load(Relaxed) != limit && rep.violations().is_empty() {
        mcx::machinery_error(&format!("deepest fact index chain seen is {} but the limit of this flavour is {limit}", stats.max_chain_depth.load(Relaxed)));
    }
    rep.assume("deep spaces only: an update list is consumed solely by a left fold into an ordered map keyed by (name,key), so lists with the same last write per key are interchangeable (the exact spaces do not use this)");
    rep.assume("facts do not depend on command ids, absolute max cuts or skip lists (these are not part of the canonical key)");
    rep.finish()
}

fn replay(args: &Args, flavour: &str, path: &std::path::Path) -> ! {
    let txt = std::fs::read_to_string(path).unwrap_or_else(|e| mcx::machinery_error(&format!("replay file: {e}")));
    let v: Value = mcx::serde_json::from_str(&txt).unwrap_or_else(|e| mcx::machinery_error(&format!("replay file: {e}")));
    let r = &v["replay"];
    if r["flavour"].as_str() != Some(flavour) {
        println!("replay: recorded for flavour {}, this is {flavour}: skipped", r["flavour"]);
        std::process::exit(0);
    }
    let a = Alphabet::full();
    let mut hist = Vec::new();
    for o in r["ops"].as_array().unwrap_or_else(|| mcx::machinery_error("replay: ops")) {
        let arr = o.as_array().unwrap_or_else(|| mcx::machinery_error("replay: op"));
        let key_idx = |v: &Value| -> u8 {
            let want: K = v.as_array().unwrap().iter().map(|p| p.as_str().unwrap().as_bytes().to_vec()).collect();
            a.keys.iter().position(|k| *k == want).unwrap_or_else(|| mcx::machinery_error("replay: key not in alphabet")) as u8
        };
        hist.push(match arr[0].as_str().unwrap_or("") {
            "ins" => Op::Ins(arr[1].as_u64().unwrap() as u8, key_idx(&arr[2]), arr[3].as_u64().unwrap() as u8),
            "del" => Op::Del(arr[1].as_u64().unwrap() as u8, key_idx(&arr[2])),
            "cmd" => Op::Cmd,
            "seg" => Op::Seg,
            "rehead" => Op::ReHead,
            "remid" => Op::ReMid(arr[1].as_u64().unwrap() as u8),
            _ => mcx::machinery_error("replay: unknown op"),
        });
    }
    let stats = Stats::default();
    let scratch = mcx::Scratch::new("c12replay");
    let cfg = Cfg { alpha: &a, normalise: false, with_file: true, stats: &stats, scratch: scratch.path() };
    println!("replaying: {}", a.show_hist(&hist));
    let r = exec(&cfg, &hist, 0);
    drop(scratch);
    match r {
        Ok(_) => {
            println!("replay: no violation");
            std::process::exit(0)
        }
        Err(e) => {
            println!("VIOLATION property={} replay={}\n  {e}", args.prop, path.display());
            std::process::exit(1)
        }
    }
}
