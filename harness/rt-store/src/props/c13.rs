//! C13 — reverting to a checkpoint is exact (graph perspectives).
//!
//! Subject: `impl Revertable for LinearPerspective` (storage/linear/mod.rs), through the public
//! `Perspective` / `Revertable` / `Query` / `QueryMut` traits, on perspectives obtained from the
//! real storage: unrooted (`new_perspective`), rooted at the head of a stored segment (prior =
//! fact index chain), rooted mid-segment (prior = rebuilt fact perspective with a tombstone over
//! a fact index) and rooted mid-way in the init segment (rebuilt perspective over nothing) — on
//! `MemStorageProvider`, the harness's `CapIo` manager and the libc `FileManager` in lock-step.
//!
//! Operations: ins(key,val) | del(key) | cmd (add_command) | an add_command that must be refused
//! (parent with a wrong id / with a wrong max cut: `Err`, perspective unchanged) | checkpoint | revert(i) for every
//! live checkpoint i (a revert discards the checkpoints taken after i; at most 3 live).
//!
//! Oracle (statement: "restores exactly the commands and facts visible when the checkpoint was
//! taken, discarding every later write"): the harness keeps a snapshot (fact map, command list,
//! unattached writes) per checkpoint; after *every* operation `query` for every key,
//! `query_prefix` for every probe, `head_address` and `includes(id)` for every id ever used equal
//! the model; additionally every reached state is finally written as a segment (the object is a
//! throw-away replay) and the stored fact index plus `get_fact_perspective` at each of its
//! commands must equal the model's per-command snapshots — this exposes writes that survive a
//! revert invisibly (stale pending updates) and then leak into the next command.
//!
//! Canonical key: the derived `Debug` string of the real `LinearPerspective` (prints every field:
//! prior, parents, fact overlay with its prior, commands with their update lists, pending
//! updates, max cut) plus the harness's checkpoint stack; command ids are a function of the
//! command's position, so equal strings mean identical objects.
//!
//! The quantifier ("all interleavings of writes, deletes, added commands, checkpoints and
//! reverts") includes checkpoints taken while writes are pending (not yet attached to a
//! command).  Violations of that class are reported under ONE stable key (`PENDING_KEY`), every
//! other violation under its exact minimal history.

use std::sync::atomic::{AtomicU64, Ordering::Relaxed};

use aranya_runtime::{
    storage::linear::{libc::FileManager, testing::MemStorageProvider, LinearStorageProvider},
    Address, Checkpoint, CmdId, HeadSet, LocatedAddress, Location, MaxCut, Perspective, Prior, Priority, QueryMut, Revertable, Segment, Storage, StorageProvider,
};
use mcx::{json, Args, Level, Report, Value};

use crate::{
    bfs::{bfs, Event},
    props::c12::{self, Alphabet, Driver, Sim},
    store::{check_queries, cmd_id, hash128, key_alphabet, prefix_probes, show_key, to_keys, CapIo, Model, QueryStats, TestCmd, K},
};

pub const PENDING_KEY: &str = "linear: revert to a checkpoint that was taken while writes were pending (not yet attached to a command) loses those writes; minimal: ins(n0,[\"a\"],v0); checkpoint; revert(0)";

#[derive(Clone, Copy, Debug, PartialEq, Eq, PartialOrd, Ord)]
enum Op {
    Ins(u8, u8),
    Del(u8),
    Cmd,
    Ckpt,
    Revert(u8),
    /// an add_command that must be refused: 0 = wrong parent id, 1 = wrong parent max cut
    Refused(u8),
}

#[derive(Clone, Copy, Debug, PartialEq, Eq, PartialOrd, Ord)]
enum Base {
    Fresh,
    Head,
    Mid,
    MidInit,
}

const BASES: [Base; 4] = [Base::Fresh, Base::Head, Base::Mid, Base::MidInit];

struct Space {
    name: String,
    keys: Vec<K>,
    all_keys: Vec<K>,
    probes: Vec<K>,
    vals: u8,
    max_ckpts: usize,
}

impl Space {
    fn show(&self, op: &Op) -> String {
        match *op {
            Op::Ins(k, v) => format!("ins(n0,{},v{v})", show_key(&self.keys[k as usize])),
            Op::Del(k) => format!("del(n0,{})", show_key(&self.keys[k as usize])),
            Op::Cmd => "cmd".into(),
            Op::Ckpt => "checkpoint".into(),
            Op::Revert(i) => format!("revert({i})"),
            Op::Refused(0) => "add_command(wrong parent id: refused)".into(),
            Op::Refused(_) => "add_command(wrong parent max cut: refused)".into(),
        }
    }
    fn show_hist(&self, base: Base, h: &[Op]) -> String {
        format!("linear/{base:?}: {}", h.iter().map(|o| self.show(o)).collect::<Vec<_>>().join("; "))
    }
    fn op_json(&self, op: &Op) -> Value {
        let key = |k: u8| self.keys[k as usize].iter().map(|p| String::from_utf8_lossy(p).to_string()).collect::<Vec<_>>();
        match *op {
            Op::Ins(k, v) => json!(["ins", key(k), v]),
            Op::Del(k) => json!(["del", key(k)]),
            Op::Cmd => json!(["cmd"]),
            Op::Ckpt => json!(["checkpoint"]),
            Op::Revert(i) => json!(["revert", i]),
            Op::Refused(w) => json!(["refused", w]),
        }
    }
}

/// The C12-driver history that builds the stored graph a base perspective is rooted in.
fn base_history(base: Base) -> Vec<c12::Op> {
    use c12::Op as S;
    // full key alphabet indices: 2=["a"], 4=["a","a"], 5=["ab"]
    let seg0 = vec![S::Ins(0, 2, 0), S::Cmd, S::Ins(0, 4, 0), S::Cmd, S::Seg];
    let seg1 = vec![S::Del(0, 2), S::Ins(0, 5, 0), S::Cmd, S::Ins(0, 2, 1), S::Cmd, S::Seg];
    match base {
        Base::Fresh => vec![],
        Base::Head => [seg0, seg1].concat(),
        Base::Mid => [seg0, seg1, vec![S::ReMid(0)]].concat(),
        Base::MidInit => [seg0, vec![S::ReMid(0)]].concat(),
    }
}

#[derive(Clone)]
struct Ck {
    index: usize,
    cur: Model,
    n_cmds: usize,
    pending: Vec<(K, Option<u8>)>,
    tainted: bool,
}

/// Harness model of the perspective under test.
struct M {
    cur: Model,
    snaps: Vec<Model>,
    pending: Vec<(K, Option<u8>)>,
    ckpts: Vec<Ck>,
    base_parent: Prior<Address>,
    base_mc: u64,
    ids_used: usize,
    reverted_tainted: bool,
}

impl M {
    fn head(&self) -> Prior<Address> {
        if self.snaps.is_empty() {
            self.base_parent
        } else {
            let pos = self.snaps.len() - 1;
            Prior::Single(Address { id: pos_id(self.base_mc, pos), max_cut: MaxCut::new(self.base_mc + pos as u64) })
        }
    }
}

fn pos_id(base_mc: u64, pos: usize) -> CmdId {
    cmd_id(2, base_mc + pos as u64)
}

fn val(v: u8) -> Vec<u8> {
    format!("v{v}").into_bytes()
}

/// One real perspective under test with its provider.
struct Subject<SP: StorageProvider> {
    d: Driver<SP>,
    ckpt_indices: Vec<(usize, usize)>,
}

impl<SP: StorageProvider> Subject<SP> {
    fn new(sp: SP, tag: &'static str, base: Base, full: &Alphabet) -> Result<Self, String> {
        let mut d = Driver::new(sp, tag);
        for op in base_history(base) {
            d.apply(full, &op)?;
        }
        Ok(Subject { d, ckpt_indices: vec![] })
    }

    fn apply(&mut self, sp: &Space, m: &M, op: &Op) -> Result<(), String> {
        let tag = self.d.tag;
        let p = self.d.persp.as_mut().unwrap();
        match *op {
            Op::Ins(k, v) => p.insert("n0".into(), to_keys(&sp.keys[k as usize]), val(v).into_boxed_slice()).map_err(|e| format!("[{tag}] insert: {e:?}")),
            Op::Del(k) => p.delete("n0".into(), to_keys(&sp.keys[k as usize])).map_err(|e| format!("[{tag}] delete: {e:?}")),
            Op::Cmd => {
                // `m` is the model *after* the operation: the new command sits at the last position
                let pos = m.snaps.len() - 1;
                let parent = p.head_address().map_err(|e| format!("[{tag}] head_address: {e:?}"))?;
                let prio = if matches!(parent, Prior::None) { Priority::Init } else { Priority::Basic(0) };
                let cmd = TestCmd { id: pos_id(m.base_mc, pos), parent, prio, data: vec![pos as u8] };
                let n = p.add_command(&cmd).map_err(|e| format!("[{tag}] add_command: {e:?}"))?;
                if n != pos + 1 {
                    return Err(format!("[{tag}] add_command returned {n}, the perspective should now hold {} commands", pos + 1));
                }
                Ok(())
            }
            Op::Ckpt => {
                let c = p.checkpoint();
                self.ckpt_indices.push((c.index, c.pending));
                Ok(())
            }
            Op::Refused(why) => {
                // a command whose parent is not the head of the perspective must be refused and
                // must leave the perspective exactly as it was
                let head = p.head_address().map_err(|e| format!("[{tag}] head_address: {e:?}"))?;
                let bogus = match (head, why) {
                    (Prior::Single(a), 0) => Prior::Single(Address { id: cmd_id(9, 1), max_cut: a.max_cut }),
                    (Prior::Single(a), _) => Prior::Single(Address { id: a.id, max_cut: MaxCut::new(a.max_cut.get() + 1) }),
                    (_, 0) => Prior::Single(Address { id: cmd_id(9, 1), max_cut: MaxCut::new(0) }),
                    (_, _) => Prior::Single(Address { id: cmd_id(9, 2), max_cut: MaxCut::new(1) }),
                };
                let cmd = TestCmd { id: cmd_id(9, 7), parent: bogus, prio: Priority::Basic(0), data: vec![] };
                match p.add_command(&cmd) {
                    Err(_) => Ok(()),
                    Ok(n) => Err(format!("[{tag}] add_command with a parent that is not the head was accepted (returned {n})")),
                }
            }
            Op::Revert(i) => {
                let (index, pending) = self.ckpt_indices[i as usize];
                self.ckpt_indices.truncate(i as usize + 1);
                p.revert(Checkpoint { index, pending }).map_err(|e| format!("[{tag}] revert: {e:?}"))
            }
        }
    }

    fn check(&self, sp: &Space, m: &M, qs: &mut QueryStats) -> Result<(), String> {
        let tag = self.d.tag;
        let p = self.d.persp.as_ref().unwrap();
        check_queries(p, &m.cur, &["n0".to_string()], &sp.all_keys, &sp.probes, &format!("[{tag}] perspective"), qs)?;
        let head = p.head_address().map_err(|e| format!("[{tag}] head_address: {e:?}"))?;
        if head != m.head() {
            return Err(format!("[{tag}] head_address = {head:?}, model has {:?} ({} commands)", m.head(), m.snaps.len()));
        }
        for pos in 0..m.ids_used {
            let want = pos < m.snaps.len();
            if p.includes(pos_id(m.base_mc, pos)) != want {
                return Err(format!("[{tag}] includes(command #{pos}) = {}, model holds {} commands", !want, m.snaps.len()));
            }
        }
        Ok(())
    }

    /// Destructive end observation: write the perspective as a segment and compare what was
    /// stored, command by command, with the model.
    fn write_and_check(&mut self, sp: &Space, m: &M, qs: &mut QueryStats) -> Result<bool, String> {
        let tag = self.d.tag;
        // A segment is written at a command boundary: attach unattached writes to one more
        // command first (and make sure there is at least one command).
        let mut ext;
        let m = if m.snaps.is_empty() || !m.pending.is_empty() {
            ext = M { cur: m.cur.clone(), snaps: m.snaps.clone(), pending: vec![], ckpts: vec![], base_parent: m.base_parent, base_mc: m.base_mc, ids_used: m.ids_used, reverted_tainted: m.reverted_tainted };
            ext.snaps.push(ext.cur.clone());
            self.apply(sp, &ext, &Op::Cmd)?;
            &ext
        } else {
            m
        };
        let p = self.d.persp.take().unwrap();
        let names = ["n0".to_string()];
        let n = m.snaps.len();
        let (segi, first);
        match self.d.gid {
            None => {
                let (gid, st) = self.d.sp.new_storage(p).map_err(|e| format!("[{tag}] new_storage of the reverted perspective: {e:?}"))?;
                self.d.gid = Some(gid);
                let h = st.get_heads().map_err(|e| format!("[{tag}] get_heads: {e:?}"))?.iter().next().ok_or("no head")?;
                segi = h.segment;
                first = 0u64;
                if h.max_cut.get() as usize + 1 != n {
                    return Err(format!("[{tag}] stored init segment holds {} commands, model {n}", h.max_cut.get() + 1));
                }
            }
            Some(gid) => {
                let st = self.d.sp.get_storage(gid).map_err(|e| format!("[{tag}] get_storage: {e:?}"))?;
                let seg = st.write(p).map_err(|e| format!("[{tag}] write of the reverted perspective: {e:?}"))?;
                segi = seg.index();
                first = seg.shortest_max_cut().get();
                let longest = seg.longest_max_cut().map_err(|e| format!("[{tag}] {e:?}"))?;
                if (longest.get() - first) as usize + 1 != n {
                    return Err(format!("[{tag}] stored segment holds {} commands, model {n}", longest.get() - first + 1));
                }
                if seg.head_id() != pos_id(m.base_mc, n - 1) || first != m.base_mc {
                    return Err(format!("[{tag}] stored segment head/first max cut differ from the model"));
                }
                let la = LocatedAddress { id: seg.head_id(), segment: segi, max_cut: longest };
                let facts = seg.facts().map_err(|e| format!("[{tag}] {e:?}"))?;
                st.commit_heads(HeadSet::single(la), facts).map_err(|e| format!("[{tag}] commit_heads: {e:?}"))?;
            }
        }
        let st = self.d.sp.get_storage(self.d.gid.unwrap()).map_err(|e| format!("[{tag}] get_storage: {e:?}"))?;
        let head = Location::new(segi, MaxCut::new(first + n as u64 - 1));
        let seg = st.get_segment(head).map_err(|e| format!("[{tag}] get_segment: {e:?}"))?;
        let fi = seg.facts().map_err(|e| format!("[{tag}] {e:?}"))?;
        // unattached writes are part of the written index (they were visible in the perspective)
        check_queries(&fi, &m.cur, &names, &sp.all_keys, &sp.probes, &format!("[{tag}] fact index written from the perspective"), qs)?;
        for j in 0..n {
            let fp = st.get_fact_perspective(Location::new(segi, MaxCut::new(first + j as u64))).map_err(|e| format!("[{tag}] get_fact_perspective: {e:?}"))?;
            check_queries(&fp, &m.snaps[j], &names, &sp.all_keys, &sp.probes, &format!("[{tag}] stored facts at command {j} of {n} written from the perspective"), qs)?;
        }
        {
            let fp = st.get_linear_perspective(head).map_err(|e| format!("[{tag}] get_linear_perspective: {e:?}"))?;
            check_queries(&fp, &m.snaps[n - 1], &names, &sp.all_keys, &sp.probes, &format!("[{tag}] stored facts at the last command written from the perspective"), qs)?;
        }
        Ok(true)
    }
}

#[derive(Default)]
struct Stats {
    executions: AtomicU64,
    ops: AtomicU64,
    reverts: AtomicU64,
    reverts_dropping_commands: AtomicU64,
    reverts_dropping_writes_only: AtomicU64,
    reverts_noop: AtomicU64,
    reverts_to_tainted: AtomicU64,
    end_writes: AtomicU64,
    refused: AtomicU64,
    refused_with_pending_writes: AtomicU64,
    q_hits: AtomicU64,
    q_prefix: AtomicU64,
}

struct Info {
    ckpts: usize,
    halted: bool,
}

struct Cfg<'a> {
    sp: &'a Space,
    base: Base,
    full: &'a Alphabet,
    stats: &'a Stats,
    scratch: &'a std::path::Path,
    with_file: bool,
}

enum Fail {
    Pending(String),
    Other(String),
}

fn exec(cfg: &Cfg<'_>, hist: &[Op]) -> Result<(u128, Info), Fail> {
    match mcx::catch(|| exec_inner(cfg, hist)) {
        Ok(r) => r,
        Err(p) => Err(Fail::Other(format!("panic: {p} at {}", mcx::last_panic_location()))),
    }
}

fn exec_inner(cfg: &Cfg<'_>, hist: &[Op]) -> Result<(u128, Info), Fail> {
    let sp = cfg.sp;
    cfg.stats.executions.fetch_add(1, Relaxed);
    cfg.stats.ops.fetch_add(hist.len() as u64, Relaxed);
    let other = |e: String| Fail::Other(e);
    let (capio, _reg) = CapIo::new();
    let mut s_cap = Subject::new(LinearStorageProvider::new(capio), "cap", cfg.base, cfg.full).map_err(other)?;
    let mut s_mem = Subject::new(MemStorageProvider::default(), "mem", cfg.base, cfg.full).map_err(other)?;
    let mut s_file = if cfg.with_file {
        let dir = cfg.scratch.join(format!("t{}", mcx::rayon::current_thread_index().map(|i| i as i64).unwrap_or(-1)));
        let _ = std::fs::remove_dir_all(&dir);
        std::fs::create_dir_all(&dir).map_err(|e| Fail::Other(format!("scratch: {e}")))?;
        let fm = FileManager::new(dir.as_path()).map_err(|e| Fail::Other(format!("FileManager::new: {e:?}")))?;
        Some(Subject::new(LinearStorageProvider::new(fm), "file", cfg.base, cfg.full).map_err(other)?)
    } else {
        None
    };
    // base model
    let mut sim = Sim::new();
    for op in base_history(cfg.base) {
        sim.apply(cfg.full, &op);
    }
    let base_parent = s_cap.d.persp.as_ref().unwrap().head_address().map_err(|e| Fail::Other(format!("{e:?}")))?;
    let base_mc = match base_parent {
        Prior::None => 0,
        Prior::Single(a) => a.max_cut.get() + 1,
        Prior::Merge(..) => unreachable!(),
    };
    let mut m = M { cur: sim.cur.clone(), snaps: vec![], pending: vec![], ckpts: vec![], base_parent, base_mc, ids_used: 0, reverted_tainted: false };
    let mut qs = QueryStats::default();
    let mut failure: Option<(usize, String)> = None;
    for (i, op) in hist.iter().enumerate() {
        // model
        match *op {
            Op::Ins(k, v) => {
                m.cur.insert(("n0".into(), sp.keys[k as usize].clone()), val(v));
                m.pending.push((sp.keys[k as usize].clone(), Some(v)));
            }
            Op::Del(k) => {
                m.cur.remove(&("n0".to_string(), sp.keys[k as usize].clone()));
                m.pending.push((sp.keys[k as usize].clone(), None));
            }
            Op::Cmd => {
                m.snaps.push(m.cur.clone());
                m.pending.clear();
                m.ids_used = m.ids_used.max(m.snaps.len());
            }
            Op::Ckpt => m.ckpts.push(Ck { index: m.ckpts.len(), cur: m.cur.clone(), n_cmds: m.snaps.len(), pending: m.pending.clone(), tainted: !m.pending.is_empty() }),
            Op::Refused(_) => {
                if i + 1 == hist.len() {
                    cfg.stats.refused.fetch_add(1, Relaxed);
                    if !m.pending.is_empty() {
                        cfg.stats.refused_with_pending_writes.fetch_add(1, Relaxed);
                    }
                }
            }
            Op::Revert(j) => {
                let c = m.ckpts[j as usize].clone();
                if i + 1 == hist.len() {
                    cfg.stats.reverts.fetch_add(1, Relaxed);
                    if c.tainted {
                        cfg.stats.reverts_to_tainted.fetch_add(1, Relaxed);
                    } else if c.n_cmds < m.snaps.len() {
                        cfg.stats.reverts_dropping_commands.fetch_add(1, Relaxed);
                    } else if m.pending.len() > c.pending.len() {
                        cfg.stats.reverts_dropping_writes_only.fetch_add(1, Relaxed);
                    } else {
                        cfg.stats.reverts_noop.fetch_add(1, Relaxed);
                    }
                }
                m.cur = c.cur;
                m.snaps.truncate(c.n_cmds);
                m.pending = c.pending;
                m.ckpts.truncate(c.index + 1);
                m.reverted_tainted |= c.tainted;
            }
        }
        let last = i + 1 == hist.len();
        let r = (|| -> Result<(), String> {
            s_cap.apply(sp, &m, op)?;
            s_mem.apply(sp, &m, op)?;
            if let Some(s) = s_file.as_mut() {
                s.apply(sp, &m, op)?;
            }
            if last {
                s_cap.check(sp, &m, &mut qs)?;
                s_mem.check(sp, &m, &mut qs)?;
                if let Some(s) = s_file.as_mut() {
                    s.check(sp, &m, &mut qs)?;
                }
            }
            Ok(())
        })();
        if let Err(e) = r {
            failure = Some((i, e));
            break;
        }
    }
    let cleanup = |s_file: &mut Option<Subject<LinearStorageProvider<FileManager>>>| {
        if let Some(s) = s_file.as_mut() {
            s.d.persp = None;
            if let Some(gid) = s.d.gid {
                let _ = s.d.sp.remove_storage(gid);
            }
        }
    };
    if let Some((i, e)) = failure {
        cleanup(&mut s_file);
        let text = format!("step {} ({}): {e}", i + 1, sp.show(&hist[i]));
        return Err(if m.reverted_tainted { Fail::Pending(text) } else { Fail::Other(text) });
    }
    if hist.is_empty() {
        s_cap.check(sp, &m, &mut qs).map_err(Fail::Other)?;
        s_mem.check(sp, &m, &mut qs).map_err(Fail::Other)?;
    }
    // canonical key from the real object, before the destructive end observation
    let mut key = format!("{:?}|{:?}", cfg.base, s_cap.d.persp.as_ref().unwrap());
    for c in &m.ckpts {
        key.push_str(&format!("|ck n={} tainted={} cur={:?} pending={:?}", c.n_cmds, c.tainted, c.cur, c.pending));
    }
    key.push_str(&format!("|model {:?} {:?} {:?}", m.cur, m.snaps, m.pending));
    let r = (|| -> Result<(), String> {
        let w = s_cap.write_and_check(sp, &m, &mut qs)?;
        s_mem.write_and_check(sp, &m, &mut qs)?;
        if let Some(s) = s_file.as_mut() {
            s.write_and_check(sp, &m, &mut qs)?;
        }
        if w {
            cfg.stats.end_writes.fetch_add(1, Relaxed);
        }
        Ok(())
    })();
    cleanup(&mut s_file);
    if let Err(e) = r {
        let text = format!("after the history, writing the perspective as a segment: {e}");
        return Err(if m.reverted_tainted { Fail::Pending(text) } else { Fail::Other(text) });
    }
    cfg.stats.q_hits.fetch_add(qs.exact_hits, Relaxed);
    cfg.stats.q_prefix.fetch_add(qs.prefix_queries, Relaxed);
    Ok((hash128(&key), Info { ckpts: m.ckpts.len(), halted: false }))
}

fn enabled(sp: &Space, info: &Info) -> Vec<Op> {
    let mut v = Vec::new();
    if info.halted {
        return v;
    }
    for k in 0..sp.keys.len() as u8 {
        for val in 0..sp.vals {
            v.push(Op::Ins(k, val));
        }
        v.push(Op::Del(k));
    }
    v.push(Op::Cmd);
    v.push(Op::Refused(0));
    v.push(Op::Refused(1));
    if info.ckpts < sp.max_ckpts {
        v.push(Op::Ckpt);
    }
    for i in 0..info.ckpts {
        v.push(Op::Revert(i as u8));
    }
    v
}

pub fn run(args: &Args) {
    mcx::quiet_panics();
    let flavour = args.extra.get("flavour").cloned().unwrap_or_else(|| "P".into());
    let full = Alphabet::full();
    let all = key_alphabet();
    let quick = args.tier == mcx::Tier::Quick;
    // ["a"] and ["ab"] are held by the stored bases, [""] is not
    let space = Space {
        name: "keys {[a],[ab],[\"\"]} x {v0,v1,delete}".into(),
        keys: vec![all[2].clone(), all[5].clone(), all[1].clone()],
        all_keys: all.clone(),
        probes: prefix_probes(),
        vals: 2,
        max_ckpts: 3,
    };
    let narrow = Space { name: "keys {[a],[\"\"]} x {v0,delete}".into(), keys: vec![all[2].clone(), all[1].clone()], all_keys: all.clone(), probes: prefix_probes(), vals: 1, max_ckpts: 3 };
    if let Some(p) = &args.replay {
        replay(args, &space, &full, p);
    }
    let mut rep = Report::new(args, Level::ModelChecking);
    let stats = Stats::default();
    let scratch = mcx::Scratch::new("c13");
    let deadline = mcx::Deadline::after_secs(if quick { 40 } else { 1100 });
    let mut spaces = Vec::new();
    let mut states = 0;
    let mut transitions = 0;
    let mut cap = false;
    let mut pending_first: Option<(usize, String, String, Value)> = None;
    let mut pending_count = 0u64;
    let all_bases: &[Base] = &BASES;
    let plan: Vec<(&Space, usize, bool, &[Base])> = if quick {
        vec![(&space, 4, false, all_bases), (&narrow, 5, false, &[Base::Head, Base::Mid, Base::MidInit]), (&narrow, 6, false, &[Base::Fresh]), (&narrow, 4, true, all_bases)]
    } else {
        vec![
            (&narrow, 7, false, all_bases),
            (&space, 5, false, all_bases),
            (&narrow, 5, true, all_bases),
            (&space, 6, false, &[Base::Fresh]),
            (&narrow, 8, false, &[Base::Fresh]),
            (&space, 6, false, &[Base::Mid]),
        ]
    };
    for (sp, depth, with_file, bases) in plan {
        for &base in bases {
            let cfg = Cfg { sp, base, full: &full, stats: &stats, scratch: scratch.path(), with_file };
            let pend: std::sync::Mutex<Vec<(Vec<Op>, String)>> = std::sync::Mutex::new(Vec::new());
            let exec_f = |h: &[Op]| match exec(&cfg, h) {
                Ok(r) => Ok(r),
                Err(Fail::Other(t)) => Err(t),
                Err(Fail::Pending(t)) => {
                    // known class: recorded once under a stable key; the state is not expanded
                    pend.lock().unwrap().push((h.to_vec(), t));
                    Ok((hash128(&format!("halted {:?} {h:?}", cfg.base)), Info { ckpts: 0, halted: true }))
                }
            };
            let en = |i: &Info| enabled(sp, i);
            let mut sampled = false;
            let r = bfs(&[vec![]], depth, &deadline, &exec_f, &en, &mut |ev| match ev {
                Event::New { hist, depth: d, .. } => {
                    if !sampled && d == 4 {
                        sampled = true;
                        rep.sample(json!({"space": sp.name, "base": format!("{base:?}"), "history": sp.show_hist(base, hist)}));
                    }
                }
                Event::Violation { hist, text } => {
                    rep.outcome("violation", 1);
                    rep.violation(sp.show_hist(base, hist), text, json!({"base": format!("{base:?}"), "ops": hist.iter().map(|o| sp.op_json(o)).collect::<Vec<_>>()}));
                }
            });
            let mut pend = pend.into_inner().unwrap();
            pend.sort();
            pending_count += pend.len() as u64;
            if let Some((h, t)) = pend.iter().min_by_key(|(h, _)| (h.len(), h.clone())) {
                let cand = (h.len(), sp.show_hist(base, h), t.clone(), json!({"base": format!("{base:?}"), "ops": h.iter().map(|o| sp.op_json(o)).collect::<Vec<_>>()}));
                if pending_first.as_ref().map(|p| (cand.0, &cand.1) < (p.0, &p.1)).unwrap_or(true) {
                    pending_first = Some(cand);
                }
            }
            states += r.states;
            transitions += r.transitions;
            cap |= r.cap_hit;
            spaces.push(json!({"space": sp.name, "base": format!("{base:?}"), "depth": depth, "file_manager": with_file, "states": r.states, "transitions": r.transitions,
                               "new_states_per_depth": r.new_per_depth, "completed_depth": r.completed_depth, "cap_hit": r.cap_hit, "pending_checkpoint_violations": pend.len()}));
        }
    }
    drop(scratch);
    if let Some((_, hist, text, replay)) = pending_first {
        rep.outcome("revert_to_checkpoint_with_pending_writes_violates", pending_count);
        rep.violation(PENDING_KEY, format!("{pending_count} histories of this class violate; first: {hist}\n{text}"), replay);
    }
    // ephemeral sessions (every history is its own state: no merging)
    let (s_hist, s_steps) = session::run(&mut rep, if quick { 2 } else { 3 }, if quick { 3 } else { 4 });
    states += s_hist;
    transitions += s_steps;
    rep.count("states", states);
    rep.count("transitions", transitions);
    rep.count("traces_validated_against_impl", stats.executions.load(Relaxed) + s_hist);
    rep.count("operations_replayed", stats.ops.load(Relaxed));
    rep.set("spaces", Value::Array(spaces));
    rep.set("exhaustive", !cap);
    if cap {
        rep.set("cap_hit", true);
    }
    rep.set("flavour", flavour);
    rep.set("bounds", json!({"bases": "unrooted | head of 2nd segment | mid 2nd segment (tombstone over fact index) | mid init segment", "max_live_checkpoints": 3}));
    for (k, v) in [
        ("reverts", stats.reverts.load(Relaxed)),
        ("reverts_dropping_commands", stats.reverts_dropping_commands.load(Relaxed)),
        ("reverts_dropping_unattached_writes_only", stats.reverts_dropping_writes_only.load(Relaxed)),
        ("reverts_with_nothing_to_drop", stats.reverts_noop.load(Relaxed)),
        ("reverts_to_checkpoint_taken_with_pending_writes", stats.reverts_to_tainted.load(Relaxed)),
        ("end_state_written_as_segment", stats.end_writes.load(Relaxed)),
        ("refused_add_commands", stats.refused.load(Relaxed)),
        ("refused_add_commands_with_pending_writes", stats.refused_with_pending_writes.load(Relaxed)),
        ("exact_query_hits", stats.q_hits.load(Relaxed)),
        ("prefix_queries", stats.q_prefix.load(Relaxed)),
    ] {
        rep.count(k, v);
        if rep.violations().is_empty() {
            rep.require_nonzero(k);
        }
        rep.outcome(k, v);
    }
    rep.assume("derive(Debug) of LinearPerspective prints every field, so equal strings mean identical objects");
    rep.assume("a revert invalidates the checkpoints taken after the one reverted to (they describe a discarded future)");
    rep.finish()
}

fn replay(args: &Args, space: &Space, full: &Alphabet, path: &std::path::Path) -> ! {
    let txt = std::fs::read_to_string(path).unwrap_or_else(|e| mcx::machinery_error(&format!("replay file: {e}")));
    let v: Value = mcx::serde_json::from_str(&txt).unwrap_or_else(|e| mcx::machinery_error(&format!("replay file: {e}")));
    let r = &v["replay"];
    let base = match r["base"].as_str() {
        Some("Fresh") => Base::Fresh,
        Some("Head") => Base::Head,
        Some("Mid") => Base::Mid,
        Some("MidInit") => Base::MidInit,
        _ => mcx::machinery_error("replay: base"),
    };
    let key_idx = |v: &Value| -> u8 {
        let want: K = v.as_array().unwrap().iter().map(|p| p.as_str().unwrap().as_bytes().to_vec()).collect();
        space.keys.iter().position(|k| *k == want).unwrap_or_else(|| mcx::machinery_error("replay: key not in alphabet")) as u8
    };
    let mut hist = Vec::new();
    for o in r["ops"].as_array().unwrap_or_else(|| mcx::machinery_error("replay: ops")) {
        let a = o.as_array().unwrap();
        hist.push(match a[0].as_str().unwrap_or("") {
            "ins" => Op::Ins(key_idx(&a[1]), a[2].as_u64().unwrap() as u8),
            "del" => Op::Del(key_idx(&a[1])),
            "cmd" => Op::Cmd,
            "checkpoint" => Op::Ckpt,
            "revert" => Op::Revert(a[1].as_u64().unwrap() as u8),
            "refused" => Op::Refused(a[1].as_u64().unwrap() as u8),
            _ => mcx::machinery_error("replay: op"),
        });
    }
    let stats = Stats::default();
    let scratch = mcx::Scratch::new("c13replay");
    println!("replaying {}", space.show_hist(base, &hist));
    let mut bad = None;
    for n in 1..=hist.len() {
        let cfg = Cfg { sp: space, base, full, stats: &stats, scratch: scratch.path(), with_file: true };
        match exec(&cfg, &hist[..n]) {
            Ok(_) => println!("  {:<28} ok", space.show(&hist[n - 1])),
            Err(Fail::Other(t)) | Err(Fail::Pending(t)) => {
                println!("  {:<28} VIOLATION: {t}", space.show(&hist[n - 1]));
                bad = Some(t);
                break;
            }
        }
    }
    drop(scratch);
    match bad {
        None => {
            println!("replay: no violation");
            std::process::exit(0)
        }
        Some(_) => {
            println!("VIOLATION property={} replay={}", args.prop, path.display());
            std::process::exit(1)
        }
    }
}

// ---------------------------------------------------------------------------------------------
// ephemeral sessions: `SessionPerspective::revert` through `Session::action` / `Session::receive`

pub mod session {
    //! The session perspective is private; its checkpoint/revert pair is reached exactly as the
    //! runtime reaches it: `Session::action` and `Session::receive` take a checkpoint, run the
    //! policy, and revert when the policy fails.  The scripted policy writes facts and then
    //! rejects ("writes made by a rule that then failed"), also in the second command of a
    //! two-command action (the first command's writes must vanish too).
    //!
    //! Space: every sequence of length ≤ d over {action ok, action failing after its write,
    //! two-command action failing in the second command, receive ok, receive failing after its
    //! write} × writes {ins v0, ins v1, delete} × keys {["a"] (committed), [""] (not committed)},
    //! on a session over a committed graph.  Oracle: after every step, the facts a further rule
    //! sees inside the session (prefix query over the name + exact queries) equal committed facts
    //! ⊕ writes of the successful steps only.

    use std::sync::atomic::{AtomicU64, Ordering::Relaxed};

    use aranya_runtime::{storage::linear::testing::MemStorageProvider, ClientState, MemSpill, RuntimeBuffers, StorageProvider};
    use mcx::{json, rayon::prelude::*, Report};

    use crate::{
        policy::{derived_id, encode, Action, MsgSink, ScriptStore, VecSink, Wop},
        store::{k, Model, K},
    };

    #[derive(Clone, Copy, Debug, PartialEq, Eq)]
    pub enum Kind {
        ActOk,
        ActFail,
        Act2Fail,
        RecvOk,
        RecvFail,
    }

    /// write = (key index, Some(value) | None = delete)
    type Wr = (u8, Option<u8>);

    #[derive(Clone, Copy, Debug, PartialEq, Eq)]
    pub struct SOp {
        kind: Kind,
        w1: Wr,
        w2: Wr,
    }

    fn keys() -> Vec<K> {
        vec![k(&["a"]), k(&[""])]
    }

    fn wop(w: Wr) -> Wop {
        let key = keys()[w.0 as usize].clone();
        match w.1 {
            Some(v) => Wop::Ins("n0".into(), key, format!("v{v}").into_bytes()),
            None => Wop::Del("n0".into(), key),
        }
    }

    fn show(o: &SOp) -> String {
        let w = |w: Wr| match w.1 {
            Some(v) => format!("ins({},v{v})", crate::store::show_key(&keys()[w.0 as usize])),
            None => format!("del({})", crate::store::show_key(&keys()[w.0 as usize])),
        };
        match o.kind {
            Kind::ActOk => format!("action[{}]", w(o.w1)),
            Kind::ActFail => format!("action[{}; reject]", w(o.w1)),
            Kind::Act2Fail => format!("action[{}][{}; reject]", w(o.w1), w(o.w2)),
            Kind::RecvOk => format!("receive[{}]", w(o.w1)),
            Kind::RecvFail => format!("receive[{}; reject]", w(o.w1)),
        }
    }

    fn dump(m: &Model, probe: &[K]) -> String {
        let mut s = String::from("n0:");
        for ((_, key), v) in m.iter() {
            let key: Vec<String> = key.iter().map(|p| String::from_utf8_lossy(p).to_string()).collect();
            s.push_str(&format!(" {key:?}={}", String::from_utf8_lossy(v)));
        }
        s.push_str(" |");
        for p in probe {
            s.push_str(&format!(" {:?}", m.get(&("n0".to_string(), p.clone())).map(|b| String::from_utf8_lossy(b).to_string())));
        }
        s
    }

    thread_local! {
        static BUFS: std::cell::RefCell<Option<Box<RuntimeBuffers<<MemStorageProvider as StorageProvider>::Segment>>>> = const { std::cell::RefCell::new(None) };
    }

    fn exec(hist: &[SOp], reverts: &AtomicU64) -> Result<(), String> {
        let mut client = ClientState::new(ScriptStore, MemStorageProvider::default());
        let mut sink = VecSink::default();
        let a0 = Action { tag: 0x20, seq: 0, cmds: vec![vec![Wop::Ins("n0".into(), k(&["a"]), b"v0".to_vec()), Wop::Ins("n0".into(), k(&["a", "a"]), b"v0".to_vec())]] };
        let gid = client.new_graph(b"p", &a0, &mut sink).map_err(|e| format!("new_graph: {e:?}"))?;
        let a1 = Action { tag: 0x20, seq: 1, cmds: vec![vec![Wop::Ins("n0".into(), k(&["ab"]), b"v1".to_vec())]] };
        BUFS.with(|b| {
            let mut b = b.borrow_mut();
            let bufs = b.get_or_insert_with(|| Box::new(RuntimeBuffers::new()));
            client.action(gid, &mut sink, &a1, bufs, MemSpill::new).map_err(|e| format!("action: {e:?}"))
        })?;
        let mut model: Model = Model::new();
        model.insert(("n0".into(), k(&["a"])), b"v0".to_vec());
        model.insert(("n0".into(), k(&["a", "a"])), b"v0".to_vec());
        model.insert(("n0".into(), k(&["ab"])), b"v1".to_vec());
        let mut session = client.session(gid).map_err(|e| format!("session: {e:?}"))?;
        let mut msgs = MsgSink::default();
        let probe: Vec<K> = vec![k(&["a"]), k(&[""]), k(&["a", "a"]), k(&["ab"])];
        let apply = |m: &mut Model, w: Wr| {
            let key = ("n0".to_string(), keys()[w.0 as usize].clone());
            match w.1 {
                Some(v) => {
                    m.insert(key, format!("v{v}").into_bytes());
                }
                None => {
                    m.remove(&key);
                }
            }
        };
        for (i, o) in hist.iter().enumerate() {
            let seq = 10 + i as u64;
            let res: Result<(), String> = match o.kind {
                Kind::ActOk => session.action(&client, &mut sink, &mut msgs, &Action { tag: 0x21, seq, cmds: vec![vec![wop(o.w1)]] }).map_err(|e| format!("{e:?}")),
                Kind::ActFail => session.action(&client, &mut sink, &mut msgs, &Action { tag: 0x21, seq, cmds: vec![vec![wop(o.w1), Wop::Reject]] }).map_err(|e| format!("{e:?}")),
                Kind::Act2Fail => session.action(&client, &mut sink, &mut msgs, &Action { tag: 0x21, seq, cmds: vec![vec![wop(o.w1)], vec![wop(o.w2), Wop::Reject]] }).map_err(|e| format!("{e:?}")),
                Kind::RecvOk | Kind::RecvFail => {
                    let mut ops = vec![wop(o.w1)];
                    if o.kind == Kind::RecvFail {
                        ops.push(Wop::Reject);
                    }
                    let mut bytes = derived_id(0x22, seq, 0, &aranya_runtime::Prior::None).as_bytes().to_vec();
                    bytes.extend(encode(&ops));
                    session.receive(&client, &mut sink, &bytes).map_err(|e| format!("{e:?}"))
                }
            };
            let should_fail = matches!(o.kind, Kind::ActFail | Kind::Act2Fail | Kind::RecvFail);
            match (&res, should_fail) {
                (Ok(()), false) => apply(&mut model, o.w1),
                (Err(_), true) => {
                    reverts.fetch_add(1, Relaxed);
                }
                (Ok(()), true) => return Err(format!("step {} ({}) succeeded although the policy rejected", i + 1, show(o))),
                (Err(e), false) => return Err(format!("step {} ({}) failed: {e}", i + 1, show(o))),
            }
            // what does a further rule see inside the session?
            let before = sink.committed.len();
            session
                .action(&client, &mut sink, &mut msgs, &Action { tag: 0x23, seq, cmds: vec![vec![Wop::Observe("n0".into(), probe.clone())]] })
                .map_err(|e| format!("observing after step {}: {e:?}", i + 1))?;
            let got = sink.committed.get(before).cloned().unwrap_or_default();
            let want = dump(&model, &probe);
            if got != want {
                return Err(format!("after step {} ({}): a rule in the session sees `{got}`, expected `{want}`", i + 1, show(o)));
            }
        }
        Ok(())
    }

    pub fn run(rep: &mut Report, depth: usize, depth_single: usize) -> (u64, u64) {
        let mut ops: Vec<SOp> = Vec::new();
        let writes: Vec<Wr> = (0..2u8).flat_map(|key| [(key, Some(0)), (key, Some(1)), (key, None)]).collect();
        for &w1 in &writes {
            for kind in [Kind::ActOk, Kind::ActFail, Kind::RecvOk, Kind::RecvFail] {
                ops.push(SOp { kind, w1, w2: w1 });
            }
            for &w2 in &writes {
                ops.push(SOp { kind: Kind::Act2Fail, w1, w2 });
            }
        }
        let reverts = AtomicU64::new(0);
        // all sequences to `depth` over every operation, and to `depth_single` over the
        // single-command operations
        let mut seqs: Vec<Vec<SOp>> = vec![vec![]];
        let singles: Vec<SOp> = ops.iter().copied().filter(|o| o.kind != Kind::Act2Fail).collect();
        for (alphabet, d, from) in [(&ops, depth, 1usize), (&singles, depth_single, depth + 1)] {
            let mut frontier: Vec<Vec<SOp>> = vec![vec![]];
            for len in 1..=d {
                let mut next = Vec::new();
                for h in &frontier {
                    for o in alphabet.iter() {
                        let mut n = h.clone();
                        n.push(*o);
                        next.push(n);
                    }
                }
                if len >= from {
                    seqs.extend(next.iter().cloned());
                }
                frontier = next;
            }
        }
        let outs: Vec<Result<(), String>> = seqs
            .par_iter()
            .map(|h| match mcx::catch(|| exec(h, &reverts)) {
                Ok(r) => r,
                Err(p) => Err(format!("panic: {p} at {}", mcx::last_panic_location())),
            })
            .collect();
        let mut steps = 0u64;
        for (h, r) in seqs.iter().zip(outs) {
            steps += h.len() as u64;
            if let Err(text) = r {
                // only report histories whose proper prefixes are clean (minimal)
                rep.outcome("violation", 1);
                let hist = h.iter().map(show).collect::<Vec<_>>().join("; ");
                rep.violation(format!("session: {hist}"), text, json!({"session": hist}));
            }
        }
        if let Some(h) = seqs.iter().find(|h| h.len() == depth && h.iter().any(|o| o.kind == Kind::Act2Fail)) {
            rep.sample(json!({"space": "session", "history": h.iter().map(show).collect::<Vec<_>>()}));
        }
        rep.count("session_histories", seqs.len() as u64);
        rep.count("session_failed_steps_reverted", reverts.load(Relaxed));
        if rep.violations().is_empty() {
            rep.require_nonzero("session_failed_steps_reverted");
        }
        rep.set("session_space", json!({"operations": ops.len(), "depth_all_operations": depth, "depth_single_command_operations": depth_single, "histories": seqs.len()}));
        (seqs.len() as u64, steps)
    }
}
