//! C15 — file-backed graph storage survives crashes (fault enumeration).
//!
//! Subject: the real libc `FileManager` / `Writer` (storage/linear/libc/imp.rs: append, commit,
//! the two data/root barriers, ping-pong root slots, checksummed roots, `Writer::open`) under the
//! real `LinearStorage` and `ClientState`.
//!
//! 1. Record.  A multi-commit workload runs once on `ClientState<_, LinearStorageProvider<
//!    FileManager>>` in a scratch directory on /dev/shm while the binary's own `pwrite64` /
//!    `fdatasync` / `fsync` / `fallocate64` definitions log every write (offset, bytes),
//!    preallocation and completed sync of the graph file; after every commit that returned, a
//!    marker and the observation of the graph are logged.
//! 2. Enumerate.  For EVERY prefix of the log (= crash point) and EVERY persistence pattern of
//!    the writes issued since the last completed sync: each write kept or lost (all 2^|W| subsets
//!    for |W| ≤ 12, otherwise all subsets within 3 deviations of all-kept or all-lost) and each
//!    single write torn — at every 512-byte boundary inside it and, for writes shorter than a
//!    sector, after byte 1, ⌊len/2⌋ and len−1 — with the other unsynced writes all kept / all
//!    lost / kept-before-lost-after / lost-before-kept-after.
//! 3. Reopen.  Each distinct image is materialised in a per-thread directory and reopened with
//!    the real `FileManager::new` + `LinearStorageProvider::get_storage`.
//!
//! Oracle (the statement): `Err` is allowed only if no commit had returned before the crash;
//! otherwise the observation — head set, every segment reachable from the heads with every
//! command, prior, skip list, its fact index and the rebuilt facts at every command, the fact
//! cache; every read must succeed — equals the observation recorded after the last commit that
//! returned, or the one of the commit in progress.  Then one more commit on the recovered graph
//! and a second reopen must give exactly what the same commit gives on an uncrashed copy of that
//! state (nothing appended after the recovered commit may show).

use std::{
    collections::{BTreeSet, HashMap},
    os::unix::fs::FileExt,
    path::Path,
    sync::atomic::{AtomicU64, Ordering::Relaxed},
};

use aranya_runtime::{
    storage::linear::{libc::FileManager, LinearStorageProvider},
    Address, ClientState, Command, GraphId, Location, MaxCut, MemSpill, Prior, Priority, Query, RuntimeBuffers, Segment, Storage, StorageProvider,
};
use mcx::{json, rayon::prelude::*, Args, Level, Report, Value};

use crate::{
    interpose::{self, Rec},
    props::errfam,
    policy::{encode, Action, ScriptStore, VecSink, Wop},
    store::{cmd_id, hash128, k, TestCmd, K},
};

pub(crate) type Sp = LinearStorageProvider<FileManager>;
pub(crate) type Bufs = RuntimeBuffers<<Sp as StorageProvider>::Segment>;

const NAMES: [&str; 2] = ["n0", "n1"];

pub(crate) fn ins(n: &str, key: K, v: &str) -> Wop {
    Wop::Ins(n.into(), key, v.as_bytes().to_vec())
}
pub(crate) fn del(n: &str, key: K) -> Wop {
    Wop::Del(n.into(), key)
}

pub(crate) fn short(id: &[u8]) -> String {
    format!("{:02x}{:02x}..{:02x}{:02x}{:02x}", id[0], id[1], id[29], id[30], id[31])
}

pub(crate) fn dump_facts<Q: Query>(q: &Q, what: &str) -> Result<String, String> {
    let mut s = String::new();
    for n in NAMES {
        s.push_str(&format!("{n}{{"));
        for f in q.query_prefix(n, &[]).map_err(|e| format!("{what}: query_prefix failed: {e:?}"))? {
            let f = f.map_err(|e| format!("{what}: fact read failed: {e:?}"))?;
            let key: Vec<String> = f.key.iter().map(|p| String::from_utf8_lossy(p).to_string()).collect();
            s.push_str(&format!("{key:?}={} ", String::from_utf8_lossy(&f.value)));
        }
        s.push('}');
    }
    Ok(s)
}

/// Full observation of a graph; every read must succeed.
fn observe(sp: &mut Sp, gid: GraphId) -> Result<String, String> {
    let st = sp.get_storage(gid).map_err(|e| format!("get_storage: {e:?}"))?;
    let heads = st.get_heads().map_err(|e| format!("get_heads: {e:?}"))?.clone();
    if heads.is_empty() {
        return Err("empty head set".into());
    }
    let mut out = String::from("heads:");
    for h in heads.iter() {
        out.push_str(&format!(" {}@{}:{}", short(h.id.as_bytes()), h.segment, h.max_cut));
    }
    out.push_str(&format!("\ncache: {}", dump_facts(&st.fact_cache().map_err(|e| format!("fact_cache: {e:?}"))?, "fact cache")?));
    let mut seen = BTreeSet::new();
    let mut stack: Vec<Location> = heads.iter().map(|h| h.location()).collect();
    let mut segs: Vec<String> = Vec::new();
    while let Some(l) = stack.pop() {
        if !seen.insert(l.segment.get()) {
            continue;
        }
        let seg = st.get_segment(l).map_err(|e| format!("get_segment({l}): {e:?}"))?;
        if seg.get_command(l).is_none() {
            return Err(format!("location {l} holds no command"));
        }
        let first = seg.first_location();
        let last = seg.head_location().map_err(|e| format!("head_location: {e:?}"))?;
        let mut s = format!("seg {} [{}..{}] prior={:?} skips={:?}", seg.index(), first.max_cut, last.max_cut, seg.prior(), seg.skip_list());
        let mut mc = first.max_cut.get();
        while mc <= last.max_cut.get() {
            let loc = Location::new(seg.index(), MaxCut::new(mc));
            let c = seg.get_command(loc).ok_or_else(|| format!("segment {} has no command at max cut {mc}", seg.index()))?;
            s.push_str(&format!("\n  cmd {} prio={:?} parent={:?} policy={:?} data={}", short(c.id().as_bytes()), c.priority(), parent_short(&c.parent()), c.policy().map(|p| p.len()), mcx::hex(c.bytes())));
            let fp = st.get_fact_perspective(loc).map_err(|e| format!("get_fact_perspective({loc}): {e:?}"))?;
            s.push_str(&format!("\n    facts {}", dump_facts(&fp, "facts at command")?));
            mc += 1;
        }
        s.push_str(&format!("\n  index {}", dump_facts(&seg.facts().map_err(|e| format!("segment.facts: {e:?}"))?, "segment fact index")?));
        for p in seg.prior() {
            stack.push(p);
        }
        for sk in seg.skip_list() {
            // a skip entry must be readable too
            let s2 = st.get_segment(*sk).map_err(|e| format!("get_segment(skip {sk}): {e:?}"))?;
            if s2.get_command(*sk).is_none() {
                return Err(format!("skip entry {sk} holds no command"));
            }
        }
        segs.push(s);
    }
    segs.sort();
    for s in segs {
        out.push('\n');
        out.push_str(&s);
    }
    Ok(out)
}

pub(crate) fn parent_short(p: &Prior<Address>) -> String {
    match p {
        Prior::None => "-".into(),
        Prior::Single(a) => format!("{}@{}", short(a.id.as_bytes()), a.max_cut),
        Prior::Merge(a, b) => format!("{}@{}+{}@{}", short(a.id.as_bytes()), a.max_cut, short(b.id.as_bytes()), b.max_cut),
    }
}

pub(crate) fn open_client(dir: &Path) -> Result<ClientState<ScriptStore, Sp>, String> {
    let fm = FileManager::new(dir).map_err(|e| format!("FileManager::new: {e:?}"))?;
    Ok(ClientState::new(ScriptStore, LinearStorageProvider::new(fm)))
}

struct Recorded {
    log: Vec<Rec>,
    /// observation after commit k returned
    obs: Vec<String>,
    gid: GraphId,
    steps: Vec<&'static str>,
}

pub(crate) fn tc(n: u64, parent: Prior<Address>, ops: &[Wop]) -> (TestCmd, Address) {
    let mc = match parent {
        Prior::None => 0,
        Prior::Single(a) => a.max_cut.get() + 1,
        Prior::Merge(a, b) => a.max_cut.get().max(b.max_cut.get()) + 1,
    };
    let prio = match parent {
        Prior::None => Priority::Init,
        Prior::Single(_) => Priority::Basic((n % 3) as u32),
        Prior::Merge(..) => Priority::Merge,
    };
    let id = cmd_id(6, n);
    let data = if matches!(parent, Prior::Merge(..)) { Vec::new() } else { encode(ops) };
    (TestCmd { id, parent, prio, data }, Address { id, max_cut: MaxCut::new(mc) })
}

pub(crate) fn merge_of(n: u64, a: Address, b: Address) -> (TestCmd, Address) {
    let p = if a.id < b.id { Prior::Merge(a, b) } else { Prior::Merge(b, a) };
    tc(n, p, &[])
}

/// The recorded workload.  Every step performs exactly one storage-level commit.
fn record(dir: &Path, thorough: bool) -> Result<Recorded, String> {
    let mut bufs: Box<Bufs> = Box::new(RuntimeBuffers::new());
    let mut sink = VecSink::default();
    let mut obs = Vec::new();
    let mut steps = Vec::new();
    interpose::start(dir);
    let mut client = open_client(dir)?;
    let e = |what: &str, e: &dyn std::fmt::Debug| format!("workload: {what} failed: {e:?}");

    // 0: create the graph
    let a0 = Action { tag: 0x10, seq: 0, cmds: vec![vec![ins("n0", k(&["a"]), "v0"), ins("n0", k(&["a", "a"]), "v0"), ins("n1", k(&[]), "v0")]] };
    let gid = client.new_graph(b"p", &a0, &mut sink).map_err(|x| e("new_graph", &x))?;
    let mut done = |client: &mut ClientState<ScriptStore, Sp>, what: &'static str| -> Result<(), String> {
        interpose::marker(obs.len());
        steps.push(what);
        obs.push(observe(client.provider(), gid).map_err(|x| format!("workload: observing after '{what}': {x}"))?);
        Ok(())
    };
    done(&mut client, "create graph")?;

    // 1: single-command commit (action)
    let a1 = Action { tag: 0x10, seq: 1, cmds: vec![vec![ins("n0", k(&["ab"]), "v1"), del("n0", k(&["a", "a"]))]] };
    client.action(gid, &mut sink, &a1, &mut bufs, MemSpill::new).map_err(|x| e("action 1", &x))?;
    done(&mut client, "single-command action")?;

    // 2: three segments in one transaction, ending in one head (chain, side branch, merge)
    let h = client.head_address(gid).map_err(|x| e("head_address", &x))?;
    let (c_a1, a_a1) = tc(1, Prior::Single(h), &[ins("n0", k(&[""]), "v0")]);
    let (c_a2, a_a2) = tc(2, Prior::Single(a_a1), &[del("n0", k(&["a"]))]);
    let (c_b1, a_b1) = tc(3, Prior::Single(a_a1), &[ins("n1", k(&["a"]), "v1")]);
    let (c_m, a_m) = merge_of(4, a_a2, a_b1);
    let mut trx = client.transaction(gid);
    client.add_commands(&mut trx, &mut sink, &[c_a1.clone(), c_a2.clone(), c_b1, c_m], &mut bufs, MemSpill::new).map_err(|x| e("add_commands 2", &x))?;
    client.commit(trx, &mut sink, &mut bufs, MemSpill::new).map_err(|x| e("commit 2", &x))?;
    done(&mut client, "3-segment transaction (branch + merge)")?;

    // 2a-2d: commits that append nothing but the head-set record (the data barrier then guards
    // only that record): a transaction that is offered only commands the graph already holds
    // commits the unchanged single head and reuses its fact index.
    let known = [c_a1.clone(), c_a2.clone()];
    let recommit = |client: &mut ClientState<ScriptStore, Sp>, bufs: &mut Bufs, sink: &mut VecSink| -> Result<(), String> {
        let mut trx = client.transaction(gid);
        let n = client.add_commands(&mut trx, sink, &known, bufs, MemSpill::new).map_err(|x| format!("workload: re-delivery failed: {x:?}"))?;
        if n != 0 {
            return Err(format!("workload: re-delivering known commands added {n} commands"));
        }
        if !client.commit(trx, sink, bufs, MemSpill::new).map_err(|x| format!("workload: re-commit failed: {x:?}"))? {
            return Err("workload: the re-commit did not commit".into());
        }
        Ok(())
    };
    recommit(&mut client, &mut bufs, &mut sink)?;
    done(&mut client, "re-commit: transaction re-delivering known commands")?;
    drop(client);
    client = open_client(dir)?;
    recommit(&mut client, &mut bufs, &mut sink)?;
    done(&mut client, "re-commit right after reopening the provider")?;
    recommit(&mut client, &mut bufs, &mut sink)?;
    done(&mut client, "re-commit back to back (1)")?;
    recommit(&mut client, &mut bufs, &mut sink)?;
    done(&mut client, "re-commit back to back (2)")?;

    // 3: two branches, committed multi-head (braided fact cache)
    let (c_p1, a_p1) = tc(5, Prior::Single(a_m), &[ins("n0", k(&["a"]), "v1")]);
    let (c_p2, a_p2) = tc(6, Prior::Single(a_p1), &[ins("n0", k(&["a", "ab"]), "v0")]);
    let (c_q1, a_q1) = tc(7, Prior::Single(a_m), &[del("n1", k(&[]))]);
    let mut trx = client.transaction(gid);
    client.add_commands(&mut trx, &mut sink, &[c_p1, c_p2, c_q1], &mut bufs, MemSpill::new).map_err(|x| e("add_commands 3", &x))?;
    client.commit(trx, &mut sink, &mut bufs, MemSpill::new).map_err(|x| e("commit 3", &x))?;
    done(&mut client, "two-branch transaction, multi-head")?;
    let _ = (a_p2, a_q1);

    if thorough {
        // 4: action on the multi-head graph (collapse into a merge + one command)
        let a4 = Action { tag: 0x10, seq: 4, cmds: vec![vec![ins("n1", k(&["ab"]), "v0")]] };
        client.action(gid, &mut sink, &a4, &mut bufs, MemSpill::new).map_err(|x| e("action 4", &x))?;
        done(&mut client, "action collapsing two heads")?;

        // 5: commit after reopening the file (fresh preallocation)
        drop(client);
        client = open_client(dir)?;
        let a5 = Action { tag: 0x10, seq: 5, cmds: vec![vec![del("n0", k(&["ab"])), ins("n0", k(&[]), "v1")], vec![ins("n1", k(&["a", ""]), "v0")]] };
        client.action(gid, &mut sink, &a5, &mut bufs, MemSpill::new).map_err(|x| e("action 5", &x))?;
        done(&mut client, "two-command action after reopen")?;

        // 6: five one-command segments on two alternating branches, multi-head
        let h = client.head_address(gid).map_err(|x| e("head_address", &x))?;
        let (c_r1, a_r1) = tc(10, Prior::Single(h), &[ins("n0", k(&["ab"]), "v0")]);
        let (c_s1, a_s1) = tc(11, Prior::Single(h), &[del("n0", k(&[]))]);
        let (c_r2, a_r2) = tc(12, Prior::Single(a_r1), &[ins("n0", k(&["a", "a"]), "v1")]);
        let (c_s2, a_s2) = tc(13, Prior::Single(a_s1), &[ins("n1", k(&[]), "v1")]);
        let (c_r3, _) = tc(14, Prior::Single(a_r2), &[del("n1", k(&["a"]))]);
        let _ = a_s2;
        let mut trx = client.transaction(gid);
        client.add_commands(&mut trx, &mut sink, &[c_r1, c_s1, c_r2, c_s2, c_r3], &mut bufs, MemSpill::new).map_err(|x| e("add_commands 6", &x))?;
        client.commit(trx, &mut sink, &mut bufs, MemSpill::new).map_err(|x| e("commit 6", &x))?;
        done(&mut client, "5 one-command segments on two branches")?;

        // 7: second collapse round
        let a7 = Action { tag: 0x10, seq: 7, cmds: vec![vec![ins("n0", k(&["a"]), "v0")]] };
        client.action(gid, &mut sink, &a7, &mut bufs, MemSpill::new).map_err(|x| e("action 7", &x))?;
        done(&mut client, "action collapsing two heads (2)")?;

        // 8: reopen in the middle, then a three-branch transaction committed multi-head
        drop(client);
        client = open_client(dir)?;
        let h = client.head_address(gid).map_err(|x| e("head_address", &x))?;
        let (c_t1, a_t1) = tc(20, Prior::Single(h), &[ins("n1", k(&["a", "a"]), "v0")]);
        let (c_t2, _) = tc(21, Prior::Single(a_t1), &[del("n0", k(&["a"]))]);
        let (c_u1, _) = tc(22, Prior::Single(h), &[ins("n0", k(&["ab", "a"]), "v1")]);
        let (c_w1, _) = tc(23, Prior::Single(h), &[del("n1", k(&["ab"]))]);
        let mut trx = client.transaction(gid);
        client.add_commands(&mut trx, &mut sink, &[c_t1, c_t2, c_u1, c_w1], &mut bufs, MemSpill::new).map_err(|x| e("add_commands 8", &x))?;
        client.commit(trx, &mut sink, &mut bufs, MemSpill::new).map_err(|x| e("commit 8", &x))?;
        done(&mut client, "three-branch transaction after reopen, multi-head")?;

        // 9: action collapsing three heads (two merges) with two commands
        let a9 = Action { tag: 0x10, seq: 9, cmds: vec![vec![ins("n1", k(&[]), "v0")], vec![del("n0", k(&["ab", "a"]))]] };
        client.action(gid, &mut sink, &a9, &mut bufs, MemSpill::new).map_err(|x| e("action 9", &x))?;
        done(&mut client, "two-command action collapsing three heads")?;

        // 10: plain action
        let a10 = Action { tag: 0x10, seq: 10, cmds: vec![vec![ins("n0", k(&["a", ""]), "v1")]] };
        client.action(gid, &mut sink, &a10, &mut bufs, MemSpill::new).map_err(|x| e("action 10", &x))?;
        done(&mut client, "single-command action (final)")?;

        // 11: one transaction writing ten one-command segments on three alternating branches
        // (a large window of unsynced writes before the data barrier), committed multi-head
        let h = client.head_address(gid).map_err(|x| e("head_address", &x))?;
        let mut tips = [h, h, h];
        let mut cmds = Vec::new();
        for i in 0..10u64 {
            let b = (i % 3) as usize;
            let ops = match i % 4 {
                0 => vec![ins("n0", k(&["a", "ab"]), if i % 8 == 0 { "v0" } else { "v1" })],
                1 => vec![del("n1", k(&[]))],
                2 => vec![ins("n1", k(&["a"]), "v0")],
                _ => vec![del("n0", k(&["a", ""]))],
            };
            let (c, a) = tc(30 + i, Prior::Single(tips[b]), &ops);
            tips[b] = a;
            cmds.push(c);
        }
        let mut trx = client.transaction(gid);
        client.add_commands(&mut trx, &mut sink, &cmds, &mut bufs, MemSpill::new).map_err(|x| e("add_commands 11", &x))?;
        client.commit(trx, &mut sink, &mut bufs, MemSpill::new).map_err(|x| e("commit 11", &x))?;
        done(&mut client, "ten one-command segments on three branches, multi-head")?;

        // 12: collapse the three heads again
        let a12 = Action { tag: 0x10, seq: 12, cmds: vec![vec![ins("n0", k(&[""]), "v1")]] };
        client.action(gid, &mut sink, &a12, &mut bufs, MemSpill::new).map_err(|x| e("action 12", &x))?;
        done(&mut client, "action collapsing three heads (2)")?;
    }
    drop(client);
    let log = interpose::stop();
    Ok(Recorded { log, obs, gid, steps })
}

/// One (write index, bytes kept) per applied write; preallocations carry `u32::MAX`.
type Recipe = Vec<(u32, u32)>;

fn materialise(path: &Path, log: &[Rec], recipe: &Recipe) -> Result<(), String> {
    let _ = std::fs::remove_file(path);
    if recipe.is_empty() {
        // nothing reached the disk: with our creation assumption the (empty) file exists
    }
    let f = std::fs::OpenOptions::new().create(true).truncate(true).read(true).write(true).open(path).map_err(|e| format!("image create: {e}"))?;
    for &(i, len) in recipe {
        match &log[i as usize] {
            Rec::Write { off, data } => f.write_all_at(&data[..len as usize], *off).map_err(|e| format!("image write: {e}"))?,
            Rec::Falloc { end } => {
                if f.metadata().map_err(|e| format!("{e}"))?.len() < *end {
                    f.set_len(*end).map_err(|e| format!("image set_len: {e}"))?;
                }
            }
            _ => return Err("recipe refers to a non-write record".into()),
        }
    }
    Ok(())
}

#[derive(Clone, Debug)]
struct ImageResult {
    /// Err(text) or Ok(observation hash)
    first: Result<u128, String>,
    /// observation after one more commit + reopen
    second: Option<Result<u128, String>>,
    /// hash of the raw bytes of the two root slots of the image (what `Writer::open` decides on)
    slots: u128,
}

fn extra_action() -> Action {
    Action { tag: 0x7E, seq: 99, cmds: vec![vec![ins("n1", k(&["x"]), "v1"), del("n0", k(&["a"]))]] }
}

thread_local! {
    static BUFS: std::cell::RefCell<Option<Box<Bufs>>> = const { std::cell::RefCell::new(None) };
}

fn evaluate(dir: &Path, gid: GraphId, log: &[Rec], recipe: &Recipe) -> ImageResult {
    let file = dir.join(gid.to_string());
    let r = mcx::catch(|| -> ImageResult {
        if let Err(e) = materialise(&file, log, recipe) {
            mcx::machinery_error(&e);
        }
        let slots = slot_bytes_hash(&file);
        interpose::set_cheap_falloc(true);
        let first = (|| -> Result<u128, String> {
            let mut client = open_client(dir)?;
            let o = observe(client.provider(), gid)?;
            Ok(hash128(&o))
        })();
        let second = if first.is_ok() {
            Some((|| -> Result<u128, String> {
                {
                    let mut client = open_client(dir)?;
                    let mut sink = VecSink::default();
                    BUFS.with(|b| {
                        let mut b = b.borrow_mut();
                        let bufs = b.get_or_insert_with(|| Box::new(RuntimeBuffers::new()));
                        client.action(gid, &mut sink, &extra_action(), bufs, MemSpill::new).map_err(|e| format!("one more commit on the recovered graph failed: {e:?}"))
                    })?;
                }
                let mut client = open_client(dir)?;
                let o = observe(client.provider(), gid).map_err(|e| format!("after one more commit and reopen: {e}"))?;
                Ok(hash128(&o))
            })())
        } else {
            None
        };
        interpose::set_cheap_falloc(false);
        ImageResult { first, second, slots }
    });
    let _ = std::fs::remove_file(&file);
    match r {
        Ok(r) => r,
        Err(p) => ImageResult { first: Err(format!("panic: {p} at {}", mcx::last_panic_location())), second: None, slots: 0 },
    }
}

/// Raw bytes of the two root slots (4-byte length prefix + record; 96 bytes cover both).
fn slot_bytes_hash(file: &Path) -> u128 {
    let mut buf = [0u8; 192];
    if let Ok(f) = std::fs::File::open(file) {
        let _ = f.read_at(&mut buf[..96], 4096);
        let _ = f.read_at(&mut buf[96..], 8192);
    }
    hash128(&mcx::hex(&buf))
}

fn apply_recipe(f: &std::fs::File, log: &[Rec], recipe: &Recipe) -> Result<(), String> {
    for &(i, len) in recipe {
        match &log[i as usize] {
            Rec::Write { off, data } => f.write_all_at(&data[..len as usize], *off).map_err(|e| format!("image write: {e}"))?,
            Rec::Falloc { end } => {
                if f.metadata().map_err(|e| format!("{e}"))?.len() < *end {
                    f.set_len(*end).map_err(|e| format!("image set_len: {e}"))?;
                }
            }
            _ => return Err("recipe refers to a non-write record".into()),
        }
    }
    Ok(())
}

/// Class key: see the description of the violation.
pub const STALE_ROOT_BODY_KEY: &str = "second crash: crash 1 persists the body of a root record but not the 4-byte length prefix written just before it (slot invalid, recovery correct); in the recovered session the next root write to that slot persists only its length prefix, which revives the stale body as a valid newer root whose data has meanwhile been overwritten -> reopen fails; minimal: crash after 22 logged operations with kept mask 0b10 of the 2 root writes of commit 1, then crash after 10 operations of the recovered session with the root length prefix kept";

fn second_action() -> Action {
    Action { tag: 0x7E, seq: 100, cmds: vec![vec![ins("n0", k(&["y"]), "v0")]] }
}

/// Second crash generation for one class of recovered generation-1 images: the recorded
/// continuation (two further commits in the recovered session) and its own crash images.
struct Gen2 {
    /// generation-1 recipe the continuation was recorded on
    base: usize,
    /// observation hashes: recovered state, after continuation commit 1, after commit 2
    states: Vec<u128>,
    log: Vec<Rec>,
    en: Enumerated,
}

fn record_gen2(dir: &Path, gid: GraphId, log1: &[Rec], recipe1: &Recipe, base: usize, deep: bool) -> Result<Gen2, String> {
    let _ = std::fs::remove_dir_all(dir);
    std::fs::create_dir_all(dir).map_err(|e| format!("scratch: {e}"))?;
    materialise(&dir.join(gid.to_string()), log1, recipe1)?;
    let mut bufs: Box<Bufs> = Box::new(RuntimeBuffers::new());
    let mut sink = VecSink::default();
    let mut conts = vec![extra_action(), second_action()];
    if deep {
        conts.push(Action { tag: 0x7E, seq: 101, cmds: vec![vec![del("n1", k(&["x"]))], vec![ins("n0", k(&["z"]), "v1")]] });
    }
    interpose::start(dir);
    let res = (|| -> Result<Vec<u128>, String> {
        let mut client = open_client(dir)?;
        let mut states = vec![hash128(&observe(client.provider(), gid)?)];
        for (i, a) in conts.iter().enumerate() {
            client.action(gid, &mut sink, a, &mut bufs, MemSpill::new).map_err(|e| format!("continuation commit {}: {e:?}", i + 1))?;
            interpose::marker(i);
            states.push(hash128(&observe(client.provider(), gid)?));
        }
        Ok(states)
    })();
    let log = interpose::stop();
    let states = res?;
    let en = enumerate(&log, deep);
    Ok(Gen2 { base, states, log, en })
}

fn evaluate_gen2(dir: &Path, gid: GraphId, log1: &[Rec], recipe1: &Recipe, g: &Gen2, recipe2: &Recipe) -> Result<u128, String> {
    let file = dir.join(gid.to_string());
    let r = mcx::catch(|| -> Result<u128, String> {
        materialise(&file, log1, recipe1).unwrap_or_else(|e| mcx::machinery_error(&e));
        {
            let f = std::fs::OpenOptions::new().read(true).write(true).open(&file).map_err(|e| format!("image open: {e}"))?;
            apply_recipe(&f, &g.log, recipe2).unwrap_or_else(|e| mcx::machinery_error(&e));
        }
        let mut client = open_client(dir)?;
        let o = observe(client.provider(), gid)?;
        Ok(hash128(&o))
    });
    let _ = std::fs::remove_file(&file);
    match r {
        Ok(r) => r,
        Err(p) => Err(format!("panic: {p} at {}", mcx::last_panic_location())),
    }
}

fn tear_points(off: u64, len: usize, deep: bool) -> Vec<usize> {
    let mut v = BTreeSet::new();
    if deep && (off == 4096 || off == 8192) {
        // thorough: a root record is torn at every byte position
        v.extend(1..len);
    }
    // sector boundaries inside the write
    let mut b = (off / 512 + 1) * 512;
    while b < off + len as u64 {
        v.insert((b - off) as usize);
        b += 512;
    }
    if len < 512 {
        for t in [1, len / 2, len.saturating_sub(1)] {
            if t > 0 && t < len {
                v.insert(t);
            }
        }
    }
    v.into_iter().collect()
}

struct Context {
    prefix: usize,
    commits_returned: usize,
    recipe_id: usize,
    nontrivial: bool,
    desc: String,
}

struct Enumerated {
    recipes: Vec<Recipe>,
    contexts: Vec<Context>,
    exhaustive_subsets: u64,
    bounded_subsets: u64,
    torn: u64,
    max_w: usize,
}

fn enumerate(log: &[Rec], deep: bool) -> Enumerated {
    let (exhaustive_upto, max_dev) = if deep { (14usize, 4usize) } else { (12, 3) };
    let mut recipes: Vec<Recipe> = Vec::new();
    let mut index: HashMap<Recipe, usize> = HashMap::new();
    let mut contexts = Vec::new();
    let mut en = Enumerated { recipes: vec![], contexts: vec![], exhaustive_subsets: 0, bounded_subsets: 0, torn: 0, max_w: 0 };
    let full = |i: usize| -> (u32, u32) {
        match &log[i] {
            Rec::Write { data, .. } => (i as u32, data.len() as u32),
            _ => (i as u32, u32::MAX),
        }
    };
    for prefix in 0..=log.len() {
        let commits_returned = log[..prefix].iter().filter(|r| matches!(r, Rec::Marker(_))).count();
        let durable_upto = log[..prefix].iter().rposition(|r| matches!(r, Rec::Sync)).map(|i| i + 1).unwrap_or(0);
        let durable: Vec<(u32, u32)> = (0..durable_upto).filter(|&i| matches!(log[i], Rec::Write { .. } | Rec::Falloc { .. })).map(full).collect();
        let w: Vec<usize> = (durable_upto..prefix).filter(|&i| matches!(log[i], Rec::Write { .. } | Rec::Falloc { .. })).collect();
        en.max_w = en.max_w.max(w.len());
        let mut add = |kept: Vec<(u32, u32)>, nontrivial: bool, desc: String| {
            let mut r = durable.clone();
            r.extend(kept);
            let id = *index.entry(r.clone()).or_insert_with(|| {
                recipes.push(r);
                recipes.len() - 1
            });
            contexts.push(Context { prefix, commits_returned, recipe_id: id, nontrivial, desc });
        };
        let n = w.len();
        // kept / lost subsets
        let masks: Vec<u64> = if n <= exhaustive_upto {
            en.exhaustive_subsets += 1u64 << n;
            (0..1u64 << n).collect()
        } else {
            let mut v = BTreeSet::new();
            let all = (1u64 << n) - 1;
            // within `max_dev` deviations of all-kept and of all-lost
            let mut dev: Vec<u64> = vec![0];
            let mut layer: Vec<(u64, usize)> = vec![(0, 0)];
            for _ in 0..max_dev {
                let mut next = Vec::new();
                for &(m, from) in &layer {
                    for a in from..n {
                        next.push((m | 1 << a, a + 1));
                    }
                }
                dev.extend(next.iter().map(|x| x.0));
                layer = next;
            }
            for d in dev {
                v.insert(d);
                v.insert(all ^ d);
            }
            en.bounded_subsets += v.len() as u64;
            v.into_iter().collect()
        };
        for m in masks {
            let kept: Vec<(u32, u32)> = (0..n).filter(|&b| m & (1 << b) != 0).map(|b| full(w[b])).collect();
            let nontrivial = n > 0 && m != 0 && m != (1u64 << n) - 1;
            add(kept, nontrivial, format!("kept mask {m:#b} of {n} unsynced writes"));
        }
        // torn writes
        for (pos, &i) in w.iter().enumerate() {
            if let Rec::Write { off, data } = &log[i] {
                for t in tear_points(*off, data.len(), deep) {
                    for ctx in 0..4 {
                        let mut kept: Vec<(u32, u32)> = Vec::new();
                        for (p2, &j) in w.iter().enumerate() {
                            if p2 == pos {
                                kept.push((i as u32, t as u32));
                            } else {
                                let keep = match ctx {
                                    0 => true,
                                    1 => false,
                                    2 => p2 < pos,
                                    _ => p2 > pos,
                                };
                                if keep {
                                    kept.push(full(j));
                                }
                            }
                        }
                        en.torn += 1;
                        add(kept, true, format!("write #{i} (offset {off}, {} bytes) torn after {t} bytes, others {}", data.len(), ["kept", "lost", "kept before / lost after", "lost before / kept after"][ctx]));
                    }
                }
            }
        }
    }
    en.recipes = recipes;
    en.contexts = contexts;
    en
}

pub fn run(args: &Args) {
    mcx::quiet_panics();
    let thorough = args.tier == mcx::Tier::Thorough;
    let mut rep = Report::new(args, Level::FaultEnumeration);
    let scratch = mcx::Scratch::new("c15");
    let rec_dir = scratch.path().join("rec");
    std::fs::create_dir_all(&rec_dir).unwrap();
    let rec = match record(&rec_dir, thorough) {
        Ok(r) => r,
        Err(e) => {
            // the uncrashed workload itself failed: that is a verdict about the storage only if
            // the real code returned the error; report it as a violation of the no-crash case
            rep.violation("workload without any crash fails", e, json!({"workload": true}));
            rep.set("evaluations", 1u64);
            rep.set("distinct_nontrivial", 0u64);
            rep.set("rule", "workload failed before any crash was injected");
            rep.set("exhaustive", false);
            drop(scratch);
            rep.finish()
        }
    };
    // determinism: a second recording must give the same log
    let rec_dir2 = scratch.path().join("rec2");
    std::fs::create_dir_all(&rec_dir2).unwrap();
    match record(&rec_dir2, thorough) {
        Ok(r2) if r2.log == rec.log && r2.obs == rec.obs => {}
        Ok(_) => mcx::machinery_error("the recorded workload is not deterministic (two recordings differ)"),
        Err(e) => mcx::machinery_error(&format!("second recording failed: {e}")),
    }
    let writes = rec.log.iter().filter(|r| matches!(r, Rec::Write { .. })).count() as u64;
    let syncs = rec.log.iter().filter(|r| matches!(r, Rec::Sync)).count() as u64;
    let fallocs = rec.log.iter().filter(|r| matches!(r, Rec::Falloc { .. })).count() as u64;
    rep.count("recorded_writes", writes);
    rep.count("recorded_syncs", syncs);
    rep.count("recorded_preallocations", fallocs);
    rep.count("commits_in_workload", rec.obs.len() as u64);
    for c in ["recorded_writes", "recorded_syncs", "recorded_preallocations"] {
        if rep.violations().is_empty() {
            rep.require_nonzero(c);
        }
    }
    if let Some(p) = &args.replay {
        replay(args, &rec, scratch, p);
    }
    let obs_hash: Vec<u128> = rec.obs.iter().map(|o| hash128(o)).collect();
    // Re-commits of an unchanged head set give the same observation as their predecessor (the
    // oracle then cannot tell which of the two was recovered, and does not need to); all other
    // commits must be distinguishable.
    let distinct_obs = obs_hash.iter().collect::<BTreeSet<_>>().len();
    let recommits = rec.steps.iter().filter(|s| s.starts_with("re-commit")).count();
    if distinct_obs + recommits != obs_hash.len() {
        mcx::machinery_error("two different commits of the workload have the same observation");
    }

    let en = enumerate(&rec.log, thorough);
    let deadline = mcx::Deadline::after_secs(if thorough { 1000 } else { 45 });
    let evaluated = AtomicU64::new(0);
    let gid = rec.gid;
    let log = &rec.log;
    let root = scratch.path().to_path_buf();
    let mut results: Vec<Option<ImageResult>> = vec![None; en.recipes.len()];
    let mut cap = false;
    for (ci, chunk) in en.recipes.chunks(4096).enumerate() {
        if deadline.passed() {
            cap = true;
            break;
        }
        let outs: Vec<ImageResult> = chunk
            .par_iter()
            .map(|r| {
                let dir = root.join(format!("t{}", mcx::rayon::current_thread_index().map(|i| i as i64).unwrap_or(-1)));
                let _ = std::fs::create_dir_all(&dir);
                evaluated.fetch_add(1, Relaxed);
                evaluate(&dir, gid, log, r)
            })
            .collect();
        for (j, o) in outs.into_iter().enumerate() {
            results[ci * 4096 + j] = Some(o);
        }
    }

    // reference: one more commit on the uncrashed state of commit j
    let mut ref_second: Vec<Option<u128>> = vec![None; rec.obs.len()];
    for (p, r) in rec.log.iter().enumerate() {
        if let Rec::Marker(j) = r {
            // context at prefix p (just before the marker record) with everything synced
            if let Some(c) = en.contexts.iter().find(|c| c.prefix == p + 1 && c.desc.starts_with("kept mask 0b0 of 0")) {
                if let Some(Some(res)) = results.get(c.recipe_id) {
                    match (&res.first, &res.second) {
                        (Ok(h), Some(Ok(s))) if *h == obs_hash[*j] => ref_second[*j] = Some(*s),
                        other => {
                            rep.violation(format!("clean image after commit {j} ({})", rec.steps[*j]), format!("reopening the fully synced file right after commit {j} returned does not give its state / cannot commit again: {other:?}"), json!({"prefix": p + 1, "recipe": en.recipes[c.recipe_id]}));
                        }
                    }
                }
            }
        }
    }

    let mut judged = 0u64;
    let mut nontrivial: BTreeSet<usize> = BTreeSet::new();
    let mut outcomes: HashMap<&'static str, u64> = HashMap::new();
    let mut sampled = 0;
    for c in &en.contexts {
        let Some(Some(res)) = results.get(c.recipe_id) else { continue };
        judged += 1;
        if c.nontrivial {
            nontrivial.insert(c.recipe_id);
        }
        let k = c.commits_returned;
        let in_progress = if k < rec.obs.len() { Some(k) } else { None };
        let key = || format!("crash after {} of {} logged operations ({} commits returned; in progress: {}): {}", c.prefix, rec.log.len(), k, in_progress.map(|j| rec.steps[j]).unwrap_or("none"), c.desc);
        let replay_v = || json!({"prefix": c.prefix, "recipe": en.recipes[c.recipe_id], "tier": args.tier.as_str()});
        let recovered: Option<usize> = match &res.first {
            Err(e) => {
                if k == 0 {
                    *outcomes.entry("error_before_first_commit").or_default() += 1;
                } else {
                    *outcomes.entry("violation").or_default() += 1;
                    rep.violation(key(), format!("reopen fails although commit {} had returned: {e}", k - 1), replay_v());
                }
                None
            }
            Ok(h) => {
                if k > 0 && *h == obs_hash[k - 1] {
                    *outcomes.entry("recovered_last_returned_commit").or_default() += 1;
                    Some(k - 1)
                } else if in_progress.is_some_and(|j| *h == obs_hash[j]) {
                    *outcomes.entry("recovered_commit_in_progress").or_default() += 1;
                    in_progress
                } else {
                    *outcomes.entry("violation").or_default() += 1;
                    let which = obs_hash.iter().position(|x| x == h).map(|j| format!("the state of commit {j}")).unwrap_or_else(|| "a state that no commit produced".into());
                    rep.violation(key(), format!("reopen yields {which}; allowed: commit {:?} (last returned) or commit {:?} (in progress)", k.checked_sub(1), in_progress), replay_v());
                    None
                }
            }
        };
        if let (Some(j), Ok(h)) = (recovered, &res.first) {
            // when the commit in progress leaves the observation unchanged either root may have
            // been recovered: the follow-up commit must match one of the two uncrashed references
            let wants: Vec<u128> = [k.checked_sub(1), in_progress].into_iter().flatten().filter(|&x| obs_hash[x] == *h).filter_map(|x| ref_second[x]).collect();
            match &res.second {
                Some(Ok(s)) if wants.contains(s) => {}
                Some(Ok(_)) if !wants.is_empty() => {
                    *outcomes.entry("violation").or_default() += 1;
                    rep.violation(key(), format!("after one more commit and reopen the graph differs from the same commit made on the uncrashed state of commit {j} (stale data visible?)"), replay_v());
                }
                Some(Err(e)) => {
                    *outcomes.entry("violation").or_default() += 1;
                    rep.violation(key(), format!("recovered commit {j}, but {e}"), replay_v());
                }
                _ => {}
            }
        }
        if sampled < 4 && c.nontrivial && (judged % 997 == 1) {
            sampled += 1;
            rep.sample(json!({"crash_after_ops": c.prefix, "commits_returned": k, "pattern": c.desc, "recovered_commit": recovered}));
        }
    }
    // ---- second crash generation --------------------------------------------------------------
    // Generation-1 images that reopen to a state and belong to at least one crash case with a
    // returned commit are grouped by (raw bytes of both root slots, recovered observation).
    // Members of a group agree on everything `Writer::open` reads and on every byte reachable
    // from the recovered root; they differ only in unreachable bytes past the recovered write
    // frontier, which the continuation overwrites or never reads — so their futures agree and
    // one representative carries the group.
    let mut kmax: HashMap<usize, usize> = HashMap::new();
    for c in &en.contexts {
        let e = kmax.entry(c.recipe_id).or_insert(0);
        *e = (*e).max(c.commits_returned);
    }
    let mut groups: std::collections::BTreeMap<(u128, u128), usize> = std::collections::BTreeMap::new();
    let mut gen1_recovering = 0u64;
    for (id, res) in results.iter().enumerate() {
        if let Some(ImageResult { first: Ok(h), slots, .. }) = res {
            if kmax.get(&id).copied().unwrap_or(0) >= 1 {
                gen1_recovering += 1;
                groups.entry((*slots, *h)).or_insert(id);
            }
        }
    }
    let mut gen2s: Vec<Gen2> = Vec::new();
    let g2dir = scratch.path().join("gen2rec");
    for (_, &id) in groups.iter() {
        match record_gen2(&g2dir, gid, log, &en.recipes[id], id, thorough) {
            Ok(g) => gen2s.push(g),
            Err(e) => {
                *outcomes.entry("violation").or_default() += 1;
                rep.violation(format!("generation 2: continuation on the image recovered from: {}", en.contexts.iter().find(|c| c.recipe_id == id).map(|c| c.desc.clone()).unwrap_or_default()), e, json!({"gen1_recipe": en.recipes[id]}));
            }
        }
    }
    let g2cases: Vec<(usize, usize)> = gen2s.iter().enumerate().flat_map(|(gi, g)| (0..g.en.recipes.len()).map(move |ri| (gi, ri))).collect();
    let g2outs: Vec<Result<u128, String>> = g2cases
        .par_iter()
        .map(|&(gi, ri)| {
            let dir = root.join(format!("t{}", mcx::rayon::current_thread_index().map(|i| i as i64).unwrap_or(-1)));
            let _ = std::fs::create_dir_all(&dir);
            let g = &gen2s[gi];
            evaluate_gen2(&dir, gid, log, &en.recipes[g.base], g, &g.en.recipes[ri])
        })
        .collect();
    let mut g2res: HashMap<(usize, usize), &Result<u128, String>> = HashMap::new();
    for (c, o) in g2cases.iter().zip(g2outs.iter()) {
        g2res.insert(*c, o);
    }
    let (mut g2_judged, mut g2_prev, mut g2_new, mut g2_nontrivial) = (0u64, 0u64, 0u64, BTreeSet::new());
    let mut g2_stale = 0u64;
    // crash 1 kept the body of a root record but lost the 4-byte length prefix written just before it
    let stale_body = |recipe_id: usize| -> bool {
        let r = &en.recipes[recipe_id];
        r.iter().any(|&(i, len)| {
            let i = i as usize;
            matches!(&rec.log[i], Rec::Write { off, data } if (*off == 4100 || *off == 8196) && data.len() == len as usize) && i > 0 && matches!(&rec.log[i - 1], Rec::Write { off, .. } if *off == 4096 || *off == 8192) && !r.iter().any(|&(j, _)| j as usize == i - 1)
        })
    };
    for (gi, g) in gen2s.iter().enumerate() {
        let base_ctx = en.contexts.iter().find(|c| c.recipe_id == g.base && c.commits_returned >= 1);
        let base_desc = base_ctx.map(|c| format!("crash after {} of {} logged operations, {}", c.prefix, rec.log.len(), c.desc)).unwrap_or_default();
        for c2 in &g.en.contexts {
            let Some(res) = g2res.get(&(gi, c2.recipe_id)) else { continue };
            g2_judged += 1;
            if c2.nontrivial {
                g2_nontrivial.insert((gi, c2.recipe_id));
            }
            let k2 = c2.commits_returned;
            let allowed: &[u128] = &g.states[k2.min(g.states.len() - 1)..(k2 + 2).min(g.states.len())];
            let key2 = || format!("second crash: [{base_desc}] recovered; then crash after {} of {} operations of the recovered session ({k2} further commits returned): {}", c2.prefix, g.log.len(), c2.desc);
            let replay2 = || json!({"gen1_recipe": en.recipes[g.base], "gen2_prefix": c2.prefix, "gen2_recipe": g.en.recipes[c2.recipe_id], "tier": args.tier.as_str()});
            match res {
                Err(e) if stale_body(g.base) => {
                    // one recognisable class, reported under a single key
                    *outcomes.entry("violation").or_default() += 1;
                    g2_stale += 1;
                    rep.violation(STALE_ROOT_BODY_KEY, format!("first of this class: {}\nreopen after the second crash fails although commits had returned: {e}", key2()), replay2());
                }
                Err(e) => {
                    *outcomes.entry("violation").or_default() += 1;
                    rep.violation(key2(), format!("reopen after the second crash fails although commits had returned: {e}"), replay2());
                }
                Ok(h) if allowed.contains(h) => {
                    if *h == allowed[0] && allowed.len() > 1 {
                        g2_prev += 1;
                    } else {
                        g2_new += 1;
                    }
                }
                Ok(_) => {
                    *outcomes.entry("violation").or_default() += 1;
                    rep.violation(key2(), "reopen after the second crash yields neither the last returned commit nor the commit in progress".to_string(), replay2());
                }
            }
        }
    }
    rep.count("gen2_generation1_images_recovering_after_a_returned_commit", gen1_recovering);
    rep.count("gen2_classes_of_recovered_images", gen2s.len() as u64);
    rep.count("gen2_crash_cases_judged", g2_judged);
    rep.count("gen2_images_reopened", g2cases.len() as u64);
    rep.count("gen2_recovered_previous_state", g2_prev);
    rep.count("gen2_stale_root_body_resurrected", g2_stale);
    rep.count("gen2_recovered_commit_in_progress_or_last", g2_new);
    if rep.violations().is_empty() {
        for c in ["gen2_classes_of_recovered_images", "gen2_crash_cases_judged", "gen2_recovered_previous_state", "gen2_recovered_commit_in_progress_or_last"] {
            rep.require_nonzero(c);
        }
    }
    let gen2_images = g2cases.len() as u64;
    let gen2_nontrivial = g2_nontrivial.len() as u64;

    // error-return family (no crash): one intercepted call fails per run.  Only what C15 states is
    // judged here (reopen after the failure / final reopen); the same-handle clauses are C07/C08.
    let efam = errfam::run_family(&mut rep, errfam::Mode::C15, scratch.path(), args.tier);
    *outcomes.entry("violation").or_default() += efam.violations;
    drop(scratch);
    for (k2, v) in &outcomes {
        rep.outcome(k2, *v);
    }
    rep.sample(json!({"workload": rec.steps, "log_length": rec.log.len(), "log_head": rec.log.iter().take(14).map(|r| match r { Rec::Write { off, data } => format!("pwrite({off},{}B)", data.len()), Rec::Falloc { end } => format!("fallocate(..{end})"), Rec::Sync => "sync".into(), Rec::Marker(k) => format!("CommitReturned({k})") }).collect::<Vec<_>>()}));
    rep.set("evaluations", evaluated.load(Relaxed) + efam.runs + gen2_images);
    rep.set("crash_cases_judged", judged);
    rep.set("crash_cases_enumerated", en.contexts.len() as u64);
    rep.set("distinct_images", en.recipes.len() as u64);
    rep.set("distinct_nontrivial", nontrivial.len() as u64 + gen2_nontrivial);
    rep.set("rule", format!("crash case = (prefix of the recorded op log, persistence pattern of the writes since the last completed sync: kept/lost subsets — all 2^|W| for |W|<={}, else within {} deviations of all-kept/all-lost — and single torn writes {}at 512-byte boundaries and, for sub-sector writes, after byte 1, len/2, len-1, with the other unsynced writes all kept / all lost / kept-before / kept-after); cases giving the same file content are reopened once (evaluations = distinct images reopened); non-trivial = distinct images in which the unsynced writes are neither all kept nor all lost (a proper non-empty subset or a torn write); a second generation repeats this on every class of recovered images over a continuation of {} commits", if thorough { 14 } else { 12 }, if thorough { 4 } else { 3 }, if thorough { "at EVERY byte position of root records, " } else { "" }, if thorough { 3 } else { 2 }));
    rep.set("exhaustive", !cap);
    if cap {
        rep.set("cap_hit", true);
    }
    rep.set("largest_unsynced_window", en.max_w as u64);
    rep.count("subset_patterns_exhaustive", en.exhaustive_subsets);
    rep.count("subset_patterns_deviation_bounded", en.bounded_subsets);
    rep.count("torn_write_patterns", en.torn);
    rep.count("recovered_last_returned_commit", *outcomes.get("recovered_last_returned_commit").unwrap_or(&0));
    rep.count("recovered_commit_in_progress", *outcomes.get("recovered_commit_in_progress").unwrap_or(&0));
    rep.count("error_before_first_commit", *outcomes.get("error_before_first_commit").unwrap_or(&0));
    for c in ["torn_write_patterns", "recovered_last_returned_commit", "recovered_commit_in_progress", "error_before_first_commit", "subset_patterns_exhaustive"] {
        if rep.violations().is_empty() {
            rep.require_nonzero(c);
        }
    }
    rep.assume("a completed fsync/fdatasync makes every earlier write, the file size and the file's existence durable");
    rep.assume("writes issued after a completed sync cannot reach the disk before that sync's writes (no reordering across a completed sync); unsynced writes persist independently of each other");
    rep.assume("torn writes are prefixes: sector-atomic at 512-byte boundaries, plus sub-sector prefixes (1, len/2, len-1 bytes) for writes shorter than a sector");
    rep.assume("in the checking phase fallocate is forwarded as a size extension (identical file content); recording uses the real fallocate");
    rep.assume("error-return family: a call that returns an error is judged like a crash at that point followed by a reopen ('commit in progress' = the step that returned Err); a failed graph creation only has to return Err");
    rep.finish()
}

fn replay(args: &Args, rec: &Recorded, scratch: mcx::Scratch, path: &Path) -> ! {
    let txt = std::fs::read_to_string(path).unwrap_or_else(|e| mcx::machinery_error(&format!("replay file: {e}")));
    let v: Value = mcx::serde_json::from_str(&txt).unwrap_or_else(|e| mcx::machinery_error(&format!("replay file: {e}")));
    let r = &v["replay"];
    if r.get("error_case").is_some() {
        let root = scratch.path().to_path_buf();
        let code = errfam::replay_case(args, errfam::Mode::C15, &root, r, path);
        drop(scratch);
        std::process::exit(code)
    }
    if r["tier"].as_str().is_some_and(|t| t != args.tier.as_str()) {
        mcx::machinery_error("replay file was recorded for the other tier's workload: pass the matching --tier");
    }
    let prefix = r["prefix"].as_u64().unwrap_or_else(|| mcx::machinery_error("replay: prefix")) as usize;
    let recipe: Recipe = r["recipe"].as_array().unwrap_or_else(|| mcx::machinery_error("replay: recipe")).iter().map(|p| (p[0].as_u64().unwrap() as u32, p[1].as_u64().unwrap() as u32)).collect();
    let dir = scratch.path().join("replay");
    std::fs::create_dir_all(&dir).unwrap();
    let res = evaluate(&dir, rec.gid, &rec.log, &recipe);
    let k = rec.log[..prefix].iter().filter(|r| matches!(r, Rec::Marker(_))).count();
    let obs_hash: Vec<u128> = rec.obs.iter().map(|o| hash128(o)).collect();
    println!("crash after {prefix} logged operations, {k} commits returned; image = {} applied writes", recipe.len());
    let verdict = match &res.first {
        Err(e) => {
            println!("reopen: Err: {e}");
            k == 0
        }
        Ok(h) => {
            let js: Vec<usize> = (0..obs_hash.len()).filter(|&j| obs_hash[j] == *h).collect();
            println!("reopen: state of commit(s) {js:?}; one more commit + reopen: {:?}", res.second.as_ref().map(|s| s.is_ok()));
            js.iter().any(|&j| j + 1 == k || j == k) && res.second.as_ref().is_some_and(|s| s.is_ok())
        }
    };
    drop(scratch);
    if verdict {
        println!("replay: no violation");
        std::process::exit(0)
    } else {
        println!("VIOLATION property={} replay={}", args.prop, path.display());
        std::process::exit(1)
    }
}

