//! C21 — the traversal queue keeps its ordering and coverage rules.
//!
//! Subject: the real `aranya_runtime::storage::TraversalQueue` (public type, driven through its
//! public methods only).
//!
//! Space: breadth-first exploration of **exact internal states** of the queue, starting from
//! `TraversalQueue::new()`.  The canonical key of a state is the derived `Debug` string of the
//! queue, which prints every field (`entries` in vector order and `partition`), so two histories
//! are merged only when the objects are field-for-field identical (same future under every
//! operation; `Vec` capacity is not observable).  Every state is rebuilt by replaying its
//! (shortest) history on a fresh queue, because the type is not `Clone`.
//!
//! * de-dup mode: push, push_covered, pop, pop_covered, peek, cover_up_to, drain_above, drain_all,
//!   all_covered, is_empty, clear over locations {seg} × {max_cut}, explored to closure (the
//!   alphabet is closed: `cover_up_to` can only raise a max cut to `coverage+1 ≤ longest`).
//! * duplicate mode: push_duplicate, pop_duplicates, pop, pop_covered, peek, drain_above,
//!   drain_all, all_covered, is_empty, clear; at most `dup_max` entries.
//! * mixed mode: both families interleaved, at most `mixed_max` entries, weak oracle only (the
//!   doc comments do not say what de-dup pushes do in the presence of duplicates).
//!
//! Oracle (statement + doc comments of `push`, `push_covered`, `push_duplicate`, `pop*`,
//! `cover_up_to`, `drain_above`, `drain_all`): a multiset of `(segment, max_cut, covered)` kept by
//! the harness.  After every operation the real queue is drained with `pop_covered` and must hold
//! exactly the model's entries, coming out with non-increasing max cut; every pop/peek returns an
//! entry whose max cut is the highest present (ties between segments are left to the
//! implementation, the model follows the real choice); at most one entry per segment in de-dup
//! mode; `drain_above(t)` hands out exactly the uncovered entries with `max_cut > t`, discards the
//! covered ones above `t` and keeps everything else; no operation returns `Err` or panics.

use std::collections::HashMap;

use aranya_runtime::storage::{Location, MaxCut, SegmentIndex, TraversalQueue};
use mcx::{
    json,
    rayon::prelude::*,
    Args, Level, Report, Value,
};

#[derive(Clone, Copy, Debug, PartialEq, Eq)]
enum Mode {
    Dedup,
    Dup,
    Mixed,
}

impl Mode {
    fn name(self) -> &'static str {
        match self {
            Mode::Dedup => "dedup",
            Mode::Dup => "dup",
            Mode::Mixed => "mixed",
        }
    }
}

#[derive(Clone, Copy, Debug, PartialEq, Eq)]
enum Op {
    Push(u64, u64),
    PushCovered(u64, u64, bool),
    PushDuplicate(u64, u64),
    Pop,
    PopCovered,
    PopDuplicates,
    Peek,
    CoverUpTo(u64, u64, u64),
    DrainAbove(u64),
    DrainAll,
    AllCovered,
    IsEmpty,
    Clear,
}

impl Op {
    fn show(&self) -> String {
        match *self {
            Op::Push(s, m) => format!("push({s}:{m})"),
            Op::PushCovered(s, m, c) => format!("push_covered({s}:{m},{c})"),
            Op::PushDuplicate(s, m) => format!("push_duplicate({s}:{m})"),
            Op::Pop => "pop".into(),
            Op::PopCovered => "pop_covered".into(),
            Op::PopDuplicates => "pop_duplicates".into(),
            Op::Peek => "peek".into(),
            Op::CoverUpTo(s, c, l) => format!("cover_up_to({s},{c},{l})"),
            Op::DrainAbove(t) => format!("drain_above({t})"),
            Op::DrainAll => "drain_all".into(),
            Op::AllCovered => "all_covered".into(),
            Op::IsEmpty => "is_empty".into(),
            Op::Clear => "clear".into(),
        }
    }
    fn to_json(&self) -> Value {
        match *self {
            Op::Push(s, m) => json!(["push", s, m]),
            Op::PushCovered(s, m, c) => json!(["push_covered", s, m, c]),
            Op::PushDuplicate(s, m) => json!(["push_duplicate", s, m]),
            Op::Pop => json!(["pop"]),
            Op::PopCovered => json!(["pop_covered"]),
            Op::PopDuplicates => json!(["pop_duplicates"]),
            Op::Peek => json!(["peek"]),
            Op::CoverUpTo(s, c, l) => json!(["cover_up_to", s, c, l]),
            Op::DrainAbove(t) => json!(["drain_above", t]),
            Op::DrainAll => json!(["drain_all"]),
            Op::AllCovered => json!(["all_covered"]),
            Op::IsEmpty => json!(["is_empty"]),
            Op::Clear => json!(["clear"]),
        }
    }
    fn from_json(v: &Value) -> Option<Op> {
        let a = v.as_array()?;
        let n = |i: usize| a.get(i).and_then(|x| x.as_u64());
        Some(match a.first()?.as_str()? {
            "push" => Op::Push(n(1)?, n(2)?),
            "push_covered" => Op::PushCovered(n(1)?, n(2)?, a.get(3)?.as_bool()?),
            "push_duplicate" => Op::PushDuplicate(n(1)?, n(2)?),
            "pop" => Op::Pop,
            "pop_covered" => Op::PopCovered,
            "pop_duplicates" => Op::PopDuplicates,
            "peek" => Op::Peek,
            "cover_up_to" => Op::CoverUpTo(n(1)?, n(2)?, n(3)?),
            "drain_above" => Op::DrainAbove(n(1)?),
            "drain_all" => Op::DrainAll,
            "all_covered" => Op::AllCovered,
            "is_empty" => Op::IsEmpty,
            "clear" => Op::Clear,
            _ => return None,
        })
    }
}

/// (segment, max_cut, covered)
type Entry = (u64, u64, bool);

fn loc(s: u64, m: u64) -> Location {
    Location::new(SegmentIndex::new(s), MaxCut::new(m))
}

fn key_of(mode: Mode, hist: &[Op]) -> String {
    let mut s = format!("{}:", mode.name());
    for (i, o) in hist.iter().enumerate() {
        s.push_str(if i == 0 { " " } else { "; " });
        s.push_str(&o.show());
    }
    s
}

fn replay_json(mode: Mode, hist: &[Op]) -> Value {
    json!({"mode": mode.name(), "ops": hist.iter().map(|o| o.to_json()).collect::<Vec<_>>()})
}

/// Apply `op` to the real queue without any checking (used to rebuild a state).
fn apply_raw(q: &mut TraversalQueue, op: &Op) {
    match *op {
        Op::Push(s, m) => {
            let _ = q.push(loc(s, m));
        }
        Op::PushCovered(s, m, c) => {
            let _ = q.push_covered(loc(s, m), c);
        }
        Op::PushDuplicate(s, m) => {
            let _ = q.push_duplicate(loc(s, m));
        }
        Op::Pop => {
            let _ = q.pop();
        }
        Op::PopCovered => {
            let _ = q.pop_covered();
        }
        Op::PopDuplicates => {
            let _ = q.pop_duplicates();
        }
        Op::Peek => {
            let _ = q.peek();
        }
        Op::CoverUpTo(s, c, l) => {
            let _ = q.cover_up_to(SegmentIndex::new(s), MaxCut::new(c), MaxCut::new(l));
        }
        Op::DrainAbove(t) => {
            let _ = q.drain_above(MaxCut::new(t), |_| {});
        }
        Op::DrainAll => q.drain_all(|_| {}),
        Op::AllCovered => {
            let _ = q.all_covered();
        }
        Op::IsEmpty => {
            let _ = q.is_empty();
        }
        Op::Clear => q.clear(),
    }
}

fn max_mc(model: &[Entry]) -> Option<u64> {
    model.iter().map(|e| e.1).max()
}

fn remove_one(model: &mut Vec<Entry>, pred: impl Fn(&Entry) -> bool) -> Option<Entry> {
    let i = model.iter().position(pred)?;
    Some(model.remove(i))
}

fn sorted(mut v: Vec<Entry>) -> Vec<Entry> {
    v.sort();
    v
}

/// Counters a single transition reports back (merged by the caller).
#[derive(Default, Clone)]
struct Fired {
    pops_some: u64,
    pops_none: u64,
    pop_ties: u64,
    merged_higher: u64,
    merged_equal: u64,
    merged_lower: u64,
    moved_to_covered: u64,
    moved_to_uncovered: u64,
    cover_full: u64,
    cover_partial: u64,
    cover_noop: u64,
    drained_uncovered: u64,
    discarded_covered: u64,
    dup_counts_gt1: u64,
}

impl Fired {
    fn add(&mut self, o: &Fired) {
        self.pops_some += o.pops_some;
        self.pops_none += o.pops_none;
        self.pop_ties += o.pop_ties;
        self.merged_higher += o.merged_higher;
        self.merged_equal += o.merged_equal;
        self.merged_lower += o.merged_lower;
        self.moved_to_covered += o.moved_to_covered;
        self.moved_to_uncovered += o.moved_to_uncovered;
        self.cover_full += o.cover_full;
        self.cover_partial += o.cover_partial;
        self.cover_noop += o.cover_noop;
        self.drained_uncovered += o.drained_uncovered;
        self.discarded_covered += o.discarded_covered;
        self.dup_counts_gt1 += o.dup_counts_gt1;
    }
}

/// The doc-comment rule of `push_covered` on the model (de-dup mode).
fn model_push(model: &mut Vec<Entry>, s: u64, m: u64, covered: bool, f: &mut Fired) {
    if let Some(e) = model.iter_mut().find(|e| e.0 == s) {
        let was = e.2;
        if m > e.1 {
            e.1 = m;
            e.2 = covered;
            f.merged_higher += 1;
        } else if m == e.1 {
            e.2 = e.2 || covered;
            f.merged_equal += 1;
        } else {
            f.merged_lower += 1;
        }
        if !was && e.2 {
            f.moved_to_covered += 1;
        }
        if was && !e.2 {
            f.moved_to_uncovered += 1;
        }
    } else {
        model.push((s, m, covered));
    }
}

/// Run `op` on the real queue with the oracle; returns the successor model.
fn step(mode: Mode, q: &mut TraversalQueue, model: &[Entry], op: &Op, f: &mut Fired) -> Result<Vec<Entry>, String> {
    let mut next: Vec<Entry> = model.to_vec();
    // In mixed mode the de-dup family has no documented meaning; `None` = take the real content.
    let mut take_real = false;
    let mut alternative: Option<Vec<Entry>> = None;
    macro_rules! ok {
        ($e:expr, $what:expr) => {
            match $e {
                Ok(v) => v,
                Err(e) => return Err(format!("{} returned Err({e:?})", $what)),
            }
        };
    }
    match *op {
        Op::Push(s, m) => {
            ok!(q.push(loc(s, m)), "push");
            if mode == Mode::Mixed {
                take_real = true;
            } else {
                model_push(&mut next, s, m, false, f);
            }
        }
        Op::PushCovered(s, m, c) => {
            ok!(q.push_covered(loc(s, m), c), "push_covered");
            if mode == Mode::Mixed {
                take_real = true;
            } else {
                model_push(&mut next, s, m, c, f);
            }
        }
        Op::PushDuplicate(s, m) => {
            ok!(q.push_duplicate(loc(s, m)), "push_duplicate");
            next.push((s, m, false));
        }
        Op::Pop | Op::PopCovered => {
            let got: Option<(Location, Option<bool>)> = if *op == Op::Pop {
                ok!(q.pop(), "pop").map(|l| (l, None))
            } else {
                ok!(q.pop_covered(), "pop_covered").map(|(l, c)| (l, Some(c)))
            };
            match (got, max_mc(model)) {
                (None, None) => f.pops_none += 1,
                (None, Some(_)) => return Err(format!("{} returned None on a non-empty queue {model:?}", op.show())),
                (Some((l, _)), None) => return Err(format!("{} returned {l} from an empty queue", op.show())),
                (Some((l, c)), Some(mx)) => {
                    f.pops_some += 1;
                    let (s, m) = (l.segment.get(), l.max_cut.get());
                    if m != mx {
                        return Err(format!("{} returned {s}:{m} but the highest max cut present is {mx} (model {model:?})", op.show()));
                    }
                    if model.iter().filter(|e| e.1 == mx).map(|e| e.0).collect::<std::collections::BTreeSet<_>>().len() > 1 {
                        f.pop_ties += 1;
                    }
                    let removed = match c {
                        Some(c) => remove_one(&mut next, |e| *e == (s, m, c)),
                        None => {
                            // `pop` hides the flag: if the location is present both covered and
                            // uncovered (possible in mixed mode only) either may have been taken.
                            let has = |c: bool| model.iter().any(|e| *e == (s, m, c));
                            if has(true) && has(false) {
                                let mut alt = model.to_vec();
                                remove_one(&mut alt, |e| *e == (s, m, true));
                                alternative = Some(alt);
                                remove_one(&mut next, |e| *e == (s, m, false))
                            } else {
                                remove_one(&mut next, |e| e.0 == s && e.1 == m)
                            }
                        }
                    };
                    if removed.is_none() {
                        return Err(format!("{} returned ({s}:{m}, covered={c:?}) which is not an entry of the queue (model {model:?})", op.show()));
                    }
                }
            }
        }
        Op::PopDuplicates => match (ok!(q.pop_duplicates(), "pop_duplicates"), max_mc(model)) {
            (None, None) => f.pops_none += 1,
            (None, Some(_)) => return Err(format!("pop_duplicates returned None on a non-empty queue {model:?}")),
            (Some((l, _)), None) => return Err(format!("pop_duplicates returned {l} from an empty queue")),
            (Some((l, n)), Some(mx)) => {
                f.pops_some += 1;
                let (s, m) = (l.segment.get(), l.max_cut.get());
                if m != mx {
                    return Err(format!("pop_duplicates returned {s}:{m} but the highest max cut present is {mx} (model {model:?})"));
                }
                let have = model.iter().filter(|e| e.0 == s && e.1 == m).count();
                if have == 0 || have != n {
                    return Err(format!("pop_duplicates returned ({s}:{m}, count={n}) but the queue holds {have} entries at that location (model {model:?})"));
                }
                if n > 1 {
                    f.dup_counts_gt1 += 1;
                }
                next.retain(|e| !(e.0 == s && e.1 == m));
            }
        },
        Op::Peek => match (q.peek().copied(), max_mc(model)) {
            (None, None) => {}
            (Some(l), Some(mx)) => {
                let (s, m) = (l.segment.get(), l.max_cut.get());
                if m != mx || !model.iter().any(|e| e.0 == s && e.1 == m) {
                    return Err(format!("peek returned {s}:{m}; highest max cut present is {mx} (model {model:?})"));
                }
            }
            (a, b) => return Err(format!("peek returned {a:?} but model max is {b:?}")),
        },
        Op::CoverUpTo(s, c, l) => {
            ok!(q.cover_up_to(SegmentIndex::new(s), MaxCut::new(c), MaxCut::new(l)), "cover_up_to");
            if mode == Mode::Mixed {
                take_real = true;
            } else if let Some(e) = next.iter_mut().find(|e| e.0 == s) {
                if e.2 {
                    // already covered: nothing more to cover
                    f.cover_noop += 1;
                } else if c >= l {
                    e.2 = true;
                    f.cover_full += 1;
                } else if c >= e.1 {
                    e.1 = c + 1;
                    f.cover_partial += 1;
                } else {
                    f.cover_noop += 1;
                }
            }
        }
        Op::DrainAbove(t) => {
            let mut got: Vec<Entry> = Vec::new();
            ok!(q.drain_above(MaxCut::new(t), |l| got.push((l.segment.get(), l.max_cut.get(), false))), "drain_above");
            let want: Vec<Entry> = model.iter().copied().filter(|e| e.1 > t && !e.2).collect();
            if sorted(got.clone()) != sorted(want.clone()) {
                return Err(format!("drain_above({t}) handed out {:?}, expected exactly the uncovered entries above the threshold {:?} (model {model:?})", sorted(got), sorted(want)));
            }
            f.drained_uncovered += want.len() as u64;
            f.discarded_covered += model.iter().filter(|e| e.1 > t && e.2).count() as u64;
            next.retain(|e| e.1 <= t);
        }
        Op::DrainAll => {
            let mut got: Vec<Entry> = Vec::new();
            q.drain_all(|l| got.push((l.segment.get(), l.max_cut.get(), false)));
            let want: Vec<Entry> = model.iter().copied().filter(|e| !e.2).collect();
            if sorted(got.clone()) != sorted(want.clone()) {
                return Err(format!("drain_all handed out {:?}, expected the uncovered entries {:?}", sorted(got), sorted(want)));
            }
            next.clear();
        }
        Op::AllCovered => {
            let want = !model.iter().any(|e| !e.2);
            if q.all_covered() != want {
                return Err(format!("all_covered() = {} but model {model:?}", !want));
            }
        }
        Op::IsEmpty => {
            if q.is_empty() != model.is_empty() {
                return Err(format!("is_empty() = {} but model {model:?}", q.is_empty()));
            }
        }
        Op::Clear => {
            q.clear();
            next.clear();
        }
    }
    // Non-destructive observations after every operation.
    if !take_real && alternative.is_none() {
        if q.is_empty() != next.is_empty() {
            return Err(format!("after {}: is_empty() = {} but model {next:?}", op.show(), q.is_empty()));
        }
        if q.all_covered() != !next.iter().any(|e| !e.2) {
            return Err(format!("after {}: all_covered() = {} but model {next:?}", op.show(), q.all_covered()));
        }
    }
    if take_real {
        // weak oracle: entries of other segments are untouched; the real content becomes the model
        let seg = match *op {
            Op::Push(s, _) | Op::PushCovered(s, _, _) | Op::CoverUpTo(s, _, _) => s,
            _ => unreachable!(),
        };
        // content is read by the caller (destructive drain); signal with a marker entry
        next.push((u64::MAX, seg, false));
    }
    if let Some(alt) = alternative {
        // marker: a second acceptable successor follows
        next.push((u64::MAX - 1, alt.len() as u64, false));
        next.extend(alt);
    }
    Ok(next)
}

/// Drain the (throw-away) real queue; returns its content in pop order.
fn drain_real(q: &mut TraversalQueue) -> Result<Vec<Entry>, String> {
    let mut out = Vec::new();
    let mut guard = 0;
    loop {
        match q.pop_covered() {
            Ok(Some((l, c))) => out.push((l.segment.get(), l.max_cut.get(), c)),
            Ok(None) => break,
            Err(e) => return Err(format!("pop_covered returned Err({e:?}) while draining")),
        }
        guard += 1;
        if guard > 1000 {
            return Err("queue does not drain (more than 1000 pops)".into());
        }
    }
    if !q.is_empty() {
        return Err("pop_covered returned None but is_empty() is false".into());
    }
    Ok(out)
}

struct Outcome {
    op: usize,
    /// Ok((canonical key, successor model)) or the violation text
    res: Result<(String, Vec<Entry>), String>,
    fired: Fired,
    queue_ops: u64,
}

/// One transition: rebuild the state from its history, run `op` with the oracle, then compare the
/// full content of the real queue with the successor model.
fn transition(mode: Mode, hist: &[Op], model: &[Entry], opi: usize, op: &Op) -> Outcome {
    let mut fired = Fired::default();
    let mut queue_ops = 0u64;
    let res = mcx::catch(|| -> Result<(String, Vec<Entry>), String> {
        let mut q = TraversalQueue::new();
        for o in hist {
            apply_raw(&mut q, o);
            queue_ops += 1;
        }
        let mut next = step(mode, &mut q, model, op, &mut fired)?;
        queue_ops += 1;
        let key = format!("{q:?}");
        let content = drain_real(&mut q)?;
        queue_ops += content.len() as u64 + 1;
        // pops come out with non-increasing max cut
        if content.windows(2).any(|w| w[0].1 < w[1].1) {
            return Err(format!("after {}: successive pops do not have non-increasing max cut: {content:?}", op.show()));
        }
        if let Some(i) = next.iter().position(|e| e.0 == u64::MAX - 1) {
            let alt: Vec<Entry> = next.split_off(i + 1);
            next.pop();
            if sorted(content.clone()) == sorted(alt.clone()) {
                next = alt;
            }
        }
        if let Some(&(u64::MAX, seg, _)) = next.last() {
            next.pop();
            // mixed-mode weak oracle: other segments untouched
            let other = |v: &[Entry]| sorted(v.iter().copied().filter(|e| e.0 != seg).collect());
            if other(&content) != other(model) {
                return Err(format!("after {}: entries of other segments changed: before {model:?}, after {content:?}", op.show()));
            }
            next = content.clone();
        }
        if sorted(content.clone()) != sorted(next.clone()) {
            return Err(format!("after {}: queue holds {:?}, documented rules give {:?}", op.show(), sorted(content), sorted(next)));
        }
        if mode == Mode::Dedup {
            let mut segs: Vec<u64> = content.iter().map(|e| e.0).collect();
            segs.sort();
            if segs.windows(2).any(|w| w[0] == w[1]) {
                return Err(format!("after {}: more than one entry for a segment: {content:?}", op.show()));
            }
        }
        Ok((key, sorted(next)))
    });
    let res = match res {
        Ok(r) => r,
        Err(p) => Err(format!("panic: {p} at {}", mcx::last_panic_location())),
    };
    Outcome { op: opi, res, fired, queue_ops }
}

struct ModeResult {
    states: u64,
    transitions: u64,
    queue_ops: u64,
    depth: usize,
    max_entries: usize,
    closed: bool,
    fired: Fired,
}

fn ops_for(mode: Mode, segs: u64, mcs: u64) -> Vec<Op> {
    let mut v = Vec::new();
    let dedup = mode != Mode::Dup;
    let dup = mode != Mode::Dedup;
    for s in 0..segs {
        for m in 1..=mcs {
            if dedup {
                v.push(Op::Push(s, m));
                v.push(Op::PushCovered(s, m, false));
                v.push(Op::PushCovered(s, m, true));
            }
            if dup {
                v.push(Op::PushDuplicate(s, m));
            }
        }
    }
    v.push(Op::Pop);
    v.push(Op::PopCovered);
    v.push(Op::Peek);
    if dup {
        v.push(Op::PopDuplicates);
    }
    if dedup {
        for s in 0..segs {
            for c in 1..=mcs {
                for l in 1..=mcs {
                    v.push(Op::CoverUpTo(s, c, l));
                }
            }
        }
    }
    for t in 0..=mcs {
        v.push(Op::DrainAbove(t));
    }
    v.push(Op::DrainAll);
    v.push(Op::AllCovered);
    v.push(Op::IsEmpty);
    v.push(Op::Clear);
    v
}

fn explore(rep: &mut Report, mode: Mode, segs: u64, mcs: u64, max_entries: Option<usize>) -> ModeResult {
    let ops = ops_for(mode, segs, mcs);
    struct St {
        hist: Vec<Op>,
        model: Vec<Entry>,
    }
    let mut seen: HashMap<String, ()> = HashMap::new();
    seen.insert(format!("{:?}", TraversalQueue::new()), ());
    let mut frontier = vec![St { hist: vec![], model: vec![] }];
    let mut res = ModeResult { states: 1, transitions: 0, queue_ops: 0, depth: 0, max_entries: 0, closed: false, fired: Fired::default() };
    let mut sampled = 0;
    while !frontier.is_empty() {
        let outs: Vec<Vec<Outcome>> = frontier
            .par_iter()
            .map(|st| {
                ops.iter()
                    .enumerate()
                    .filter(|(_, op)| {
                        // entry bound of the duplicate / mixed modes
                        match (max_entries, op) {
                            (Some(mx), Op::PushDuplicate(..)) | (Some(mx), Op::Push(..)) | (Some(mx), Op::PushCovered(..)) => st.model.len() < mx,
                            _ => true,
                        }
                    })
                    .map(|(i, op)| transition(mode, &st.hist, &st.model, i, op))
                    .collect()
            })
            .collect();
        let mut next = Vec::new();
        for (st, outs) in frontier.iter().zip(outs) {
            for o in outs {
                res.transitions += 1;
                res.queue_ops += o.queue_ops;
                res.fired.add(&o.fired);
                let mut hist = st.hist.clone();
                hist.push(ops[o.op]);
                match o.res {
                    Err(text) => {
                        rep.outcome("violation", 1);
                        rep.violation(key_of(mode, &hist), text, replay_json(mode, &hist));
                    }
                    Ok((key, model)) => {
                        res.max_entries = res.max_entries.max(model.len());
                        if seen.insert(key.clone(), ()).is_none() {
                            res.states += 1;
                            if sampled < 2 && hist.len() >= 3 {
                                sampled += 1;
                                rep.sample(json!({"mode": mode.name(), "history": hist.iter().map(|o| o.show()).collect::<Vec<_>>(), "internal_state": key, "model": format!("{model:?}")}));
                            }
                            next.push(St { hist, model });
                        }
                    }
                }
            }
        }
        if !next.is_empty() {
            res.depth += 1;
        }
        frontier = next;
    }
    res.closed = true;
    res
}

pub fn run(args: &Args) {
    mcx::quiet_panics();
    if let Some(p) = &args.replay {
        replay(args, p);
    }
    let mut rep = Report::new(args, Level::ModelChecking);
    let (segs, mcs) = args.tier.pick((3u64, 3u64), (4, 4));
    let dup_max = args.tier.pick(5usize, 6);
    let mixed_max = args.tier.pick(3usize, 4);
    let mut total = Fired::default();
    let mut states = 0;
    let mut transitions = 0;
    let mut queue_ops = 0;
    let mut per_mode = serde_json_map();
    for (mode, (s, m), bound) in [
        (Mode::Dedup, (segs, mcs), None),
        (Mode::Dup, (segs.min(3), mcs.min(3)), Some(dup_max)),
        (Mode::Mixed, (segs.min(3).min(if args.tier == mcx::Tier::Quick { 2 } else { 3 }), mcs.min(3)), Some(mixed_max)),
    ] {
        let r = explore(&mut rep, mode, s, m, bound);
        states += r.states;
        transitions += r.transitions;
        queue_ops += r.queue_ops;
        total.add(&r.fired);
        per_mode.insert(
            mode.name().to_string(),
            json!({"segments": s, "max_cuts": format!("1..={m}"), "entry_bound": bound, "states": r.states, "transitions": r.transitions,
                   "bfs_depth": r.depth, "largest_queue": r.max_entries, "explored_to_closure": r.closed, "operations": ops_for(mode, s, m).len()}),
        );
        rep.outcome(&format!("{}_closed", mode.name()), 1);
    }
    rep.count("states", states);
    rep.count("transitions", transitions);
    rep.count("traces_validated_against_impl", transitions);
    rep.count("queue_operations_executed", queue_ops);
    rep.set("modes", Value::Object(per_mode));
    rep.set("exhaustive", true);
    rep.set(
        "bounds",
        json!({"dedup": format!("segments 0..{segs}, max cuts 1..={mcs}, thresholds 0..={mcs}, coverage/longest 1..={mcs}; closure of exact internal states"),
               "dup": format!("≤ {dup_max} entries"), "mixed": format!("≤ {mixed_max} entries, weak oracle")}),
    );
    for (k, v) in [
        ("pops_some", total.pops_some),
        ("pops_none", total.pops_none),
        ("pop_max_cut_ties", total.pop_ties),
        ("push_merged_higher", total.merged_higher),
        ("push_merged_equal", total.merged_equal),
        ("push_merged_lower", total.merged_lower),
        ("moved_to_covered", total.moved_to_covered),
        ("moved_to_uncovered", total.moved_to_uncovered),
        ("cover_full", total.cover_full),
        ("cover_partial", total.cover_partial),
        ("cover_noop", total.cover_noop),
        ("drained_uncovered", total.drained_uncovered),
        ("discarded_covered", total.discarded_covered),
        ("pop_duplicates_count_gt1", total.dup_counts_gt1),
    ] {
        rep.count(k, v);
        if rep.violations().is_empty() {
            rep.require_nonzero(k);
        }
        rep.outcome(k, v);
    }
    rep.assume("the derived Debug output of TraversalQueue prints every field (entries in order, partition), so equal strings mean identical objects");
    rep.assume("cover_up_to on an entry that is already covered leaves it unchanged (the doc comment only describes uncovered entries)");
    rep.finish()
}

fn serde_json_map() -> mcx::Map<String, Value> {
    mcx::Map::new()
}

fn replay(args: &Args, path: &std::path::Path) -> ! {
    let txt = std::fs::read_to_string(path).unwrap_or_else(|e| mcx::machinery_error(&format!("replay file: {e}")));
    let v: Value = mcx::serde_json::from_str(&txt).unwrap_or_else(|e| mcx::machinery_error(&format!("replay file: {e}")));
    let r = &v["replay"];
    let mode = match r["mode"].as_str() {
        Some("dedup") => Mode::Dedup,
        Some("dup") => Mode::Dup,
        Some("mixed") => Mode::Mixed,
        _ => mcx::machinery_error("replay: bad mode"),
    };
    let ops: Vec<Op> = r["ops"]
        .as_array()
        .unwrap_or_else(|| mcx::machinery_error("replay: ops"))
        .iter()
        .map(|o| Op::from_json(o).unwrap_or_else(|| mcx::machinery_error("replay: bad op")))
        .collect();
    let mut model: Vec<Entry> = Vec::new();
    for i in 0..ops.len() {
        let o = transition(mode, &ops[..i], &model, 0, &ops[i]);
        match o.res {
            Ok((key, m)) => {
                println!("{:<28} -> {key}   model {m:?}", ops[i].show());
                model = m;
            }
            Err(text) => {
                println!("{:<28} -> VIOLATION: {text}", ops[i].show());
                println!("VIOLATION property={} replay={}", args.prop, path.display());
                std::process::exit(1);
            }
        }
    }
    println!("replay: no violation");
    std::process::exit(0)
}
