//! Error-return families on the real libc `FileManager` (no crash): a multi-step workload runs on
//! `ClientState<_, LinearStorageProvider<FileManager>>` while exactly one intercepted call — the
//! i-th `pwrite64` / `fdatasync` / `fsync` / `fallocate64` — returns -1 with `EIO` (also `ENOSPC`
//! for pwrite/fallocate), once.  Three users, each judging only what its statement says:
//!
//! * **C07 part** (`--prop C07`): the faulted step is an *action* (single- and multi-command, on
//!   a single-head state and on a multi-head state where the action first collapses the heads).
//!   After `Err`, on the SAME handle: head set, every reachable segment/command/fact, the fact
//!   cache, `get_location` of old and new commands are those before the action, and the sink
//!   committed no effect; the action is then issued again and must succeed; the run ends in the
//!   fault-free state.  An `Ok` despite the failed call must satisfy the success half (state and
//!   effects of the fault-free action).
//! * **C08 part** (`--prop C08`): the faulted step is a sync *transaction* (`add_commands` +
//!   `commit`: one branch; chain + side branch + merge; multi-head commit; multi-head on top of
//!   multi-head).  After `Err`: committed state untouched, no committed command lost, none of the
//!   offered commands visible; a fresh transaction with the same commands succeeds and the run ends
//!   in the fault-free state.
//! * **C15** (crash statement only): variant "reopen" — the handle is dropped right after the
//!   failure; reopening gives the last step that returned Ok or the failed one (in progress),
//!   everything readable; the workload continues to the fault-free final state, also after a
//!   final reopen.  Variant "same handle" — the workload simply continues on the handle; only the
//!   final drop + reopen is judged.  A failed graph creation only has to return `Err`.
//!
//! Observations are location-free (ids and max cuts instead of file offsets), because a failed
//! step leaves unreachable bytes behind and shifts later offsets.

use std::{collections::BTreeSet, path::Path};

use aranya_runtime::{Address, ClientState, Command, GraphId, Location, MaxCut, MemSpill, Prior, RuntimeBuffers, Segment, Storage, StorageProvider, TraversalBuffer};
use mcx::{json, rayon::prelude::*, Args, Level, Report, Tier, Value};

use crate::{
    interpose::{self, Sys},
    policy::{Action, ScriptStore, VecSink, Wop},
    props::c15::{del, dump_facts, ins, merge_of, open_client, parent_short, short, tc, Bufs, Sp},
    store::{k, TestCmd},
};

#[derive(Clone, Copy, Debug, PartialEq, Eq)]
pub enum Mode {
    C15,
    C07,
    C08,
}

impl Mode {
    fn name(self) -> &'static str {
        match self {
            Mode::C15 => "C15",
            Mode::C07 => "C07",
            Mode::C08 => "C08",
        }
    }
}

#[derive(Clone, Copy, Debug, PartialEq, Eq)]
enum Kind {
    Create,
    Action,
    Trx,
}

pub const STALE_CACHE_MARK: &str = "[fact cache of the failed commit visible on the same handle] ";

fn steps(mode: Mode) -> Vec<(&'static str, Kind)> {
    match mode {
        Mode::C15 => vec![
            ("create graph", Kind::Create),
            ("single-command action", Kind::Action),
            ("3-segment transaction (branch + merge)", Kind::Trx),
            ("two-branch transaction, multi-head", Kind::Trx),
            ("action collapsing two heads", Kind::Action),
        ],
        Mode::C07 => vec![
            ("create graph", Kind::Create),
            ("single-command action on a single head", Kind::Action),
            ("two-command action on a single head", Kind::Action),
            ("two-branch transaction, multi-head", Kind::Trx),
            ("single-command action collapsing two heads", Kind::Action),
            ("two-branch transaction, multi-head (2)", Kind::Trx),
            ("two-command action collapsing two heads", Kind::Action),
        ],
        Mode::C08 => vec![
            ("create graph", Kind::Create),
            ("single-command action", Kind::Action),
            ("one-branch transaction (2 commands)", Kind::Trx),
            ("transaction with chain, side branch and merge", Kind::Trx),
            ("two-branch transaction committed multi-head", Kind::Trx),
            ("transaction extending both heads, multi-head again", Kind::Trx),
        ],
    }
}

fn targeted(mode: Mode, kind: Kind) -> bool {
    match mode {
        Mode::C15 => true,
        Mode::C07 => kind == Kind::Action,
        Mode::C08 => kind == Kind::Trx,
    }
}

/// Location-free observation + the addresses of all commands reachable from the heads.
fn observe_abs(sp: &mut Sp, gid: GraphId) -> Result<(String, Vec<Address>), String> {
    let st = sp.get_storage(gid).map_err(|e| format!("get_storage: {e:?}"))?;
    let heads = st.get_heads().map_err(|e| format!("get_heads: {e:?}"))?.clone();
    if heads.is_empty() {
        return Err("empty head set".into());
    }
    let id_at = |l: Location| -> Result<String, String> {
        let seg = st.get_segment(l).map_err(|e| format!("get_segment({l}): {e:?}"))?;
        let c = seg.get_command(l).ok_or_else(|| format!("location {l} holds no command"))?;
        Ok(format!("{}@{}", short(c.id().as_bytes()), l.max_cut))
    };
    let mut hs: Vec<String> = heads.iter().map(|h| format!("{}@{}", short(h.id.as_bytes()), h.max_cut)).collect();
    hs.sort();
    let mut out = format!("heads: {hs:?}");
    for h in heads.iter() {
        if id_at(h.location())? != format!("{}@{}", short(h.id.as_bytes()), h.max_cut) {
            return Err(format!("head {} is not at its recorded location", short(h.id.as_bytes())));
        }
    }
    out.push_str(&format!("\ncache: {}", dump_facts(&st.fact_cache().map_err(|e| format!("fact_cache: {e:?}"))?, "fact cache")?));
    let mut seen = BTreeSet::new();
    let mut stack: Vec<Location> = heads.iter().map(|h| h.location()).collect();
    let mut segs: Vec<String> = Vec::new();
    let mut addrs: Vec<Address> = Vec::new();
    while let Some(l) = stack.pop() {
        if !seen.insert(l.segment.get()) {
            continue;
        }
        let seg = st.get_segment(l).map_err(|e| format!("get_segment({l}): {e:?}"))?;
        let first = seg.first_location();
        let last = seg.head_location().map_err(|e| format!("head_location: {e:?}"))?;
        let mut priors = Vec::new();
        for p in seg.prior() {
            priors.push(id_at(p)?);
            stack.push(p);
        }
        let mut skips = Vec::new();
        for sk in seg.skip_list() {
            skips.push(id_at(*sk)?);
        }
        let mut s = format!("seg [{}..{}] prior={priors:?} skips={skips:?}", first.max_cut, last.max_cut);
        let mut mc = first.max_cut.get();
        while mc <= last.max_cut.get() {
            let loc = Location::new(seg.index(), MaxCut::new(mc));
            let c = seg.get_command(loc).ok_or_else(|| format!("segment has no command at max cut {mc}"))?;
            addrs.push(Address { id: c.id(), max_cut: MaxCut::new(mc) });
            s.push_str(&format!("\n  cmd {} prio={:?} parent={} data={}", short(c.id().as_bytes()), c.priority(), parent_short(&c.parent()), mcx::hex(c.bytes())));
            let fp = st.get_fact_perspective(loc).map_err(|e| format!("get_fact_perspective({loc}): {e:?}"))?;
            s.push_str(&format!("\n    facts {}", dump_facts(&fp, "facts at command")?));
            mc += 1;
        }
        s.push_str(&format!("\n  index {}", dump_facts(&seg.facts().map_err(|e| format!("segment.facts: {e:?}"))?, "segment fact index")?));
        segs.push(s);
    }
    segs.sort();
    for s in segs {
        out.push('\n');
        out.push_str(&s);
    }
    addrs.sort();
    Ok((out, addrs))
}

/// Transaction commands are built once (their addresses depend on the head at that time).
#[derive(Clone, Default)]
struct Plan {
    gid: Option<GraphId>,
    trx: std::collections::BTreeMap<usize, Vec<TestCmd>>,
    anchor: std::collections::BTreeMap<&'static str, Address>,
}

fn obs_op() -> Wop {
    Wop::Observe("n0".into(), vec![k(&["a"])])
}

fn run_step(mode: Mode, client: &mut ClientState<ScriptStore, Sp>, bufs: &mut Bufs, plan: &mut Plan, idx: usize, sink: &mut VecSink) -> Result<(), String> {
    let act = |client: &mut ClientState<ScriptStore, Sp>, bufs: &mut Bufs, plan: &Plan, sink: &mut VecSink, seq: u64, cmds: Vec<Vec<Wop>>| -> Result<(), String> {
        let a = Action { tag: 0x12 + mode as u8, seq, cmds };
        client.action(plan.gid.unwrap(), sink, &a, bufs, MemSpill::new).map_err(|e| format!("{e:?}"))
    };
    let trx = |client: &mut ClientState<ScriptStore, Sp>, bufs: &mut Bufs, plan: &Plan, sink: &mut VecSink, idx: usize| -> Result<(), String> {
        let gid = plan.gid.unwrap();
        let cmds = plan.trx.get(&idx).cloned().unwrap_or_default();
        let mut t = client.transaction(gid);
        let n = client.add_commands(&mut t, sink, &cmds, bufs, MemSpill::new).map_err(|e| format!("add_commands: {e:?}"))?;
        if n != cmds.len() {
            return Err(format!("add_commands accepted {n} of {} new commands", cmds.len()));
        }
        match client.commit(t, sink, bufs, MemSpill::new) {
            Ok(true) => Ok(()),
            Ok(false) => Err("commit reported that nothing was committed".into()),
            Err(e) => Err(format!("commit: {e:?}")),
        }
    };
    if idx == 0 {
        let a0 = Action { tag: 0x12 + mode as u8, seq: 0, cmds: vec![vec![ins("n0", k(&["a"]), "v0"), ins("n1", k(&[]), "v0")]] };
        plan.gid = Some(client.new_graph(b"p", &a0, sink).map_err(|e| format!("{e:?}"))?);
        return Ok(());
    }
    let base = 100 * (mode as u64 + 1) + 10 * idx as u64;
    let head = |client: &mut ClientState<ScriptStore, Sp>, plan: &Plan| client.head_address(plan.gid.unwrap()).map_err(|e| format!("head_address: {e:?}"));
    // build the commands of a transaction step the first time it runs
    let need_build = !plan.trx.contains_key(&idx);
    match (mode, idx) {
        (Mode::C15, 1) => act(client, bufs, plan, sink, 1, vec![vec![ins("n0", k(&["ab"]), "v1"), del("n0", k(&["a"])), obs_op()]]),
        (Mode::C15, 2) | (Mode::C08, 3) => {
            if need_build {
                let h = if mode == Mode::C15 { head(client, plan)? } else { plan.anchor["x2"] };
                let (c_a1, a_a1) = tc(base + 1, Prior::Single(h), &[ins("n0", k(&[""]), "v0")]);
                let (c_a2, a_a2) = tc(base + 2, Prior::Single(a_a1), &[del("n1", k(&[]))]);
                let (c_b1, a_b1) = tc(base + 3, Prior::Single(a_a1), &[ins("n1", k(&["a"]), "v1")]);
                let (c_m, a_m) = merge_of(base + 4, a_a2, a_b1);
                plan.anchor.insert("m", a_m);
                plan.trx.insert(idx, vec![c_a1, c_a2, c_b1, c_m]);
            }
            trx(client, bufs, plan, sink, idx)
        }
        (Mode::C15, 3) | (Mode::C08, 4) => {
            if need_build {
                let m = plan.anchor["m"];
                let (c_p1, a_p1) = tc(base + 1, Prior::Single(m), &[ins("n0", k(&["a"]), "v1")]);
                let (c_p2, a_p2) = tc(base + 2, Prior::Single(a_p1), &[ins("n0", k(&["a", "ab"]), "v0")]);
                let (c_q1, a_q1) = tc(base + 3, Prior::Single(m), &[del("n0", k(&["ab"]))]);
                plan.anchor.insert("p2", a_p2);
                plan.anchor.insert("q1", a_q1);
                plan.trx.insert(idx, vec![c_p1, c_p2, c_q1]);
            }
            trx(client, bufs, plan, sink, idx)
        }
        (Mode::C15, 4) => act(client, bufs, plan, sink, 4, vec![vec![ins("n1", k(&["ab"]), "v0"), obs_op()]]),

        (Mode::C07, 1) => act(client, bufs, plan, sink, 1, vec![vec![ins("n0", k(&["ab"]), "v1"), del("n0", k(&["a"])), obs_op()]]),
        (Mode::C07, 2) => act(client, bufs, plan, sink, 2, vec![vec![ins("n0", k(&[""]), "v0"), obs_op()], vec![ins("n1", k(&["a"]), "v1"), del("n1", k(&[])), obs_op()]]),
        (Mode::C07, 3) | (Mode::C07, 5) => {
            if need_build {
                let h = head(client, plan)?;
                let (c_p1, a_p1) = tc(base + 1, Prior::Single(h), &[ins("n0", k(&["a"]), "v1")]);
                let (c_p2, _) = tc(base + 2, Prior::Single(a_p1), &[ins("n0", k(&["a", "ab"]), "v0")]);
                let (c_q1, _) = tc(base + 3, Prior::Single(h), &[del("n0", k(&["ab"]))]);
                plan.trx.insert(idx, if idx == 3 { vec![c_p1, c_p2, c_q1] } else { vec![c_p1, c_q1] });
            }
            trx(client, bufs, plan, sink, idx)
        }
        (Mode::C07, 4) => act(client, bufs, plan, sink, 4, vec![vec![ins("n1", k(&["ab"]), "v0"), obs_op()]]),
        (Mode::C07, 6) => act(client, bufs, plan, sink, 6, vec![vec![del("n0", k(&["a"])), obs_op()], vec![ins("n0", k(&["a", "a"]), "v1"), obs_op()]]),

        (Mode::C08, 1) => act(client, bufs, plan, sink, 1, vec![vec![ins("n0", k(&["ab"]), "v1"), obs_op()]]),
        (Mode::C08, 2) => {
            if need_build {
                let h = head(client, plan)?;
                let (c_x1, a_x1) = tc(base + 1, Prior::Single(h), &[ins("n0", k(&["a", "a"]), "v0")]);
                let (c_x2, a_x2) = tc(base + 2, Prior::Single(a_x1), &[del("n0", k(&["a"]))]);
                plan.anchor.insert("x2", a_x2);
                plan.trx.insert(idx, vec![c_x1, c_x2]);
            }
            trx(client, bufs, plan, sink, idx)
        }
        (Mode::C08, 5) => {
            if need_build {
                let (c_p3, _) = tc(base + 1, Prior::Single(plan.anchor["p2"]), &[ins("n1", k(&["ab"]), "v0")]);
                let (c_q2, _) = tc(base + 2, Prior::Single(plan.anchor["q1"]), &[del("n0", k(&[""]))]);
                plan.trx.insert(idx, vec![c_p3, c_q2]);
            }
            trx(client, bufs, plan, sink, idx)
        }
        _ => Err(format!("no step {idx} in workload {}", mode.name())),
    }
}

pub struct Reference {
    mode: Mode,
    steps: Vec<(&'static str, Kind)>,
    gid: GraphId,
    obs: Vec<String>,
    cmds: Vec<Vec<Address>>,
    effects: Vec<Vec<String>>,
    /// cumulative intercepted-call counts after each step
    counts_after: Vec<[u64; 4]>,
    plan: Plan,
}

fn fresh_dir(root: &Path) -> std::path::PathBuf {
    let dir = root.join(format!("e{}", mcx::rayon::current_thread_index().map(|i| i as i64).unwrap_or(-1)));
    let _ = std::fs::remove_dir_all(&dir);
    std::fs::create_dir_all(&dir).unwrap_or_else(|e| mcx::machinery_error(&format!("scratch: {e}")));
    dir
}

pub fn reference(mode: Mode, root: &Path) -> Reference {
    let dir = fresh_dir(root);
    let st = steps(mode);
    let mut bufs: Box<Bufs> = Box::new(RuntimeBuffers::new());
    let mut client = open_client(&dir).unwrap_or_else(|e| mcx::machinery_error(&e));
    let mut plan = Plan::default();
    let (mut obs, mut cmds, mut effects, mut counts_after) = (Vec::new(), Vec::new(), Vec::new(), Vec::new());
    interpose::set_cheap_falloc(true);
    interpose::arm(None);
    for i in 0..st.len() {
        let mut sink = VecSink::default();
        run_step(mode, &mut client, &mut bufs, &mut plan, i, &mut sink).unwrap_or_else(|e| mcx::machinery_error(&format!("error family {}: fault-free step '{}' failed: {e}", mode.name(), st[i].0)));
        counts_after.push(interpose::counts());
        let (o, a) = observe_abs(client.provider(), plan.gid.unwrap()).unwrap_or_else(|e| mcx::machinery_error(&format!("error family: observing: {e}")));
        obs.push(o);
        cmds.push(a);
        effects.push(sink.committed);
    }
    interpose::disarm();
    interpose::set_cheap_falloc(false);
    drop(client);
    let mut client = open_client(&dir).unwrap_or_else(|e| mcx::machinery_error(&e));
    let (o, _) = observe_abs(client.provider(), plan.gid.unwrap()).unwrap_or_else(|e| mcx::machinery_error(&format!("error family: observing after reopen: {e}")));
    if o != obs[st.len() - 1] {
        mcx::machinery_error("error family: the location-free observation changes across a clean reopen");
    }
    if obs.iter().collect::<BTreeSet<_>>().len() != obs.len() {
        mcx::machinery_error("error family: two steps of the workload give the same observation");
    }
    drop(client);
    let _ = std::fs::remove_dir_all(&dir);
    Reference { mode, steps: st, gid: plan.gid.unwrap(), obs, cmds, effects, counts_after, plan }
}

#[derive(Clone, Copy, Debug, PartialEq, Eq, PartialOrd, Ord)]
pub struct Case {
    /// the step the call belongs to in the fault-free run
    pub step: usize,
    pub sys: Sys,
    pub index: u64,
    pub errno: i32,
    pub reopen_variant: bool,
}

impl PartialOrd for Sys {
    fn partial_cmp(&self, o: &Self) -> Option<std::cmp::Ordering> {
        Some(self.cmp(o))
    }
}
impl Ord for Sys {
    fn cmp(&self, o: &Self) -> std::cmp::Ordering {
        (*self as u8).cmp(&(*o as u8))
    }
}

fn errno_name(e: i32) -> &'static str {
    if e == libc::EIO {
        "EIO"
    } else if e == libc::ENOSPC {
        "ENOSPC"
    } else {
        "errno"
    }
}

fn sys_name(s: Sys) -> &'static str {
    match s {
        Sys::Pwrite => "pwrite64",
        Sys::Fdatasync => "fdatasync",
        Sys::Fsync => "fsync",
        Sys::Fallocate => "fallocate64",
    }
}

pub fn key(r: &Reference, c: &Case) -> String {
    let kind = match r.steps[c.step].1 {
        Kind::Create => "create",
        Kind::Action => "action",
        Kind::Trx => "transaction",
    };
    let variant = if r.mode == Mode::C15 { if c.reopen_variant { ", then drop + reopen" } else { ", same handle continues" } } else { "" };
    format!("error return in {kind} step {} ({}): {} call #{} fails with {}{variant}", c.step, r.steps[c.step].0, sys_name(c.sys), c.index, errno_name(c.errno))
}

fn replay_json(r: &Reference, c: &Case) -> Value {
    let mut v = json!({"error_case": {"workload": r.mode.name(), "step": c.step, "sys": format!("{:?}", c.sys), "index": c.index, "errno": c.errno, "reopen_variant": c.reopen_variant}});
    if r.mode != Mode::C15 {
        v["part"] = json!("rt-store");
    }
    v
}

pub fn cases(r: &Reference) -> Vec<Case> {
    let mut v = Vec::new();
    for step in 0..r.steps.len() {
        if !targeted(r.mode, r.steps[step].1) {
            continue;
        }
        let from = if step == 0 { [0; 4] } else { r.counts_after[step - 1] };
        let to = r.counts_after[step];
        for (sys, errnos) in [(Sys::Pwrite, vec![libc::EIO, libc::ENOSPC]), (Sys::Fdatasync, vec![libc::EIO]), (Sys::Fsync, vec![libc::EIO]), (Sys::Fallocate, vec![libc::EIO, libc::ENOSPC])] {
            for index in from[sys as usize]..to[sys as usize] {
                for &errno in &errnos {
                    let variants: &[bool] = if r.mode == Mode::C15 { &[false, true] } else { &[false] };
                    for &reopen_variant in variants {
                        v.push(Case { step, sys, index, errno, reopen_variant });
                    }
                }
            }
        }
    }
    v
}

#[derive(Default)]
pub struct Outcome {
    pub failed_step: Option<usize>,
    pub persisted_despite_error: bool,
    pub ok_despite_fault: bool,
    pub retried_ok: bool,
    pub rollback_seen: bool,
}

pub fn run_case(root: &Path, r: &Reference, c: &Case) -> Result<Outcome, String> {
    match mcx::catch(|| run_case_inner(root, r, c)) {
        Ok(x) => x,
        Err(p) => {
            interpose::disarm();
            interpose::set_cheap_falloc(false);
            Err(format!("panic: {p} at {}", mcx::last_panic_location()))
        }
    }
}

fn first_diff(want: &str, got: &str) -> String {
    for (w, g) in want.lines().zip(got.lines()) {
        if w != g {
            return format!("    expected: {w}\n    got:      {g}");
        }
    }
    format!("    expected {} lines, got {} lines", want.lines().count(), got.lines().count())
}

fn run_case_inner(root: &Path, r: &Reference, c: &Case) -> Result<Outcome, String> {
    let mode = r.mode;
    let dir = fresh_dir(root);
    let mut bufs: Box<Bufs> = Box::new(RuntimeBuffers::new());
    let mut client = open_client(&dir)?;
    let mut plan = r.plan.clone();
    plan.gid = None;
    let last = r.steps.len() - 1;
    let name = |i: usize| r.steps[i].0;
    interpose::set_cheap_falloc(true);
    interpose::arm(Some((c.sys, c.index, c.errno)));
    let res = (|| -> Result<Outcome, String> {
        let mut out = Outcome::default();
        let mut failed: Option<(usize, VecSink)> = None;
        let mut i = 0;
        while i <= last {
            let before = interpose::fired();
            let mut sink = VecSink::default();
            let res = run_step(mode, &mut client, &mut bufs, &mut plan, i, &mut sink);
            let hit = interpose::fired() && !before;
            match (res, hit) {
                (Ok(()), false) => i += 1,
                (Ok(()), true) => {
                    // success half of the all-or-nothing statement
                    out.ok_despite_fault = true;
                    if mode != Mode::C15 {
                        let (o, _) = observe_abs(client.provider(), r.gid).map_err(|e| format!("step {i} ({}) returned Ok although the call failed; then: {e}", name(i)))?;
                        if o != r.obs[i] || (mode == Mode::C07 && sink.committed != r.effects[i]) {
                            return Err(format!("step {i} ({}) returned Ok although the call failed, but state/effects are not those of the successful step:\n{}", name(i), first_diff(&r.obs[i], &o)));
                        }
                    }
                    i += 1;
                }
                (Err(e), false) => return Err(format!("step {i} ({}) failed without an injected error: {e}", name(i))),
                (Err(_), true) => {
                    failed = Some((i, sink));
                    break;
                }
            }
        }
        let Some((f, sink)) = failed else { return Ok(out) };
        out.failed_step = Some(f);
        out.rollback_seen = sink.rollbacks > 0;
        let mut next = f;
        if f == 0 {
            // no commit has returned: only a reopen may be judged, and it may fail
            drop(std::mem::replace(&mut client, open_client(&dir)?));
            match observe_abs(client.provider(), r.gid) {
                Err(_) => return Ok(out),
                Ok((o, _)) if o == r.obs[0] => {
                    out.persisted_despite_error = true;
                    plan.gid = Some(r.gid);
                    next = 1;
                }
                Ok(_) => return Err("after the failed creation a reopen shows a state that is not the created graph".into()),
            }
        } else if mode != Mode::C15 {
            // same handle, right after the Err: nothing may have changed
            let (o, _) = observe_abs(client.provider(), r.gid).map_err(|e| format!("after step {f} ({}) failed, on the same handle: {e}", name(f)))?;
            if o != r.obs[f - 1] {
                let cache = |s: &str| s.lines().find(|l| l.starts_with("cache:")).unwrap_or("").to_string();
                let rest = |s: &str| s.lines().filter(|l| !l.starts_with("cache:")).collect::<Vec<_>>().join("\n");
                let class = if rest(&o) == rest(&r.obs[f - 1]) && cache(&o) == cache(&r.obs[f]) { STALE_CACHE_MARK } else { "" };
                return Err(format!("{class}after step {f} ({}) failed, the same handle no longer shows the state before it:\n{}", name(f), first_diff(&r.obs[f - 1], &o)));
            }
            {
                let st = client.provider().get_storage(r.gid).map_err(|e| format!("get_storage: {e:?}"))?;
                let mut buf = TraversalBuffer::new();
                for a in &r.cmds[f - 1] {
                    if st.get_location(*a, &mut buf).map_err(|e| format!("get_location: {e:?}"))?.is_none() {
                        return Err(format!("after step {f} ({}) failed, committed command {} is no longer found (the committed set shrank)", name(f), short(a.id.as_bytes())));
                    }
                }
                for a in r.cmds[f].iter().filter(|a| !r.cmds[f - 1].contains(a)) {
                    if let Some(l) = st.get_location(*a, &mut buf).map_err(|e| format!("get_location: {e:?}"))? {
                        return Err(format!("after step {f} ({}) failed, get_location finds command {} of the failed step at {l}", name(f), short(a.id.as_bytes())));
                    }
                }
            }
            if mode == Mode::C07 && !sink.committed.is_empty() {
                return Err(format!("the failed action (step {f}, {}) committed effects: {:?}", name(f), sink.committed));
            }
        } else if c.reopen_variant {
            drop(std::mem::replace(&mut client, open_client(&dir)?));
            let (o, _) = observe_abs(client.provider(), r.gid).map_err(|e| format!("after step {f} ({}) failed and the file was reopened: {e}", name(f)))?;
            if o == r.obs[f - 1] {
            } else if o == r.obs[f] {
                out.persisted_despite_error = true;
                next = f + 1;
            } else {
                return Err(format!("after step {f} ({}) failed, a reopen shows neither step {} nor step {f}:\n{}", name(f), f - 1, first_diff(&r.obs[f - 1], &o)));
            }
        }
        // the failed step is issued again (the injection fires once), then the rest
        let judge_steps = mode != Mode::C15 || c.reopen_variant || f == 0;
        let mut last_ok = next.wrapping_sub(1);
        for j in next..=last {
            let mut sink = VecSink::default();
            match run_step(mode, &mut client, &mut bufs, &mut plan, j, &mut sink) {
                Ok(()) => last_ok = j,
                Err(e) if judge_steps => return Err(format!("step {j} ({}) issued after the error in step {f} fails: {e}", name(j))),
                Err(_) => break,
            }
            if judge_steps {
                let (o, _) = observe_abs(client.provider(), r.gid).map_err(|e| format!("after step {j} following the error in step {f}: {e}"))?;
                if o != r.obs[j] {
                    return Err(format!("step {j} ({}) issued after the error in step {f} does not give the fault-free state:\n{}", name(j), first_diff(&r.obs[j], &o)));
                }
                if mode == Mode::C07 && r.steps[j].1 == Kind::Action && sink.committed != r.effects[j] {
                    return Err(format!("step {j} ({}) issued after the error in step {f} committed effects {:?}, the fault-free run {:?}", name(j), sink.committed, r.effects[j]));
                }
            }
            if j == f {
                out.retried_ok = true;
            }
        }
        if mode == Mode::C15 {
            // final drop + reopen: a commit that returned (or the one in progress), all readable
            drop(std::mem::replace(&mut client, open_client(&dir)?));
            let (o, _) = observe_abs(client.provider(), r.gid).map_err(|e| format!("final reopen after the error in step {f}: {e}"))?;
            let ok = if last_ok == last { o == r.obs[last] } else { o == r.obs[last_ok] || o == r.obs[last_ok + 1] };
            if !ok {
                return Err(format!("the final reopen after the error in step {f} (steps up to {last_ok} returned Ok) does not give that state:\n{}", first_diff(&r.obs[last_ok], &o)));
            }
        }
        Ok(out)
    })();
    interpose::disarm();
    interpose::set_cheap_falloc(false);
    drop(client);
    let _ = std::fs::remove_dir_all(&dir);
    res
}

pub struct FamStats {
    pub runs: u64,
    pub violations: u64,
    pub nontrivial: u64,
}

/// Run the whole family for `mode`, reporting into `rep` (keys prefixed `error_return_`).
pub fn run_family(rep: &mut Report, mode: Mode, root: &Path, _tier: Tier) -> FamStats {
    let r = reference(mode, root);
    let cs = cases(&r);
    let outs: Vec<Result<Outcome, String>> = cs.par_iter().map(|c| run_case(root, &r, c)).collect();
    let (mut fired, mut persisted, mut stale, mut okfault, mut retried, mut rollbacks, mut viol) = (0u64, 0u64, 0u64, 0u64, 0u64, 0u64, 0u64);
    let mut by_step = vec![0u64; r.steps.len()];
    let mut distinct: BTreeSet<(usize, Sys, u64, i32)> = BTreeSet::new();
    for (c, o) in cs.iter().zip(outs) {
        match o {
            Ok(o) => {
                if let Some(f) = o.failed_step {
                    fired += 1;
                    by_step[f] += 1;
                    distinct.insert((f, c.sys, c.index, c.errno));
                }
                persisted += o.persisted_despite_error as u64;
                okfault += o.ok_despite_fault as u64;
                retried += o.retried_ok as u64;
                rollbacks += o.rollback_seen as u64;
            }
            Err(text) => {
                viol += 1;
                if text.starts_with(STALE_CACHE_MARK) {
                    stale += 1;
                }
                distinct.insert((c.step, c.sys, c.index, c.errno));
                rep.outcome("violation", 1);
                rep.violation(key(&r, c), text, replay_json(&r, c));
            }
        }
    }
    let total = r.counts_after.last().copied().unwrap_or([0; 4]);
    rep.sample(json!({"error_return_family": {"workload": r.steps.iter().map(|s| s.0).collect::<Vec<_>>(), "calls_in_fault_free_run": {"pwrite64": total[0], "fdatasync": total[1], "fsync": total[2], "fallocate64": total[3]}, "example": cs.get(cs.len() / 2).map(|c| key(&r, c))}}));
    rep.count("error_return_runs", cs.len() as u64);
    rep.count("error_return_runs_with_failed_step", fired);
    rep.count("error_return_failed_step_reissued_ok", retried);
    rep.count("error_return_commit_persisted_despite_error", persisted);
    rep.count("error_return_step_ok_despite_failed_call", okfault);
    rep.count("error_return_runs_showing_failed_commits_fact_cache", stale);
    if mode == Mode::C07 {
        rep.count("error_return_failed_actions_that_rolled_the_sink_back", rollbacks);
    }
    rep.set(&format!("error_return_failed_step_histogram_{}", mode.name()), json!(by_step));
    if rep.violations().is_empty() {
        rep.require_nonzero("error_return_runs_with_failed_step");
        rep.require_nonzero("error_return_failed_step_reissued_ok");
    }
    FamStats { runs: cs.len() as u64, violations: viol, nontrivial: distinct.len() as u64 }
}

/// `--prop C07` / `--prop C08`: the part of those properties served by this crate.
pub fn run_part(args: &Args, mode: Mode) {
    mcx::quiet_panics();
    let scratch = mcx::Scratch::new("errfam");
    if let Some(p) = &args.replay {
        let txt = std::fs::read_to_string(p).unwrap_or_else(|e| mcx::machinery_error(&format!("replay file: {e}")));
        let v: Value = mcx::serde_json::from_str(&txt).unwrap_or_else(|e| mcx::machinery_error(&format!("replay file: {e}")));
        let root = scratch.path().to_path_buf();
        let code = replay_case(args, mode, &root, &v["replay"], p);
        drop(scratch);
        std::process::exit(code)
    }
    let mut rep = Report::new(args, Level::FaultEnumeration);
    let st = run_family(&mut rep, mode, scratch.path(), args.tier);
    drop(scratch);
    rep.set("evaluations", st.runs);
    rep.set("distinct_nontrivial", st.nontrivial);
    let rule = match mode {
        Mode::C07 => "rt-store part (file backend): one run per (action step, intercepted call index within that step, errno) — every pwrite64/fdatasync/fsync/fallocate64 call of every action step of the workload fails once with EIO (pwrite64/fallocate64 also with ENOSPC); non-trivial = distinct (step, call, index, errno) for which the action actually returned Err or violated the oracle",
        _ => "rt-store part (file backend): one run per (transaction step, intercepted call index within that step, errno) — every pwrite64/fdatasync/fsync/fallocate64 call of every add_commands+commit step of the workload fails once with EIO (pwrite64/fallocate64 also with ENOSPC); non-trivial = distinct (step, call, index, errno) for which the transaction actually returned Err or violated the oracle",
    };
    rep.set("rule", rule);
    rep.set("rule_rt_store_part", rule);
    rep.set("exhaustive", true);
    rep.assume("rt-store part: an I/O error returned by a storage system call is treated as 'the operation fails', so the statement's failure clause applies (state untouched); the statement itself names only policy failures / the concurrent-transaction error");
    rep.assume("rt-store part: observations are location-free (ids, max cuts, facts), because a failed step leaves unreachable bytes in the file; in the checking runs fallocate is forwarded as a size extension");
    rep.finish()
}

pub fn replay_case(args: &Args, mode: Mode, root: &Path, r: &Value, path: &Path) -> i32 {
    let ec = &r["error_case"];
    let sys = match ec["sys"].as_str() {
        Some("Pwrite") => Sys::Pwrite,
        Some("Fdatasync") => Sys::Fdatasync,
        Some("Fsync") => Sys::Fsync,
        Some("Fallocate") => Sys::Fallocate,
        _ => mcx::machinery_error("replay: error_case.sys"),
    };
    if ec["workload"].as_str().is_some_and(|w| w != mode.name()) {
        mcx::machinery_error("replay: the error case belongs to another property's workload");
    }
    let case = Case { step: ec["step"].as_u64().unwrap_or(0) as usize, sys, index: ec["index"].as_u64().unwrap_or(0), errno: ec["errno"].as_i64().unwrap_or(5) as i32, reopen_variant: ec["reopen_variant"].as_bool().unwrap_or(false) };
    let eref = reference(mode, root);
    match run_case(root, &eref, &case) {
        Ok(o) => {
            println!("replay {}: no violation (failed step {:?})", key(&eref, &case), o.failed_step);
            0
        }
        Err(e) => {
            println!("replay {}:\n  {e}\nVIOLATION property={} replay={}", key(&eref, &case), args.prop, path.display());
            1
        }
    }
}
