pub mod c12;
pub mod c21;
