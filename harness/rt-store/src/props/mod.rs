pub mod c11;
pub mod c12;
pub mod c13;
pub mod c15;
pub mod c21;
pub mod errfam;
