//! Shared pieces for the storage checks: a trivial command type, the fact alphabet and flat
//! model, query oracles, and `CapIo` — an in-memory `IoManager` written in the harness against
//! the public `storage::linear::{IoManager, Write, Read}` traits that additionally keeps a
//! self-describing copy (ciborium `Value`) of every appended item, so canonical state keys can be
//! derived from what the real `LinearStorage` code actually wrote (layer by layer, tombstones
//! included) without a hand-maintained mirror of its private types.

use std::{
    collections::{BTreeMap, BTreeSet},
    sync::{Arc, Mutex},
};

use aranya_runtime::{
    storage::linear::{FactCacheOffset, IoManager, Read, Write},
    Address, Bytes, CmdId, Command, GraphId, HeadSet, HeadSetOffset, Keys, Prior, Priority, Query,
    StorageError,
};

// ---------------------------------------------------------------------------------------------
// commands

#[derive(Clone, Debug)]
pub struct TestCmd {
    pub id: CmdId,
    pub parent: Prior<Address>,
    pub prio: Priority,
    pub data: Vec<u8>,
}

impl Command for TestCmd {
    fn priority(&self) -> Priority {
        self.prio.clone()
    }
    fn id(&self) -> CmdId {
        self.id
    }
    fn parent(&self) -> Prior<Address> {
        self.parent
    }
    fn policy(&self) -> Option<&[u8]> {
        // init commands must carry policy bytes for the transaction path
        match self.parent {
            Prior::None => Some(b"p"),
            _ => None,
        }
    }
    fn bytes(&self) -> &[u8] {
        &self.data
    }
}

/// Deterministic command id: `tag` in byte 0, `n` big-endian in bytes 24..32.
pub fn cmd_id(tag: u8, n: u64) -> CmdId {
    let mut b = [0u8; 32];
    b[0] = tag;
    b[1] = 0xC0;
    b[24..].copy_from_slice(&n.to_be_bytes());
    CmdId::from_bytes(b)
}

// ---------------------------------------------------------------------------------------------
// fact alphabet and flat model

pub type K = Vec<Vec<u8>>;
/// The flat reference model: (name, compound key) -> value.
pub type Model = BTreeMap<(String, K), Vec<u8>>;

pub fn k(parts: &[&str]) -> K {
    parts.iter().map(|p| p.as_bytes().to_vec()).collect()
}

/// Keys that are prefixes of one another, with empty components.
pub fn key_alphabet() -> Vec<K> {
    // the last key shares its LAST component with ["a","a"] while differing in the first one
    // (a prefix test that looks at one component only confuses the two)
    vec![k(&[]), k(&[""]), k(&["a"]), k(&["a", ""]), k(&["a", "a"]), k(&["ab"]), k(&["a", "ab"]), k(&["ab", "a"])]
}

/// Prefix probes: every key of the alphabet (all their prefixes are keys too) plus prefixes that
/// match nothing or sit between keys.
pub fn prefix_probes() -> Vec<K> {
    let mut v = key_alphabet();
    v.extend([k(&["b"]), k(&["a", "b"]), k(&["", "x"]), k(&["a", "a", ""]), k(&["b", "a"]), k(&["", "a"])]);
    v
}

pub fn show_key(key: &K) -> String {
    let parts: Vec<String> = key.iter().map(|p| format!("{:?}", String::from_utf8_lossy(p))).collect();
    format!("[{}]", parts.join(","))
}

pub fn to_keys(key: &K) -> Keys {
    key.iter().map(|p| Bytes::from(p.as_slice())).collect()
}

pub fn to_bytes_vec(key: &K) -> Vec<Bytes> {
    key.iter().map(|p| Bytes::from(p.as_slice())).collect()
}

#[derive(Default, Clone, Copy)]
pub struct QueryStats {
    pub exact_hits: u64,
    pub exact_misses: u64,
    pub prefix_queries: u64,
    pub prefix_results: u64,
    pub prefix_multi: u64,
}

/// The statement's oracle for one queryable object: exact queries for every key and prefix
/// queries for every probe equal the flat model; prefix results strictly ascending, no tombstones.
pub fn check_queries<Q: Query>(q: &Q, model: &Model, names: &[String], keys: &[K], probes: &[K], what: &str, st: &mut QueryStats) -> Result<(), String> {
    for name in names {
        for key in keys {
            let got = q.query(name, &to_bytes_vec(key)).map_err(|e| format!("{what}: query({name},{}) failed: {e:?}", show_key(key)))?;
            let want = model.get(&(name.clone(), key.clone()));
            if got.as_deref() != want.map(|v| v.as_slice()) {
                return Err(format!(
                    "{what}: query({name},{}) = {:?}, flat map has {:?}",
                    show_key(key),
                    got.as_deref().map(String::from_utf8_lossy),
                    want.map(|v| String::from_utf8_lossy(v))
                ));
            }
            if want.is_some() {
                st.exact_hits += 1;
            } else {
                st.exact_misses += 1;
            }
        }
        for p in probes {
            let it = q.query_prefix(name, &to_bytes_vec(p)).map_err(|e| format!("{what}: query_prefix({name},{}) failed: {e:?}", show_key(p)))?;
            let mut got: Vec<(K, Vec<u8>)> = Vec::new();
            for f in it {
                let f = f.map_err(|e| format!("{what}: query_prefix({name},{}) item failed: {e:?}", show_key(p)))?;
                got.push((f.key.iter().map(|b| b.to_vec()).collect(), f.value.to_vec()));
            }
            let want: Vec<(K, Vec<u8>)> = model
                .iter()
                .filter(|((n, key), _)| n == name && key.len() >= p.len() && key[..p.len()] == p[..])
                .map(|((_, key), v)| (key.clone(), v.clone()))
                .collect();
            if got.windows(2).any(|w| w[0].0 >= w[1].0) {
                return Err(format!("{what}: query_prefix({name},{}) results are not in strictly ascending key order: {:?}", show_key(p), got.iter().map(|g| show_key(&g.0)).collect::<Vec<_>>()));
            }
            if got != want {
                let sh = |v: &[(K, Vec<u8>)]| v.iter().map(|(key, val)| format!("{}={}", show_key(key), String::from_utf8_lossy(val))).collect::<Vec<_>>().join(" ");
                return Err(format!("{what}: query_prefix({name},{}) = {{{}}}, flat map gives {{{}}}", show_key(p), sh(&got), sh(&want)));
            }
            st.prefix_queries += 1;
            st.prefix_results += got.len() as u64;
            if got.len() > 1 {
                st.prefix_multi += 1;
            }
        }
    }
    Ok(())
}

// ---------------------------------------------------------------------------------------------
// CapIo

#[derive(Default)]
pub struct CapShared {
    /// postcard bytes + self-describing copy of every appended item, index = offset
    pub items: Mutex<Vec<(Box<[u8]>, ciborium::Value)>>,
    committed: Mutex<Option<(HeadSet, FactCacheOffset, u64)>>,
}

pub type CapRegistry = Arc<Mutex<BTreeMap<GraphId, Arc<CapShared>>>>;

/// Fault plan shared by every writer of a `CapIo`: the `fail_commit_at`-th call of
/// `Write::commit` (counted over the manager's lifetime, from 0) returns an I/O error once and
/// leaves the committed state untouched; negative = never.
pub struct FaultPlan {
    pub fail_commit_at: std::sync::atomic::AtomicI64,
    pub commits_seen: std::sync::atomic::AtomicU64,
    pub failed: std::sync::atomic::AtomicU64,
}

impl Default for FaultPlan {
    fn default() -> Self {
        FaultPlan { fail_commit_at: std::sync::atomic::AtomicI64::new(-1), commits_seen: Default::default(), failed: Default::default() }
    }
}

#[derive(Default)]
pub struct CapIo {
    pub registry: CapRegistry,
    pub fault: Arc<FaultPlan>,
}

impl CapIo {
    pub fn new() -> (Self, CapRegistry) {
        let registry: CapRegistry = Arc::default();
        (CapIo { registry: registry.clone(), fault: Arc::default() }, registry)
    }
    /// A manager whose `commit_index`-th backend commit fails with `StorageError::IoError`.
    pub fn failing_commit(commit_index: u64) -> (Self, Arc<FaultPlan>) {
        let fault: Arc<FaultPlan> = Arc::default();
        fault.fail_commit_at.store(commit_index as i64, std::sync::atomic::Ordering::SeqCst);
        (CapIo { registry: Arc::default(), fault: fault.clone() }, fault)
    }
}

pub struct CapWriter {
    shared: Arc<CapShared>,
    fault: Arc<FaultPlan>,
}

#[derive(Clone)]
pub struct CapReader {
    shared: Arc<CapShared>,
}

impl std::fmt::Debug for CapReader {
    fn fmt(&self, f: &mut std::fmt::Formatter<'_>) -> std::fmt::Result {
        f.write_str("CapReader")
    }
}

impl IoManager for CapIo {
    type Writer = CapWriter;
    fn create(&mut self, id: GraphId) -> Result<CapWriter, StorageError> {
        let mut reg = self.registry.lock().unwrap();
        if reg.contains_key(&id) {
            return Err(StorageError::StorageExists);
        }
        let shared: Arc<CapShared> = Arc::default();
        reg.insert(id, shared.clone());
        Ok(CapWriter { shared, fault: self.fault.clone() })
    }
    fn open(&mut self, id: GraphId) -> Result<Option<CapWriter>, StorageError> {
        Ok(self.registry.lock().unwrap().get(&id).map(|s| CapWriter { shared: s.clone(), fault: self.fault.clone() }))
    }
    fn remove(&mut self, id: GraphId) -> Result<(), StorageError> {
        self.registry.lock().unwrap().remove(&id);
        Ok(())
    }
    fn list(&mut self) -> Result<impl Iterator<Item = Result<GraphId, StorageError>>, StorageError> {
        let ids: Vec<GraphId> = self.registry.lock().unwrap().keys().copied().collect();
        Ok(ids.into_iter().map(Ok))
    }
}

impl Write for CapWriter {
    type ReadOnly = CapReader;
    fn readonly(&self) -> CapReader {
        CapReader { shared: self.shared.clone() }
    }
    fn heads(&self) -> Result<HeadSet, StorageError> {
        self.shared.committed.lock().unwrap().as_ref().map(|c| c.0.clone()).ok_or(StorageError::NotInitialized)
    }
    fn heads_offset(&self) -> Result<HeadSetOffset, StorageError> {
        self.shared.committed.lock().unwrap().as_ref().map(|c| HeadSetOffset::new(c.2)).ok_or(StorageError::NotInitialized)
    }
    fn fact_cache(&self) -> Result<FactCacheOffset, StorageError> {
        self.shared.committed.lock().unwrap().as_ref().map(|c| c.1).ok_or(StorageError::NotInitialized)
    }
    fn append<F, T>(&mut self, builder: F) -> Result<T, StorageError>
    where
        F: FnOnce(u64) -> T,
        T: serde::Serialize,
    {
        let mut items = self.shared.items.lock().unwrap();
        let offset = items.len() as u64;
        let item = builder(offset);
        let bytes = postcard::to_allocvec(&item).map_err(|_| StorageError::IoError)?.into_boxed_slice();
        let val = ciborium::Value::serialized(&item).map_err(|_| StorageError::IoError)?;
        items.push((bytes, val));
        Ok(item)
    }
    fn commit(&mut self, heads: &HeadSet, fact_cache: FactCacheOffset) -> Result<(), StorageError> {
        use std::sync::atomic::Ordering::SeqCst;
        let i = self.fault.commits_seen.fetch_add(1, SeqCst);
        if self.fault.fail_commit_at.load(SeqCst) == i as i64 {
            self.fault.failed.fetch_add(1, SeqCst);
            return Err(StorageError::IoError);
        }
        let mut c = self.shared.committed.lock().unwrap();
        let n = c.as_ref().map(|c| c.2 + 1).unwrap_or(0);
        *c = Some((heads.clone(), fact_cache, n));
        Ok(())
    }
}

impl Read for CapReader {
    fn fetch<T>(&self, offset: u64) -> Result<T, StorageError>
    where
        T: serde::de::DeserializeOwned,
    {
        let items = self.shared.items.lock().unwrap();
        let (bytes, _) = items.get(offset as usize).ok_or(StorageError::IoError)?;
        postcard::from_bytes(bytes).map_err(|_| StorageError::IoError)
    }
}

// ---------------------------------------------------------------------------------------------
// structural (address-free) rendering of captured items

fn field<'a>(v: &'a ciborium::Value, name: &str) -> Option<&'a ciborium::Value> {
    v.as_map()?.iter().find(|(k, _)| k.as_text() == Some(name)).map(|(_, v)| v)
}

fn need<'a>(v: &'a ciborium::Value, name: &str, what: &str) -> &'a ciborium::Value {
    field(v, name).unwrap_or_else(|| mcx::machinery_error(&format!("captured {what} item has no field `{name}` — the storage layout changed, adapt store::shape ({v:?})")))
}

fn as_offset(v: &ciborium::Value) -> Option<u64> {
    match v {
        ciborium::Value::Null => None,
        ciborium::Value::Integer(i) => Some(u64::try_from(*i).unwrap_or_else(|_| mcx::machinery_error("captured offset is not a u64"))),
        other => mcx::machinery_error(&format!("captured offset has unexpected shape {other:?}")),
    }
}

/// Update list of one stored command, optionally normalised to "last write per (name,key),
/// sorted" (see the C12 module doc for why that is a bisimulation for the fold that consumes it).
fn render_updates(v: &ciborium::Value, normalise: bool) -> String {
    let arr = v.as_array().unwrap_or_else(|| mcx::machinery_error("captured updates is not a list"));
    if !normalise {
        return format!("{arr:?}");
    }
    let mut last: BTreeMap<String, String> = BTreeMap::new();
    for u in arr {
        let t = u.as_array().filter(|t| t.len() == 3).unwrap_or_else(|| mcx::machinery_error("captured update is not a 3-tuple"));
        last.insert(format!("{:?}/{:?}", t[0], t[1]), format!("{:?}", t[2]));
    }
    format!("{last:?}")
}

/// Chain of fact-index layers reachable from `offset`, newest first, without addresses.
pub fn shape_fact_chain(items: &[(Box<[u8]>, ciborium::Value)], offset: Option<u64>, out: &mut String) {
    let mut cur = offset;
    let mut guard = 0;
    out.push('<');
    while let Some(o) = cur {
        let v = &items.get(o as usize).unwrap_or_else(|| mcx::machinery_error("fact index offset out of range")).1;
        let depth = need(v, "depth", "fact index");
        let facts = need(v, "facts", "fact index");
        out.push_str(&format!("L(d={depth:?} {facts:?})"));
        cur = as_offset(need(v, "prior", "fact index"));
        guard += 1;
        if guard > 10_000 {
            mcx::machinery_error("fact index chain does not terminate");
        }
    }
    out.push('>');
}

/// Depth field of the fact index at `offset`.
pub fn fact_index_depth(items: &[(Box<[u8]>, ciborium::Value)], offset: u64) -> u64 {
    as_offset(need(&items[offset as usize].1, "depth", "fact index")).unwrap_or(0)
}

/// Address-free rendering of everything the fact machinery can reach from the segment stored at
/// `seg_offset`: its per-command update lists, its fact-index chain and its prior-facts chain.
pub fn shape_segment(items: &[(Box<[u8]>, ciborium::Value)], seg_offset: u64, normalise: bool) -> String {
    let v = &items.get(seg_offset as usize).unwrap_or_else(|| mcx::machinery_error("segment offset out of range")).1;
    let cmds = need(v, "commands", "segment").as_array().unwrap_or_else(|| mcx::machinery_error("segment commands is not a list"));
    let mut out = String::from("SEG[");
    for c in cmds {
        out.push_str(&render_updates(need(c, "updates", "command"), normalise));
        out.push('|');
    }
    out.push_str("] facts=");
    let facts = as_offset(need(v, "facts", "segment"));
    shape_fact_chain(items, facts, &mut out);
    out.push_str(" prior_facts=");
    let pf = as_offset(need(v, "prior_facts", "segment"));
    if pf.is_some() && pf == facts {
        out.push_str("same");
    } else {
        shape_fact_chain(items, pf, &mut out);
    }
    out
}

pub fn segment_facts_offset(items: &[(Box<[u8]>, ciborium::Value)], seg_offset: u64) -> u64 {
    as_offset(need(&items[seg_offset as usize].1, "facts", "segment")).unwrap_or_else(|| mcx::machinery_error("segment without facts offset"))
}

/// 128-bit canonical hash of a key string (two independent 64-bit FNV passes).
pub fn hash128(s: &str) -> u128 {
    let a = mcx::fnv64(s.as_bytes());
    let mut h: u64 = 0x9e3779b97f4a7c15;
    for b in s.as_bytes() {
        h = (h ^ (*b as u64)).wrapping_mul(0xff51afd7ed558ccd);
        h ^= h >> 29;
    }
    ((a as u128) << 64) | h as u128
}

pub fn names(n: usize) -> Vec<String> {
    (0..n).map(|i| format!("n{i}")).collect()
}

#[allow(dead_code)]
pub fn distinct<T: Ord + Clone>(v: &[T]) -> usize {
    v.iter().cloned().collect::<BTreeSet<_>>().len()
}
