//! Per-worker accumulator (counters, outcome classes, minimal failing case per clause) that is
//! folded into the one `mcx::Report` of the run, plus JSON (de)serialisation of universes for
//! replay files.

use std::collections::BTreeMap;

use mcx::{json, Report, Value};
use rtlib::dag::{Dag, Kind, MergeRank, Node, Op};

/// A failing case. Cases of one clause are ordered by `rank` (smaller = more minimal), then by key.
#[derive(Clone, Debug)]
pub struct Case {
    pub rank: (usize, usize, usize),
    pub case: String,
    pub desc: String,
    pub replay: Value,
    /// the clause name alone is the violation key (root cause identified); the case goes into the description only
    pub fixed_key: bool,
}

#[derive(Default)]
pub struct Acc {
    pub counters: BTreeMap<String, u64>,
    pub maxima: BTreeMap<String, u64>,
    pub outcomes: BTreeMap<String, u64>,
    /// clause -> (number of failing cases, minimal failing case)
    pub faults: BTreeMap<String, (u64, Case)>,
    pub samples: Vec<Value>,
}

impl Acc {
    pub fn count(&mut self, k: &str, n: u64) {
        *self.counters.entry(k.to_string()).or_insert(0) += n;
    }
    pub fn maximum(&mut self, k: &str, v: u64) {
        let e = self.maxima.entry(k.to_string()).or_insert(0);
        *e = (*e).max(v);
    }
    pub fn outcome(&mut self, k: &str, n: u64) {
        *self.outcomes.entry(k.to_string()).or_insert(0) += n;
    }
    pub fn sample(&mut self, v: Value) {
        if self.samples.len() < 2 {
            self.samples.push(v);
        }
    }
    pub fn fault(&mut self, clause: &str, c: Case) {
        match self.faults.get_mut(clause) {
            None => {
                self.faults.insert(clause.to_string(), (1, c));
            }
            Some((n, best)) => {
                *n += 1;
                if (c.rank, &c.case) < (best.rank, &best.case) {
                    *best = c;
                }
            }
        }
    }
    pub fn absorb(&mut self, o: Acc) {
        for (k, v) in o.counters {
            *self.counters.entry(k).or_insert(0) += v;
        }
        for (k, v) in o.outcomes {
            *self.outcomes.entry(k).or_insert(0) += v;
        }
        for (k, v) in o.maxima {
            self.maximum(&k, v);
        }
        for (k, (n, c)) in o.faults {
            match self.faults.get_mut(&k) {
                None => {
                    self.faults.insert(k, (n, c));
                }
                Some((m, best)) => {
                    *m += n;
                    if (c.rank, &c.case) < (best.rank, &best.case) {
                        *best = c;
                    }
                }
            }
        }
        for s in o.samples {
            if self.samples.len() < 6 {
                self.samples.push(s);
            }
        }
    }
    /// Move everything into the report: one violation per broken clause, keyed by the clause
    /// and its minimal failing case.
    pub fn into_report(self, rep: &mut Report) {
        for (k, v) in self.counters {
            rep.count(&k, v);
        }
        for (k, v) in self.outcomes {
            rep.outcome(&k, v);
        }
        for (k, v) in self.maxima {
            rep.set(&k, v);
        }
        for s in self.samples {
            rep.sample(s);
        }
        for (clause, (n, c)) in self.faults {
            rep.violation(
                if c.fixed_key { clause.clone() } else { format!("{clause} [min: {}]", c.case) },
                format!("{} ({n} failing cases in the explored space; minimal one shown: {})", c.desc, c.case),
                c.replay,
            );
        }
    }
}

pub fn dag_to_json(d: &Dag) -> Value {
    let nodes: Vec<Value> = d
        .nodes
        .iter()
        .map(|n| {
            let (k, p) = match n.kind {
                Kind::Init => ("init", 0),
                Kind::Basic(p) => ("basic", p),
                Kind::Finalize => ("finalize", 0),
                Kind::Merge => ("merge", 0),
            };
            json!({"kind": k, "prio": p, "parents": n.parents, "rank": n.rank})
        })
        .collect();
    json!({"nodes": nodes, "merge_rank": match d.merge_rank { MergeRank::Low => "low", MergeRank::High => "high", MergeRank::Hash => "hash" }})
}

pub fn dag_from_json(v: &Value) -> Option<Dag> {
    let mut nodes = Vec::new();
    for n in v.get("nodes")?.as_array()? {
        let kind = match n.get("kind")?.as_str()? {
            "init" => Kind::Init,
            "basic" => Kind::Basic(n.get("prio")?.as_u64()? as u32),
            "finalize" => Kind::Finalize,
            "merge" => Kind::Merge,
            _ => return None,
        };
        let parents: Vec<usize> = n.get("parents")?.as_array()?.iter().filter_map(|p| p.as_u64().map(|x| x as usize)).collect();
        let prog = if kind == Kind::Merge { vec![] } else { vec![Op::Append] };
        nodes.push(Node { kind, parents, rank: n.get("rank")?.as_u64()? as u8, prog });
    }
    let merge_rank = match v.get("merge_rank")?.as_str()? {
        "low" => MergeRank::Low,
        "high" => MergeRank::High,
        "hash" => MergeRank::Hash,
        _ => return None,
    };
    Some(Dag { nodes, merge_rank })
}

pub fn set_to_json(s: &crate::world::NodeSet) -> Value {
    json!(s.iter().collect::<Vec<usize>>())
}

pub fn set_from_json(n: usize, v: &Value) -> Option<crate::world::NodeSet> {
    Some(crate::world::NodeSet::from_iter(n, v.as_array()?.iter().filter_map(|x| x.as_u64().map(|x| x as usize))))
}
