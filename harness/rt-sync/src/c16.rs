//! C16 (repeated sync delivers everything) and C17 (sessions are sound and terminate): one driver,
//! two sets of clauses.

use std::{
    collections::HashSet,
    hash::{Hash, Hasher},
};

use mcx::{json, rayon::prelude::*, Args, Level, Report, Tier, Value};
use rtlib::{
    dag::MergeRank,
    rt::{PeerCache, SyncIncoming, SyncResponder, COMMAND_RESPONSE_MAX, MAX_SYNC_MESSAGE_SIZE},
};

use crate::{
    acc::{dag_from_json, dag_to_json, set_from_json, set_to_json, Acc, Case},
    session::{session, sync_err_class, Bufs, Cfg, CtrRng, Mode, Outcome, Peer},
    wire::{dec_resp, WResp},
    world::{build, committed, fan, fan_node, universes, Layout, NodeSet, UniverseOpts, World},
};

/// Identified root cause of fruitless full sessions (tier-independent violation keys).
pub const BUDGET_CAUSE: &str = "segment-budget-spent-on-commands-the-requester-holds";

pub const CFGS: [Cfg; 4] = [
    Cfg { mode: Mode::OneShot, persistent: true },
    Cfg { mode: Mode::OneShot, persistent: false },
    Cfg { mode: Mode::Full, persistent: true },
    Cfg { mode: Mode::Full, persistent: false },
];

/// How the two replicas of a pair come into being.
#[derive(Clone, Debug, Default)]
pub enum Family {
    /// both built directly from their sets with their layouts
    #[default]
    Plain,
    /// three-replica history: A first synced (full session, persistent cache) from an early B
    /// that held only `p1`, then learnt the rest of its set from a third replica C (layout `lc`,
    /// separate cache); its cache for B is therefore stale when it meets the present B
    Stale { p1: NodeSet, lc: Layout },
    /// explicit ingest batches (one transaction, `flush` after every batch => one segment per
    /// batch and causal run): segment boundaries chosen independently on both sides
    Batches { a: Vec<Vec<usize>>, b: Vec<Vec<usize>> },
}

pub struct Pair<'a> {
    pub family: Family,
    pub w: &'a World,
    pub sa: &'a NodeSet,
    pub sb: &'a NodeSet,
    pub la: Layout,
    pub lb: Layout,
    pub cfg: Cfg,
    /// human-readable, stable description of (A, B) inside the universe
    pub name: String,
    pub probe: bool,
}

impl Pair<'_> {
    fn case(&self) -> String {
        format!("{} {} A:{} B:{} {}", self.w.label, self.name, self.la.tag(), self.lb.tag(), self.cfg.tag())
    }
    fn replay(&self) -> Value {
        json!({
            "dag": dag_to_json(&self.w.dag), "label": self.w.label, "a": set_to_json(self.sa), "b": set_to_json(self.sb),
            "layout_a": self.la.tag(), "layout_b": self.lb.tag(),
            "mode": if self.cfg.mode == Mode::OneShot { "oneshot" } else { "full" }, "persistent": self.cfg.persistent,
            "name": self.name,
            "family": match &self.family {
                Family::Plain => json!({"kind": "plain"}),
                Family::Stale { p1, lc } => json!({"kind": "stale", "p1": set_to_json(p1), "layout_c": lc.tag()}),
                Family::Batches { a, b } => json!({"kind": "batches", "a": a, "b": b}),
            },
        })
    }
    fn rank(&self) -> (usize, usize, usize) {
        let cfg_ord = CFGS.iter().position(|c| *c == self.cfg).unwrap_or(9);
        let lay = |l: Layout| match l {
            Layout::Coarse => 0,
            Layout::Fine => 1,
            Layout::Chunk(s) => 2 + s,
        };
        (self.w.n(), self.sa.count() + self.sb.count(), cfg_ord * 10_000 + lay(self.la) * 100 + lay(self.lb))
    }
}

#[derive(Default)]
pub struct PairStats {
    pub sessions: u64,
    pub steps: u64,
    pub states: Vec<u64>,
    pub c16: Vec<(String, String)>,
    pub c17: Vec<(String, String)>,
    pub delivered: u64,
    pub redundant: u64,
    pub multi_response_sessions: u64,
    pub cut_responses: u64,
    pub max_sessions_needed: u64,
    pub sample_max: usize,
    pub converged: bool,
    pub chatter: bool,
    pub probe_classes: Vec<String>,
    pub probes: u64,
    /// sessions that added nothing although the requester lacked commands of the responder
    pub fruitless: Vec<String>,
    /// per fruitless session: did it match the identified root cause (segment budget spent on
    /// commands the requester already holds)?
    pub fruitless_budget: Vec<bool>,
    /// one-response exchanges stopped making progress (informational)
    pub oneshot_stalled: bool,
    /// (stale-cache family) max cut distance between A's cache entry for B and A's real frontier
    pub stale_cache_gap: u64,
    /// (stale-cache family) A's cache for B while A talks to C
    pub saved_cache: Option<rtlib::rt::PeerCache>,
    /// full sessions in which one responder segment was cut by the response limit at least twice
    pub segment_cut_twice: u64,
    /// sessions in which the responder sent the tail of one of its segments starting after a
    /// command the requester holds, although the request sample named no command inside that segment
    /// (the segment was trimmed by coverage propagation from a fork, `cover_up_to`)
    pub trimmed_by_coverage: u64,
}

fn state_key(a: &NodeSet, b: &NodeSet, dir: u8, p: &Pair<'_>) -> u64 {
    let mut h = std::collections::hash_map::DefaultHasher::new();
    (a, b, dir, p.la, p.lb, p.cfg, &p.w.label).hash(&mut h);
    h.finish()
}

/// One session `req <- resp` with the set-level oracles around it. Returns (outcome, gained).
#[allow(clippy::too_many_arguments)]
fn step(
    p: &Pair<'_>,
    st: &mut PairStats,
    req: &mut Peer,
    resp: &mut Peer,
    cur_req: &mut NodeSet,
    cur_resp: &NodeSet,
    dir: u8,
    rng: &CtrRng,
    bufs: &mut Bufs,
    keep: bool,
) -> (Outcome, usize) {
    let w = p.w;
    st.states.push(if dir == 0 { state_key(cur_req, cur_resp, dir, p) } else { state_key(cur_resp, cur_req, dir, p) });
    let missing = cur_resp.minus(cur_req);
    let out = session(w, req, resp, cur_resp, p.cfg, rng, bufs, keep);
    st.sessions += 1;
    st.steps += out.steps;
    st.delivered += out.delivered.len() as u64;
    st.sample_max = st.sample_max.max(out.sample);
    if out.responses > 1 {
        st.multi_response_sessions += 1;
    }
    st.cut_responses += out.full_responses as u64;
    st.trimmed_by_coverage += trimmed_by_coverage(w, resp, cur_req, &out) as u64;
    if out.resp_sizes.len() >= 3 {
        st.segment_cut_twice += segment_cut_twice(w, resp, &out) as u64;
    }
    let who = if dir == 0 { "A<-B" } else { "B<-A" };
    for (c, d) in &out.faults {
        st.c17.push((c.clone(), format!("session {} ({who}): {d}", st.sessions)));
    }
    let new_req = match committed(w, &mut req.r) {
        Ok(s) => s,
        Err(e) => {
            st.c17.push(("requester-graph-unreadable".into(), format!("after session {} ({who}): {e}", st.sessions)));
            return (out, 0);
        }
    };
    if !new_req.subset_of(&cur_req.union(cur_resp)) {
        st.c17.push((
            "foreign-in-graph".into(),
            format!("after session {} ({who}) the requester holds {} which neither side had", st.sessions, new_req.minus(&cur_req.union(cur_resp)).show()),
        ));
    }
    if !cur_req.subset_of(&new_req) {
        st.c17.push(("requester-lost-commands".into(), format!("session {} ({who}) removed {} from the requester", st.sessions, cur_req.minus(&new_req).show())));
    }
    let gained = new_req.minus(cur_req).count();
    st.redundant += out.delivered.iter().filter(|&&i| cur_req.has(i)).count() as u64;
    if !missing.is_empty() && gained == 0 {
        let cause = budget_cause(w, resp, cur_req, cur_resp, &out);
        st.fruitless_budget.push(cause.0);
        st.fruitless.push(format!(
            "session {} ({who}) added none of the {} missing commands {} (sample of {} addresses, {} responses, {} commands delivered, all already held; {})",
            st.sessions,
            missing.count(),
            missing.show(),
            out.sample,
            out.responses,
            out.delivered.len(),
            cause.1
        ));
    }
    *cur_req = new_req;
    (out, gained)
}

/// Does some responder segment contribute commands to at least three responses of this session
/// (i.e. it was cut by the response limit at least twice)?
fn segment_cut_twice(w: &World, resp: &mut Peer, out: &Outcome) -> bool {
    use rtlib::rt::{Storage as _, StorageProvider as _};
    let Ok(storage) = resp.r.client.provider().get_storage(w.graph) else { return false };
    let mut per_seg: std::collections::BTreeMap<_, std::collections::BTreeSet<usize>> = Default::default();
    let mut k = 0;
    for (ri, &n) in out.resp_sizes.iter().enumerate() {
        for &i in out.delivered.iter().skip(k).take(n) {
            if let Ok(Some(loc)) = storage.get_location(rtlib::replica::addr(w.ids[i], w.max_cuts[i]), &mut resp.r.buffers.traversal.primary) {
                per_seg.entry(loc.segment).or_default().insert(ri);
            }
        }
        k += n;
    }
    per_seg.values().any(|r| r.len() >= 3)
}

/// Did this session exercise the responder's coverage trimming of an already pending segment
/// (`cover_up_to` finding an entry)? Observable from outside as: some delivered command `x` has
/// its single parent `y` in the SAME responder segment, `y` was not delivered and is held by the
/// requester, and the request sample names no command inside that segment (so the trim cannot
/// come from a sampled address in the segment, only from coverage propagated across a fork).
fn trimmed_by_coverage(w: &World, resp: &mut Peer, cur_req: &NodeSet, out: &Outcome) -> bool {
    use rtlib::rt::{Storage as _, StorageProvider as _};
    if out.delivered.is_empty() {
        return false;
    }
    let Ok(storage) = resp.r.client.provider().get_storage(w.graph) else { return false };
    let mut seg_of = |i: usize| storage.get_location(rtlib::replica::addr(w.ids[i], w.max_cuts[i]), &mut resp.r.buffers.traversal.primary).ok().flatten().map(|l| l.segment);
    let sample: Vec<rtlib::rt::Address> = match crate::wire::dec_type(&out.request) {
        Ok((crate::wire::WType::Poll { request: crate::wire::WReq::SyncRequest { commands, .. } }, _)) => commands,
        _ => return false,
    };
    let sample_segs: Vec<_> = sample.iter().filter_map(|a| w.idx_of.get(&a.id).copied()).filter_map(&mut seg_of).collect();
    for &x in &out.delivered {
        let ps = &w.dag.nodes[x].parents;
        if ps.len() != 1 {
            continue;
        }
        let y = ps[0];
        if out.delivered.contains(&y) || !cur_req.has(y) {
            continue;
        }
        if let (Some(sx), Some(sy)) = (seg_of(x), seg_of(y)) {
            if sx == sy && !sample_segs.contains(&sx) {
                return true;
            }
        }
    }
    false
}

/// Root-cause predicate for a fruitless session, evaluated on the harness's own model of what
/// the responder can know: the addresses of the request sample that the responder has committed
/// tell it that the requester holds their ancestors; every other committed command is "needed".
/// True iff every delivered command was already held by the requester, none of them is known to
/// be held from the sample (ancestor-or-equal of a sample address the responder has) AND the needed commands
/// lie in more than SEGMENT_BUFFER_MAX segments of the responder's storage (so `push_bounded`
/// had to evict segments, keeping the lowest max cuts).
fn budget_cause(w: &World, resp: &mut Peer, cur_req: &NodeSet, cur_resp: &NodeSet, out: &Outcome) -> (bool, String) {
    use rtlib::rt::{Storage as _, StorageProvider as _};
    let all_held = !out.delivered.is_empty() && out.delivered.iter().all(|&i| cur_req.has(i));
    let sample: Vec<rtlib::rt::Address> = match crate::wire::dec_type(&out.request) {
        Ok((crate::wire::WType::Poll { request: crate::wire::WReq::SyncRequest { commands, .. } }, _)) => commands,
        _ => return (false, "request unreadable".into()),
    };
    let mut known = NodeSet::empty(w.n());
    for a in &sample {
        if let Some(&i) = w.idx_of.get(&a.id) {
            if cur_resp.has(i) {
                known.insert(i);
                known = known.union(&w.anc[i]);
            }
        }
    }
    let needed = cur_resp.minus(&known);
    let mut segments = std::collections::BTreeSet::new();
    if let Ok(storage) = resp.r.client.provider().get_storage(w.graph) {
        for i in needed.iter() {
            let addr = rtlib::replica::addr(w.ids[i], w.max_cuts[i]);
            if let Ok(Some(loc)) = storage.get_location(addr, &mut resp.r.buffers.traversal.primary) {
                segments.insert(loc.segment);
            }
        }
    }
    let over = segments.len() > crate::segment_buffer_max();
    // the responder had no way to know: none of the delivered commands is an ancestor-or-equal
    // of a sample address the responder holds
    let unknowable = out.delivered.iter().all(|&i| !known.has(i));
    (
        all_held && over && unknowable,
        format!("the responder could not know that the requester holds {} of the {} commands it considered needed; those lie in {} segments, budget {}", needed.count() - needed.minus(cur_req).count(), needed.count(), segments.len(), crate::segment_buffer_max()),
    )
}

/// Buffer-size probe (C17): replay the recorded request against the responder's replica with
/// too-small target buffers before every message; the retry with a full-size buffer must give the
/// byte-identical message of the undisturbed session (nothing lost, skipped or re-indexed), and
/// the session must still end with its end message.
fn buffer_probe(_p: &Pair<'_>, st: &mut PairStats, resp: &mut Peer, reference: &Outcome, bufs: &mut Bufs) {
    if reference.request.is_empty() || reference.messages.is_empty() || !reference.faults.is_empty() {
        return;
    }
    let mut responder = SyncResponder::new();
    match SyncIncoming::decode(&reference.request) {
        Ok(SyncIncoming::Poll(poll)) => {
            if responder.receive(poll).is_err() {
                return;
            }
        }
        _ => return,
    }
    let brief = |bytes: &[u8]| match dec_resp(bytes) {
        Ok((WResp::SyncResponse { response_index, commands, .. }, _)) => {
            format!("SyncResponse#{response_index} with {} commands starting at {:02x}..", commands.len(), commands.first().map(|c| c.id.as_bytes()[0]).unwrap_or(0))
        }
        Ok((WResp::SyncEnd { max_index, .. }, _)) => format!("SyncEnd(max_index {max_index})"),
        Ok((o, _)) => format!("{o:?}"),
        Err(e) => format!("unreadable ({e})"),
    };
    let mut cache = PeerCache::new();
    st.probes += 1;
    for (k, want) in reference.messages.iter().enumerate() {
        let (is_end, hdr) = match dec_resp(want) {
            Ok((WResp::SyncResponse { .. }, off)) => (false, off),
            Ok((_, off)) => (true, off),
            Err(e) => mcx::machinery_error(&format!("probe: mirror cannot read a real response: {e}")),
        };
        let lost = if is_end { "end-message-lost-after-small-buffer" } else { "commands-lost-after-small-buffer" };
        let mut sizes = vec![0usize, hdr.saturating_sub(1), hdr, want.len().saturating_sub(1)];
        sizes.sort();
        sizes.dedup();
        for sz in sizes {
            if sz >= want.len() {
                continue;
            }
            st.steps += 1;
            match responder.poll(&mut bufs.resp[..sz], resp.r.client.provider(), &mut cache, &mut resp.r.buffers.traversal) {
                Ok(n) => {
                    // a message that fits where the undisturbed one does not is a different message
                    st.c17.push((
                        lost.into(),
                        format!("after too-small buffers, poll #{k} into a {sz}-byte buffer produced {} although the undisturbed session sends {} ({} bytes) at this point", brief(&bufs.resp[..n]), brief(want), want.len()),
                    ));
                    return;
                }
                Err(e) => st.probe_classes.push(sync_err_class(&e).to_string()),
            }
            if !responder.ready() {
                st.c17.push((
                    lost.into(),
                    format!("a {sz}-byte buffer for message #{k} ({}) left the responder not ready: the message can no longer be obtained", brief(want)),
                ));
                return;
            }
        }
        st.steps += 1;
        match responder.poll(&mut bufs.resp, resp.r.client.provider(), &mut cache, &mut resp.r.buffers.traversal) {
            Ok(n) if bufs.resp[..n] == want[..] => {}
            Ok(n) => {
                st.c17.push((lost.into(), format!("after BufferTooSmall retries, message #{k} is {} but the undisturbed session sent {}", brief(&bufs.resp[..n]), brief(want))));
                return;
            }
            Err(e) => {
                st.c17.push((lost.into(), format!("after BufferTooSmall retries, poll #{k} into a full-size buffer failed ({e}); the undisturbed session sent {}", brief(want))));
                return;
            }
        }
    }
}

pub fn run_pair(p: &Pair<'_>, seed: u64) -> PairStats {
    let w = p.w;
    let mut st = PairStats::default();
    let mut bufs = Bufs::new();
    let rng = CtrRng::new(seed, 0x5e55);
    let die = |what: &str, e: String| -> ! { mcx::machinery_error(&format!("cannot build {what} for {}: {e}", p.case())) };
    let (mut a, mut b) = match &p.family {
        Family::Plain => (
            Peer::new(build(w, p.sa, p.la).unwrap_or_else(|e| die("replica A", e))),
            Peer::new(build(w, p.sb, p.lb).unwrap_or_else(|e| die("replica B", e))),
        ),
        Family::Batches { a, b } => (
            Peer::new(crate::world::build_batches(w, a).unwrap_or_else(|e| die("replica A", e))),
            Peer::new(crate::world::build_batches(w, b).unwrap_or_else(|e| die("replica B", e))),
        ),
        Family::Stale { p1, lc } => {
            // real sessions all the way: A <- early B, then A <- C with another cache
            let full = Cfg { mode: Mode::Full, persistent: true };
            let mut a = Peer::new(build(w, &NodeSet::empty(w.n()), p.la).unwrap_or_else(|e| die("replica A", e)));
            let mut have = NodeSet::empty(w.n());
            // the setup sessions are real sessions of the explored space: what goes wrong in them
            // is a verdict (with the setup step in the clause), not a harness failure
            for (stage, target) in [("setup A<-early B", p1), ("setup A<-C", p.sa)] {
                let mut src = if stage == "setup A<-early B" {
                    Peer::new(build(w, p1, p.lb).unwrap_or_else(|e| die("early replica B", e)))
                } else {
                    // what A remembers about B stays behind; C gets a cache of its own
                    st.saved_cache = Some(std::mem::replace(&mut a.cache, rtlib::rt::PeerCache::new()));
                    Peer::new(build(w, p.sa, *lc).unwrap_or_else(|e| die("replica C", e)))
                };
                let mut dry = 0;
                while !target.subset_of(&have) {
                    let o = session(w, &mut a, &mut src, target, full, &rng, &mut bufs, false);
                    st.steps += o.steps;
                    st.sessions += 1;
                    for (c, d) in &o.faults {
                        st.c17.push((format!("{c} ({stage})"), format!("{stage}: {d}")));
                    }
                    let now = committed(w, &mut a.r).unwrap_or_else(|e| die("replica A (setup)", e));
                    dry = if now == have { dry + 1 } else { 0 };
                    have = now;
                    if dry >= 2 {
                        st.c16.push((
                            format!("never-delivered ({stage})"),
                            format!("{stage}: {dry} consecutive sessions added nothing; A holds {} and still lacks {}{}", have.show(), target.minus(&have).show(), if o.never_ended { "; the responder never reached its end message, so the transport would never commit" } else { "" }),
                        ));
                        return st;
                    }
                }
            }
            let cache_for_b = st.saved_cache.take().unwrap_or_default();
            if have != *p.sa {
                die("replica A", format!("setup left A with {}", have.show()));
            }
            a.cache = cache_for_b; // what A remembers about B: B's head of long ago
            st.stale_cache_gap = a.cache.heads().iter().map(|h| h.max_cut.get()).max().map(|c| w.frontier(p.sa).iter().map(|&i| w.max_cuts[i]).max().unwrap_or(0).saturating_sub(c)).unwrap_or(0);
            (a, Peer::new(build(w, p.sb, p.lb).unwrap_or_else(|e| die("replica B", e))))
        }
    };
    let mut cur_a = p.sa.clone();
    let mut cur_b = p.sb.clone();

    // The statements speak about SESSIONS, i.e. exchanges run to their end message. The progress,
    // eventual-delivery and convergence clauses are therefore applied to sessions polled to
    // SyncEnd only; one-response exchanges (what aranya-tcp-syncer / testing::dsl do per call) are
    // explored with the soundness clauses of C17, their fruitless exchanges are merely counted.
    let strict = p.cfg.mode == Mode::Full;

    // phase 1: A requests from B until it has everything B committed
    let budget = cur_b.minus(&cur_a).count() as u64;
    let mut first = true;
    let mut n1 = 0u64;
    // a fruitless session is a violation by itself; keep going to see whether delivery ever
    // resumes (persistent caches change between sessions; PEER_HEAD_MAX + 2 tries)
    let patience = rtlib::rt::PEER_HEAD_MAX as u64 + 2;
    let mut dry = 0u64;
    while !cur_b.subset_of(&cur_a) {
        let keep = first && p.probe;
        let (out, gained) = step(p, &mut st, &mut a, &mut b, &mut cur_a, &cur_b, 0, &rng, &mut bufs, keep);
        if keep {
            buffer_probe(p, &mut st, &mut b, &out, &mut bufs);
        }
        first = false;
        n1 += 1;
        dry = if gained == 0 { dry + 1 } else { 0 };
        if dry >= patience || (dry >= 2 && !p.cfg.persistent) {
            // fresh caches: the second fruitless session starts from the identical state
            if !strict {
                st.oneshot_stalled = true;
                return st;
            }
            let budget_only = !st.fruitless_budget.is_empty() && st.fruitless_budget.iter().all(|b| *b);
            st.c16.push((
                if budget_only { format!("never-delivered:{BUDGET_CAUSE}") } else { "never-delivered".into() },
                format!("{dry} consecutive sessions A<-B added nothing; A still lacks {} of B's commands: {}; first fruitless session: {}", cur_b.minus(&cur_a).count(), cur_b.minus(&cur_a).show(), st.fruitless.first().cloned().unwrap_or_default()),
            ));
            return st;
        }
    }
    st.max_sessions_needed = n1;
    if strict && st.fruitless.is_empty() && n1 > budget {
        st.c16.push(("too-many-sessions".into(), format!("{n1} sessions for {budget} missing commands")));
    }

    // phase 2: alternate directions until a round transfers nothing
    let bound = 2 * w.n() + 4 + 2 * patience as usize;
    let mut quiet = false;
    let mut redundant_only = false;
    for _ in 0..bound {
        let (o1, g1) = step(p, &mut st, &mut b, &mut a, &mut cur_b, &cur_a, 1, &rng, &mut bufs, false);
        let (o2, g2) = step(p, &mut st, &mut a, &mut b, &mut cur_a, &cur_b, 0, &rng, &mut bufs, false);
        if o1.delivered.is_empty() && o2.delivered.is_empty() {
            quiet = true;
            break;
        }
        if cur_a == cur_b && g1 + g2 == 0 {
            // both hold the same commands and the round only re-delivered commands already held:
            // no later session can change either committed graph, so the end state is reached
            redundant_only = true;
            break;
        }
    }
    if strict {
        if let Some(k) = st.fruitless_budget.iter().position(|b| !*b) {
            st.c16.push(("session-without-progress".into(), format!("{} ({} such sessions for this pair)", st.fruitless[k], st.fruitless.len())));
        } else if let Some(f) = st.fruitless.first() {
            st.c16.push((format!("session-without-progress:{BUDGET_CAUSE}"), format!("{f} ({} such sessions for this pair)", st.fruitless.len())));
        }
    }
    if cur_a != cur_b && !strict {
        st.oneshot_stalled = true;
        return st;
    }
    if cur_a != cur_b {
        st.c16.push((
            if quiet { "quiescent-but-different".into() } else { "no-convergence".into() },
            format!("after {} in both directions A holds {} and B holds {}", if quiet { "a round that transferred nothing".to_string() } else { format!("{bound} rounds") }, cur_a.show(), cur_b.show()),
        ));
        return st;
    }
    if !quiet {
        let _ = redundant_only;
        st.chatter = true; // both hold everything but already-held commands keep flowing: the statement is silent
    }
    match (a.r.observe(), b.r.observe()) {
        (Ok(oa), Ok(ob)) => {
            if oa != ob {
                st.c16.push((
                    "diverged".into(),
                    format!("after syncing until nothing is transferred the replicas differ: A {} | B {}", oa.short(), ob.short()),
                ));
            } else {
                st.converged = true;
            }
        }
        (ea, eb) => st.c16.push(("unreadable".into(), format!("observation failed after convergence: A {:?} B {:?}", ea.err(), eb.err()))),
    }
    st
}

fn fold(acc: &mut Acc, p: &Pair<'_>, st: PairStats, prop: &str, states: &mut HashSet<u64>) {
    acc.count("executions", 1);
    acc.count("sessions", st.sessions);
    acc.count("transitions", st.steps);
    acc.count("commands_delivered", st.delivered);
    acc.count("redundant_deliveries", st.redundant);
    acc.count("multi_response_sessions", st.multi_response_sessions);
    acc.count("responses_cut_at_response_max", st.cut_responses);
    acc.count("buffer_probes", st.probes);
    acc.count("sessions_trimming_a_pending_segment_by_coverage", st.trimmed_by_coverage);
    acc.count("sessions_with_a_segment_cut_twice_by_the_response_limit", st.segment_cut_twice);
    if st.stale_cache_gap > crate::segment_buffer_max() as u64 {
        acc.count("pairs_with_cache_staler_than_segment_window", 1);
    }
    if st.sample_max >= crate::sample_max() {
        acc.count("sessions_with_saturated_sample", 1);
    }
    for c in &st.probe_classes {
        acc.outcome(&format!("small-buffer:{c}"), 1);
        if c == "BufferTooSmall" {
            acc.count("buffer_too_small_seen", 1);
        }
    }
    for s in st.states {
        states.insert(s);
    }
    acc.maximum("max_sessions_for_one_direction", st.max_sessions_needed);
    if p.cfg.mode == Mode::Full {
        acc.count("full_sessions_without_progress", st.fruitless.len() as u64);
    } else {
        acc.count("fruitless_oneshot_exchanges", st.fruitless.len() as u64);
        acc.count("oneshot_pairs_that_stop_progressing", st.oneshot_stalled as u64);
    }
    if st.converged {
        acc.outcome(if st.chatter { "converged-with-redundant-traffic" } else { "converged" }, 1);
        acc.count("converged_pairs", 1);
    }
    let (mine, other) = if prop == "C16" { (&st.c16, &st.c17) } else { (&st.c17, &st.c16) };
    acc.count("other_property_faults_seen", other.len() as u64);
    if !mine.is_empty() {
        acc.outcome("violating-pair", 1);
    }
    for (clause, desc) in mine {
        acc.fault(clause, Case { rank: p.rank(), case: p.case(), desc: format!("{}: {desc}", p.case()), replay: p.replay(), fixed_key: clause.ends_with(BUDGET_CAUSE) });
    }
}

fn small_universe_opts(tier: Tier) -> UniverseOpts {
    UniverseOpts {
        n_min: 1,
        n_max: tier.pick(5, 6),
        prios: vec![0, 1],
        prio_upto: tier.pick(4, 5),
        full_rank_perms_upto: tier.pick(5, 5),
        merge_ranks: vec![MergeRank::Low, MergeRank::High, MergeRank::Hash],
    }
}

fn show_pair(sa: &NodeSet, sb: &NodeSet) -> String {
    format!("A={} B={}", sa.show(), sb.show())
}

/// Exhaustive part: every universe, every ordered pair (A ∈ down-closed subsets ∪ {absent},
/// B ∈ down-closed subsets), segmentations, all four driver configurations.
fn run_small(args: &Args, prop: &str, acc: &mut Acc, states_total: &mut u64, rep: &mut Report) {
    let opts = small_universe_opts(args.tier);
    let us = universes(&opts);
    rep.set("universes", us.len() as u64);
    rep.set("max_commands_exhaustive", opts.n_max as u64);
    let layouts: Vec<(Layout, Layout)> = match args.tier {
        Tier::Quick => vec![(Layout::Coarse, Layout::Coarse), (Layout::Fine, Layout::Fine)],
        Tier::Thorough => vec![(Layout::Coarse, Layout::Coarse), (Layout::Fine, Layout::Fine), (Layout::Coarse, Layout::Fine), (Layout::Fine, Layout::Coarse)],
    };
    let seed = args.seed;
    let reduced_cfgs = false;
    rep.set("configurations_for_largest_universes", if reduced_cfgs { "oneshot/persistent, full/fresh" } else { "all four" });
    let results: Vec<(Acc, u64)> = us
        .into_par_iter()
        .map(|(label, dag)| {
            let w = World::new(dag, label);
            let subsets = w.down_closed_subsets();
            let empty = NodeSet::empty(w.n());
            let mut acc = Acc::default();
            let mut states = HashSet::new();
            let mut sampled = false;
            for sb in &subsets {
                for sa in std::iter::once(&empty).chain(subsets.iter()) {
                    for &(la, lb) in &layouts {
                        for cfg in CFGS {
                            if reduced_cfgs && w.n() >= 5 && !(cfg == CFGS[0] || cfg == CFGS[3]) {
                                continue;
                            }
                            let p = Pair { family: Family::Plain, w: &w, sa, sb, la, lb, cfg, name: show_pair(sa, sb), probe: cfg.mode == Mode::Full && !cfg.persistent };
                            let st = run_pair(&p, seed);
                            if !sampled && w.n() >= 4 && st.sessions > 3 && st.converged {
                                sampled = true;
                                acc.sample(json!({"universe": w.dag.describe(), "pair": p.case(), "sessions": st.sessions, "commands_delivered": st.delivered, "converged": true}));
                            }
                            fold(&mut acc, &p, st, prop, &mut states);
                        }
                    }
                }
            }
            (acc, states.len() as u64)
        })
        .collect();
    for (a, s) in results {
        acc.absorb(a);
        *states_total += s;
    }
}

struct GridJob {
    w: std::sync::Arc<World>,
    sa: NodeSet,
    sb: NodeSet,
    name: String,
}

/// A/B variants over `fan(k, len)`.
fn fan_variants(w: &World, k: usize, len: usize) -> Vec<(String, NodeSet, NodeSet)> {
    let n = w.n();
    let full = w.full();
    // B variants: everything; everything but the second half of branch 0 (so A can be ahead there)
    let mut b_half = full.clone();
    if len >= 2 {
        b_half = NodeSet::from_iter(n, (0..n).filter(|&i| !(1 + len / 2..=len).contains(&i)));
    }
    let mut bs = vec![("all".to_string(), full.clone())];
    if len >= 2 || k >= 2 {
        let bh = if len >= 2 { b_half } else { NodeSet::from_iter(n, (0..n).filter(|&i| i != fan_node(len, 0, 0))) };
        bs.push(("all-but-tail-of-branch0".to_string(), bh));
    }
    if len >= 3 {
        bs.push(("all-but-tip-of-branch0".to_string(), NodeSet::from_iter(n, (0..n).filter(|&i| i != fan_node(len, 0, len - 1)))));
    }
    let mut avs: Vec<(String, NodeSet)> = vec![("absent".into(), NodeSet::empty(n)), ("init".into(), NodeSet::from_iter(n, [0]))];
    for (num, den) in [(1usize, 3usize), (2, 3)] {
        let pl = len * num / den;
        if pl >= 1 {
            avs.push((format!("prefix{num}/{den}"), NodeSet::from_iter(n, std::iter::once(0).chain((0..k).flat_map(|b| (0..pl).map(move |j| fan_node(len, b, j)))))));
        }
        let bk = k * num / den;
        if bk >= 1 {
            avs.push((format!("branches{num}/{den}"), NodeSet::from_iter(n, std::iter::once(0).chain((0..bk).flat_map(|b| (0..len).map(move |j| fan_node(len, b, j)))))));
        }
    }
    // everything except the newest command of the last branch
    avs.push(("all-but-one".into(), NodeSet::from_iter(n, (0..n).filter(|&i| i != fan_node(len, k - 1, len - 1)))));
    // everything except the newest command of the FIRST branch (sorts first among the heads)
    if k > 1 {
        avs.push(("all-but-first-tip".into(), NodeSet::from_iter(n, (0..n).filter(|&i| i != fan_node(len, 0, len - 1)))));
    }
    avs.push(("all".into(), full));
    let mut out = Vec::new();
    for (bn, sb) in &bs {
        for (an, sa) in &avs {
            debug_assert!(w.is_down_closed(sa) && w.is_down_closed(sb));
            out.push((format!("A={an} B={bn}"), sa.clone(), sb.clone()));
        }
    }
    out
}

fn grid_shapes(flavour: &str, tier: Tier) -> Vec<(usize, usize)> {
    if flavour == "S" {
        // crossing 20 sampled heads, 5 commands per response, 10 segments per session
        let ks = [1usize, 2, 3, 5, 11, 12, 21, 22, 25];
        let ls = [1usize, 2, 3, 4, 6, 7, 8, 12, 13, 25];
        let cap = tier.pick(26, 40);
        let mut v = Vec::new();
        for &k in &ks {
            for &l in &ls {
                if k * l <= cap {
                    v.push((k, l));
                }
            }
        }
        v
    } else {
        // crossing 100/100/100
        vec![(1, 250), (130, 1), (130, 2), (3, 85), (12, 20), (2, 120)]
    }
}

fn grid_layouts(flavour: &str) -> Vec<Layout> {
    if flavour == "S" {
        vec![Layout::Chunk(1), Layout::Chunk(3), Layout::Coarse]
    } else {
        vec![Layout::Chunk(1), Layout::Chunk(7), Layout::Chunk(60), Layout::Coarse]
    }
}

fn run_grids(args: &Args, prop: &str, flavour: &str, acc: &mut Acc, states_total: &mut u64, rep: &mut Report) {
    let shapes = grid_shapes(flavour, args.tier);
    rep.set(&format!("grid_shapes_{flavour}"), json!(shapes.iter().map(|(k, l)| format!("{k}x{l}")).collect::<Vec<_>>()));
    let layouts = grid_layouts(flavour);
    let mut jobs = Vec::new();
    for &(k, l) in &shapes {
        let w = std::sync::Arc::new(World::new(fan(k, l), format!("fan{k}x{l}")));
        for (name, sa, sb) in fan_variants(&w, k, l) {
            jobs.push(GridJob { w: w.clone(), sa, sb, name });
        }
    }
    rep.count("grid_pairs", jobs.len() as u64);
    let seed = args.seed;
    let same_layout_only = flavour == "P";
    let quick = args.tier == Tier::Quick;
    let results: Vec<(Acc, u64)> = jobs
        .into_par_iter()
        .map(|j| {
            let mut acc = Acc::default();
            let mut states = HashSet::new();
            for &la in &layouts {
                for &lb in &layouts {
                    if same_layout_only && la != lb && !(matches!((la, lb), (Layout::Chunk(1), Layout::Coarse) | (Layout::Coarse, Layout::Chunk(1)))) {
                        continue;
                    }
                    // quick: equal layouts plus the two extreme mixed ones
                    if quick && la != lb && !(matches!((la, lb), (Layout::Chunk(1), Layout::Coarse) | (Layout::Coarse, Layout::Chunk(1)))) {
                        continue;
                    }
                    for cfg in CFGS {
                        let p = Pair { family: Family::Plain, w: &j.w, sa: &j.sa, sb: &j.sb, la, lb, cfg, name: j.name.clone(), probe: cfg.mode == Mode::Full && !cfg.persistent && la == lb };
                        let st = run_pair(&p, seed);
                        fold(&mut acc, &p, st, prop, &mut states);
                    }
                }
            }
            (acc, states.len() as u64)
        })
        .collect();
    for (a, s) in results {
        acc.absorb(a);
        *states_total += s;
    }
}

/// `main` commands in a chain after init (nodes 1..=main) and a branch of `t` commands forked
/// from main command `f` (nodes main+1..=main+t).
fn fork_world(main: usize, f: usize, t: usize) -> World {
    use rtlib::dag::{Dag, Kind, Node, Op};
    let mut nodes = vec![Node { kind: Kind::Init, parents: vec![], rank: crate::world::RANK_INIT, prog: vec![Op::Append] }];
    for j in 0..main {
        nodes.push(Node { kind: Kind::Basic(0), parents: vec![j], rank: 0x60, prog: vec![Op::Append] });
    }
    for j in 0..t {
        let parent = if j == 0 { f } else { nodes.len() - 1 };
        nodes.push(Node { kind: Kind::Basic(1), parents: vec![parent], rank: 0x20, prog: vec![Op::Append] });
    }
    World::new(Dag { nodes, merge_rank: MergeRank::Low }, format!("fork{main}at{f}x{t}"))
}

struct FamJob {
    w: std::sync::Arc<World>,
    family: Family,
    sa: NodeSet,
    sb: NodeSet,
    la: Layout,
    lb: Layout,
    name: String,
    persistent_only: bool,
}

/// Structured families beyond "two replicas built from their sets":
/// * stale per-peer cache: A synced from B long ago, caught up through a third replica C by more
///   than the responder's segment window, B moved on (three-replica histories, real sessions);
/// * responder segments forked in the middle, the requester holding the forked branch in
///   segments with other boundaries (as when it learnt the prefix through a third replica), so
///   that the responder trims an already pending segment by coverage.
fn family_jobs(flavour: &str, tier: Tier) -> Vec<FamJob> {
    let win = crate::segment_buffer_max();
    let mut jobs = Vec::new();
    // --- stale cache
    let ks: &[usize] = if flavour == "S" { &[1, 2] } else { &[1] };
    let gaps: Vec<usize> = if flavour == "S" { vec![win - 1, win, win + 1, win + 4] } else { vec![win - 1, win + 1] };
    for &k in ks {
        for p1 in [1usize, 2] {
            for &g in &gaps {
                for t in [1usize, win + 2] {
                    let p2 = p1 + g;
                    let len = p2 + t;
                    let w = std::sync::Arc::new(World::new(fan(k, len), format!("fan{k}x{len}")));
                    let prefix = |p: usize| NodeSet::from_iter(w.n(), std::iter::once(0).chain((0..k).flat_map(|b| (0..p).map(move |j| fan_node(len, b, j)))));
                    let lbs: Vec<Layout> = if flavour == "S" { vec![Layout::Chunk(1), Layout::Chunk(3), Layout::Coarse] } else { vec![Layout::Chunk(1), Layout::Chunk(7)] };
                    for lb in lbs {
                        for lc in [Layout::Chunk(1), Layout::Coarse] {
                            if tier == Tier::Quick && flavour == "S" && k == 2 && lc == Layout::Coarse && lb == Layout::Chunk(3) {
                                continue;
                            }
                            jobs.push(FamJob {
                                w: w.clone(),
                                family: Family::Stale { p1: prefix(p1), lc },
                                sa: prefix(p2),
                                sb: w.full(),
                                la: Layout::Coarse,
                                lb,
                                name: format!("stale-cache: A<-B at cut {p1}, then A<-C({}) up to cut {p2}, B at cut {len}", lc.tag()),
                                persistent_only: true,
                            });
                        }
                    }
                }
            }
        }
    }
    // --- mid-segment forks with different boundaries on both sides
    let rmax = rtlib::rt::COMMAND_RESPONSE_MAX;
    let s_lens: Vec<usize> = if flavour == "S" { vec![2, 3, 4, rmax + 2] } else { vec![2, 4] };
    for s0 in [1usize, 2] {
        for &ls in &s_lens {
            for lu in [1usize, 2] {
                let s1 = s0 + ls;
                let main = s1 + lu;
                for f in s0 + 1..s1 {
                    for t in [1usize, 2, 3] {
                        let w = std::sync::Arc::new(fork_world(main, f, t));
                        let branch: Vec<usize> = (main + 1..=main + t).collect();
                        let b_batches = vec![(0..=s0).collect::<Vec<_>>(), (s0 + 1..=s1).collect(), (s1 + 1..=main).collect(), branch.clone()];
                        let sa = NodeSet::from_iter(w.n(), (0..=f).chain(branch.iter().copied()));
                        // A variants: prefix + branch in ONE segment (learnt from the branch's
                        // author in one go) / one command per segment / prefix up to the fork point and branch apart
                        let one: Vec<Vec<usize>> = vec![(0..=s0).collect(), (s0 + 1..=f).chain(branch.iter().copied()).collect()];
                        let each: Vec<Vec<usize>> = (0..=f).chain(branch.iter().copied()).map(|i| vec![i]).collect();
                        let apart: Vec<Vec<usize>> = vec![(0..=f).collect(), branch.clone()];
                        for (an, a_batches) in [("joined", one), ("single", each), ("apart", apart)] {
                            jobs.push(FamJob {
                                w: w.clone(),
                                family: Family::Batches { a: a_batches, b: b_batches.clone() },
                                sa: sa.clone(),
                                sb: w.full(),
                                la: Layout::Coarse,
                                lb: Layout::Coarse,
                                name: format!("mid-segment fork: B segments 0..={s0} | {}..={s1} | {}..={main} | branch from {f}; A holds 0..={f}+branch ({an})", s0 + 1, s1 + 1),
                                persistent_only: false,
                            });
                        }
                    }
                }
            }
        }
    }
    jobs
}

fn run_families(args: &Args, prop: &str, flavour: &str, acc: &mut Acc, states_total: &mut u64, rep: &mut Report) {
    let jobs = family_jobs(flavour, args.tier);
    rep.count("family_pairs", jobs.len() as u64);
    let seed = args.seed;
    let results: Vec<(Acc, u64)> = jobs
        .into_par_iter()
        .map(|j| {
            let mut acc = Acc::default();
            let mut states = HashSet::new();
            for cfg in CFGS {
                if j.persistent_only && !cfg.persistent {
                    continue;
                }
                let p = Pair { family: j.family.clone(), w: &j.w, sa: &j.sa, sb: &j.sb, la: j.la, lb: j.lb, cfg, name: j.name.clone(), probe: cfg.mode == Mode::Full && !cfg.persistent };
                let st = run_pair(&p, seed);
                fold(&mut acc, &p, st, prop, &mut states);
            }
            (acc, states.len() as u64)
        })
        .collect();
    for (a, s) in results {
        acc.absorb(a);
        *states_total += s;
    }
}

pub fn run(args: &Args, prop: &str) {
    let flavour = args.extra.get("flavour").cloned().unwrap_or_else(|| "P".into());
    crate::check_flavour(&flavour);
    if let Some(f) = &args.replay {
        replay(args, prop, f);
    }
    let mut rep = Report::new(args, Level::ModelChecking);
    let mut acc = Acc::default();
    let mut states = 0u64;
    let t0 = std::time::Instant::now();
    if flavour == "S" {
        run_small(args, prop, &mut acc, &mut states, &mut rep);
    }
    let t_small = t0.elapsed().as_secs_f64();
    let ex_small = acc.counters.get("executions").copied().unwrap_or(0);
    run_grids(args, prop, &flavour, &mut acc, &mut states, &mut rep);
    run_families(args, prop, &flavour, &mut acc, &mut states, &mut rep);
    rep.set("wall_small_universes_s", (t_small * 10.0).round() / 10.0);
    rep.set("wall_grids_s", ((t0.elapsed().as_secs_f64() - t_small) * 10.0).round() / 10.0);
    rep.set("executions_small_universes", ex_small);
    acc.into_report(&mut rep);
    rep.set("states", states);
    let ex = rep.counter("executions");
    rep.set("traces_validated_against_impl", ex);
    rep.set("exhaustive", true);
    rep.set("flavour", flavour.clone());
    rep.set(
        "limits",
        json!({"COMMAND_SAMPLE_MAX": crate::sample_max(), "COMMAND_RESPONSE_MAX": COMMAND_RESPONSE_MAX, "SEGMENT_BUFFER_MAX": crate::segment_buffer_max(), "MAX_SYNC_MESSAGE_SIZE": MAX_SYNC_MESSAGE_SIZE}),
    );
    rep.set("driver_configurations", json!(CFGS.iter().map(|c| c.tag()).collect::<Vec<_>>()));
    rep.assume("replicas are memory-backed LinearStorageProvider instances (same LinearStorage code as the file backend)");
    rep.assume("the transports are mirrored in-process: one-shot sessions as aranya-tcp-syncer/testing::dsl drive them, full sessions as run_full_session drives them; no bytes are lost or reordered between the two sides");
    // vacuity guards apply to clean runs only: a run that found violations is not vacuous
    if rep.violations().iter().all(|v| v.key.ends_with(BUDGET_CAUSE)) {
        rep.require_nonzero("executions");
        rep.require_nonzero("commands_delivered");
        rep.require_nonzero("multi_response_sessions");
        rep.require_nonzero("responses_cut_at_response_max");
        rep.require_nonzero("sessions_with_saturated_sample");
        rep.require_nonzero("converged_pairs");
        rep.require_nonzero("sessions_trimming_a_pending_segment_by_coverage");
        rep.require_nonzero("sessions_with_a_segment_cut_twice_by_the_response_limit");
        rep.require_nonzero("pairs_with_cache_staler_than_segment_window");
        if prop == "C17" {
            rep.require_nonzero("buffer_probes");
            rep.require_nonzero("buffer_too_small_seen");
        }
    }
    rep.finish()
}

fn replay(args: &Args, prop: &str, f: &std::path::Path) -> ! {
    let v: Value = serde_json::from_str(&std::fs::read_to_string(f).unwrap_or_else(|e| mcx::machinery_error(&format!("replay file: {e}"))))
        .unwrap_or_else(|e| mcx::machinery_error(&format!("replay file does not parse: {e}")));
    let r = v.get("replay").unwrap_or(&v);
    let dag = r.get("dag").and_then(dag_from_json).unwrap_or_else(|| mcx::machinery_error("replay: no dag"));
    let label = r.get("label").and_then(|l| l.as_str()).unwrap_or("replay").to_string();
    let w = World::new(dag, label);
    let sa = r.get("a").and_then(|x| set_from_json(w.n(), x)).unwrap_or_else(|| mcx::machinery_error("replay: no a"));
    let sb = r.get("b").and_then(|x| set_from_json(w.n(), x)).unwrap_or_else(|| mcx::machinery_error("replay: no b"));
    let lay = |k: &str| match r.get(k).and_then(|x| x.as_str()).unwrap_or("coarse") {
        "coarse" => Layout::Coarse,
        "fine" => Layout::Fine,
        s if s.starts_with("chunk") => Layout::Chunk(s[5..].parse().unwrap_or(1)),
        _ => Layout::Coarse,
    };
    let cfg = Cfg {
        mode: if r.get("mode").and_then(|x| x.as_str()) == Some("full") { Mode::Full } else { Mode::OneShot },
        persistent: r.get("persistent").and_then(|x| x.as_bool()).unwrap_or(false),
    };
    let name = r.get("name").and_then(|x| x.as_str()).unwrap_or("").to_string();
    let parse_layout = |t: &str| match t {
        "fine" => Layout::Fine,
        t if t.starts_with("chunk") => Layout::Chunk(t[5..].parse().unwrap_or(1)),
        _ => Layout::Coarse,
    };
    let batches = |v: Option<&Value>| -> Vec<Vec<usize>> {
        v.and_then(|x| x.as_array()).map(|bs| bs.iter().map(|b| b.as_array().map(|c| c.iter().filter_map(|x| x.as_u64().map(|x| x as usize)).collect()).unwrap_or_default()).collect()).unwrap_or_default()
    };
    let family = match r.get("family").and_then(|f| f.get("kind")).and_then(|k| k.as_str()) {
        Some("stale") => Family::Stale {
            p1: r.get("family").and_then(|f| f.get("p1")).and_then(|x| set_from_json(w.n(), x)).unwrap_or_else(|| mcx::machinery_error("replay: no p1")),
            lc: parse_layout(r.get("family").and_then(|f| f.get("layout_c")).and_then(|x| x.as_str()).unwrap_or("coarse")),
        },
        Some("batches") => Family::Batches { a: batches(r.get("family").and_then(|f| f.get("a"))), b: batches(r.get("family").and_then(|f| f.get("b"))) },
        _ => Family::Plain,
    };
    let p = Pair { family, w: &w, sa: &sa, sb: &sb, la: lay("layout_a"), lb: lay("layout_b"), cfg, name, probe: cfg.mode == Mode::Full && !cfg.persistent };
    println!("replaying {}", p.case());
    println!("universe: {}", w.dag.describe());
    let st = run_pair(&p, args.seed);
    let mine = if prop == "C16" { &st.c16 } else { &st.c17 };
    for (c, d) in mine {
        println!("VIOLATION property={prop} clause={c}: {d}");
    }
    println!("{} sessions, {} steps, converged={}", st.sessions, st.steps, st.converged);
    std::process::exit(if mine.is_empty() { 0 } else { 1 })
}
