//! C18 — sync message handling never panics, never reads past the received bytes, and a requester
//! never accepts commands for another session or out of sequence.
//!
//! Inputs: the DESIGN 4.8 corruption alphabet over two valid encodings of every message kind
//! (built with the wire mirror and validated against the real encoders/decoders), all byte strings
//! of length ≤ 2, length 3–4 over a 16-value alphabet, and every valid encoding with its first two
//! bytes (the dispatch tags) replaced. Targets: `SyncIncoming::decode` followed by what a transport
//! does with the result (`SyncResponder::receive` → `poll` against a small real storage,
//! `SyncRequester::receive_push`, `update_heads` for subscribe heads), `SyncRequester::receive` in
//! every requester state reachable through the public API, and `SubscribeResponse::decode`.

use std::{
    collections::{BTreeMap, HashSet},
    sync::Arc,
    time::Duration,
};

use mcx::{json, rayon::prelude::*, Args, Level, Report, Tier, Value};
use rtlib::{
    replica::{addr, MemReplica},
    rt::{
        Address, CmdId, Command as _, GraphId, PeerCache, Prior, Priority, SubscribeResponse, SyncCommand, SyncError, SyncHello,
        SyncIncoming, SyncRequester, SyncResponder, MAX_SYNC_MESSAGE_SIZE,
    },
};

use crate::{
    session::{sync_err_class, CtrRng},
    wire::{dec_resp, dec_type, enc, varint_bytes, FieldKind, Spans, WHello, WMeta, WReq, WResp, WSubscribeResult, WType},
    world::{build, fan, Layout, World},
};

const RNG_STREAM: u64 = 0xc18;

// ------------------------------------------------------------------------------------------------
// inputs

#[derive(Clone, Copy, Debug, PartialEq, Eq, Hash, PartialOrd, Ord)]
enum Family {
    /// `SyncType`-encoded: what `SyncIncoming::decode` reads
    Type,
    /// bare response message: what `SyncRequester::receive` reads
    Resp,
    /// `SubscribeResult`
    SubRes,
    /// raw byte strings: go to every entry point
    Raw,
}

struct Input {
    family: Family,
    name: String,
    bytes: Vec<u8>,
}

fn byte_subs(orig: u8) -> Vec<u8> {
    let mut out = Vec::with_capacity(7);
    for c in [0x00, 0x01, 0x7f, 0x80, 0xff, orig ^ 1, orig ^ 0x80] {
        if c != orig && !out.contains(&c) {
            out.push(c);
        }
    }
    out
}

/// DESIGN 4.8 over one valid encoding `s` (with `other` = a second valid object of the same kind).
fn corruptions(kind: &str, family: Family, s: &Spans, other: &Spans, out: &mut Vec<Input>) {
    let e = &s.bytes;
    let mut push = |name: String, bytes: Vec<u8>| out.push(Input { family, name: format!("{kind}:{name}"), bytes });
    push("valid".into(), e.clone());
    for i in 0..e.len() {
        push(format!("trunc{i}"), e[..i].to_vec());
    }
    for x in [0x00u8, 0x01, 0xff] {
        let mut v = e.clone();
        v.push(x);
        push(format!("extra{x:02x}"), v);
    }
    for i in 0..e.len() {
        for c in byte_subs(e[i]) {
            let mut v = e.clone();
            v[i] = c;
            push(format!("byte{i}={c:02x}"), v);
        }
    }
    let splice = |start: usize, end: usize, with: &[u8]| {
        let mut v = e[..start].to_vec();
        v.extend_from_slice(with);
        v.extend_from_slice(&e[end..]);
        v
    };
    for f in &s.fields {
        if f.kind == FieldKind::Raw {
            continue;
        }
        let mut vals = vec![0u128, f.value.wrapping_add(1), f.value.wrapping_sub(1), u32::MAX as u128, u64::MAX as u128];
        if f.name == "session_id" {
            vals.push(u128::MAX);
        }
        vals.dedup();
        for v in vals {
            if v == f.value {
                continue;
            }
            push(format!("{}={v}", f.name), splice(f.start, f.end, &varint_bytes(v)));
        }
    }
    // one byte moved across a field boundary
    for pair in s.fields.windows(2) {
        let o = pair[0].end;
        if o == 0 || o >= e.len() || pair[1].start != o {
            continue;
        }
        if e[o - 1] != e[o] {
            let mut v = e.clone();
            v.swap(o - 1, o);
            push(format!("boundary:{}|{}", pair[0].name, pair[1].name), v);
        }
        // numeric neighbours: shift one unit of length from one to the other
        if pair[0].kind != FieldKind::Raw && pair[1].kind != FieldKind::Raw {
            for (da, db) in [(1i8, -1i8), (-1, 1)] {
                let a = pair[0].value as i128 + da as i128;
                let b = pair[1].value as i128 + db as i128;
                if a < 0 || b < 0 {
                    continue;
                }
                let mut v = e[..pair[0].start].to_vec();
                v.extend(varint_bytes(a as u128));
                v.extend(varint_bytes(b as u128));
                v.extend_from_slice(&e[pair[1].end..]);
                push(format!("shift:{}{:+}|{}{:+}", pair[0].name, da, pair[1].name, db), v);
            }
        }
    }
    // payload split moved by one byte between the last two length fields that are not adjacent
    let lens: Vec<&crate::wire::Field> = s.fields.iter().filter(|f| f.name.ends_with(".length") || f.name.ends_with(".policy_length")).collect();
    for w in lens.windows(2) {
        for (da, db) in [(1i128, -1i128), (-1, 1)] {
            let (a, b) = (w[0].value as i128 + da, w[1].value as i128 + db);
            if a < 0 || b < 0 || w[0].end > w[1].start {
                continue;
            }
            let mut v = e[..w[0].start].to_vec();
            v.extend(varint_bytes(a as u128));
            v.extend_from_slice(&e[w[0].end..w[1].start]);
            v.extend(varint_bytes(b as u128));
            v.extend_from_slice(&e[w[1].end..]);
            push(format!("payload-shift:{}{:+}|{}{:+}", w[0].name, da, w[1].name, db), v);
        }
    }
    // every field swapped with the same field of a second valid object
    for f in &s.fields {
        if let Some(g) = other.fields.iter().find(|g| g.name == f.name) {
            let with = &other.bytes[g.start..g.end];
            if with != &e[f.start..f.end] {
                push(format!("swap:{}", f.name), splice(f.start, f.end, with));
            }
        }
    }
}

pub struct Valid {
    pub kind: &'static str,
    family: Family,
    pub a: Spans,
    pub b: Spans,
}

/// The session id a `SyncRequester::new(graph, CtrRng::new(seed, RNG_STREAM))` draws.
fn drawn_session_id(seed: u64, w: &World) -> u128 {
    let rng = CtrRng::new(seed, RNG_STREAM);
    let mut rq = SyncRequester::new(w.graph, &rng);
    let mut r = MemReplica::new_mem(w.graph);
    let mut buf = vec![0u8; MAX_SYNC_MESSAGE_SIZE];
    let cache = PeerCache::new();
    let (len, _) = rq
        .poll(&mut buf, r.client.provider(), &cache.session_heads(), &mut r.buffers.traversal.primary)
        .unwrap_or_else(|e| mcx::machinery_error(&format!("C18: requester poll: {e}")));
    match dec_type(&buf[..len]) {
        Ok((WType::Poll { request: WReq::SyncRequest { session_id, .. } }, _)) => session_id,
        other => mcx::machinery_error(&format!("C18: mirror cannot read a real request: {other:?}")),
    }
}

fn meta_of(w: &World, i: usize) -> (WMeta, Vec<u8>) {
    let c = &w.cmds[i];
    let mut payload = Vec::new();
    let pl = c.policy.as_ref().map(|p| p.len()).unwrap_or(0);
    if let Some(p) = &c.policy {
        payload.extend_from_slice(p);
    }
    payload.extend_from_slice(&c.data);
    (WMeta { id: c.id, priority: c.priority.clone(), parent: c.prior, policy_length: pl as u32, length: c.data.len() as u32 }, payload)
}

pub fn valid_objects(w: &World, sid1: u128) -> Vec<Valid> {
    let sid2: u128 = 0x0102_0304_0506_0708_090a_0b0c_0d0e_0f10;
    let g = w.graph;
    let g2 = GraphId::transmute(CmdId::from_bytes([0x77; 32]));
    let a = |i: usize| addr(w.ids[i], w.max_cuts[i]);
    let resp = |sid: u128, idx: u64, nodes: &[usize]| {
        let mut metas = Vec::new();
        let mut payload = Vec::new();
        for &i in nodes {
            let (m, p) = meta_of(w, i);
            metas.push(m);
            payload.extend(p);
        }
        (WResp::SyncResponse { session_id: sid, response_index: idx, commands: metas }, payload)
    };
    let (ra, pa) = resp(sid1, 0, &[0, 1, 2]); // init (carries policy bytes), b, c
    let (rb, pb) = resp(sid2, 1, &[3]);
    // the in-sequence successors of `ra` (accepted after one response has been received)
    let (rc, pc) = resp(sid1, 1, &[3, 4]);
    let (rd, pd) = resp(sid1, 1, &[1]);
    let poll = |r: WReq| WType::Poll { request: r };
    let ty = |t: &WType, p: &[u8]| Spans::of_type(t, p);
    let d = Duration::new;
    vec![
        Valid {
            kind: "poll-request",
            family: Family::Type,
            a: ty(&poll(WReq::SyncRequest { session_id: sid1, graph_id: g, max_bytes: 0, commands: vec![a(2), a(3)] }), &[]),
            b: ty(&poll(WReq::SyncRequest { session_id: sid2, graph_id: g, max_bytes: 1000, commands: vec![a(0)] }), &[]),
        },
        Valid {
            kind: "poll-request-wide",
            family: Family::Type,
            a: ty(&poll(WReq::SyncRequest { session_id: sid1, graph_id: g, max_bytes: 0, commands: leaf_addrs(w, 0, rtlib::rt::PEER_HEAD_MAX + 1) }), &[]),
            b: ty(&poll(WReq::SyncRequest { session_id: sid2, graph_id: g, max_bytes: 9, commands: leaf_addrs(w, 1, rtlib::rt::PEER_HEAD_MAX + 1) }), &[]),
        },
        Valid {
            kind: "subscribe-wide",
            family: Family::Type,
            a: ty(&WType::Subscribe { remain_open: 1, max_bytes: 10, commands: leaf_addrs(w, 0, rtlib::rt::PEER_HEAD_MAX + 1), graph_id: g }, &[]),
            b: ty(&WType::Subscribe { remain_open: 2, max_bytes: 20, commands: leaf_addrs(w, 2, rtlib::rt::PEER_HEAD_MAX + 1), graph_id: g }, &[]),
        },
        Valid {
            kind: "poll-request-empty",
            family: Family::Type,
            a: ty(&poll(WReq::SyncRequest { session_id: sid1, graph_id: g, max_bytes: 0, commands: vec![] }), &[]),
            b: ty(&poll(WReq::SyncRequest { session_id: sid2, graph_id: g2, max_bytes: 7, commands: vec![] }), &[]),
        },
        Valid {
            kind: "poll-request-missing",
            family: Family::Type,
            a: ty(&poll(WReq::RequestMissing { session_id: sid1, indexes: vec![1] }), &[]),
            b: ty(&poll(WReq::RequestMissing { session_id: sid2, indexes: vec![] }), &[]),
        },
        Valid {
            kind: "poll-resume",
            family: Family::Type,
            a: ty(&poll(WReq::SyncResume { session_id: sid1, response_index: 0, max_bytes: 0 }), &[]),
            b: ty(&poll(WReq::SyncResume { session_id: sid2, response_index: 3, max_bytes: 100 }), &[]),
        },
        Valid {
            kind: "poll-end-session",
            family: Family::Type,
            a: ty(&poll(WReq::EndSession { session_id: sid1 }), &[]),
            b: ty(&poll(WReq::EndSession { session_id: sid2 }), &[]),
        },
        Valid { kind: "response", family: Family::Resp, a: Spans::of_resp(&ra, &pa), b: Spans::of_resp(&rb, &pb) },
        Valid { kind: "response-next", family: Family::Resp, a: Spans::of_resp(&rc, &pc), b: Spans::of_resp(&rd, &pd) },
        Valid {
            kind: "end",
            family: Family::Resp,
            a: Spans::of_resp(&WResp::SyncEnd { session_id: sid1, max_index: 0, remaining: false }, &[]),
            b: Spans::of_resp(&WResp::SyncEnd { session_id: sid2, max_index: 2, remaining: true }, &[]),
        },
        Valid {
            kind: "offer",
            family: Family::Resp,
            a: Spans::of_resp(&WResp::Offer { session_id: sid1, head: w.ids[2] }, &[]),
            b: Spans::of_resp(&WResp::Offer { session_id: sid2, head: w.ids[4] }, &[]),
        },
        Valid {
            kind: "end-session",
            family: Family::Resp,
            a: Spans::of_resp(&WResp::EndSession { session_id: sid1 }, &[]),
            b: Spans::of_resp(&WResp::EndSession { session_id: sid2 }, &[]),
        },
        Valid {
            kind: "push",
            family: Family::Type,
            a: ty(&WType::Push { message: ra.clone(), graph_id: g }, &pa),
            b: ty(&WType::Push { message: rb.clone(), graph_id: g2 }, &pb),
        },
        Valid {
            kind: "subscribe",
            family: Family::Type,
            a: ty(&WType::Subscribe { remain_open: 10, max_bytes: 1000, commands: vec![a(2), a(4)], graph_id: g }, &[]),
            b: ty(&WType::Subscribe { remain_open: 0, max_bytes: 0, commands: vec![], graph_id: g2 }, &[]),
        },
        Valid {
            kind: "unsubscribe",
            family: Family::Type,
            a: ty(&WType::Unsubscribe { graph_id: g }, &[]),
            b: ty(&WType::Unsubscribe { graph_id: g2 }, &[]),
        },
        Valid {
            kind: "hello-subscribe",
            family: Family::Type,
            a: ty(&WType::Hello(WHello::Subscribe { graph_id: g, graph_change_delay: d(1, 5), duration: d(60, 0), schedule_delay: d(0, 999_999_999) }), &[]),
            b: ty(&WType::Hello(WHello::Subscribe { graph_id: g2, graph_change_delay: d(0, 0), duration: d(u32::MAX as u64, 1), schedule_delay: d(3, 3) }), &[]),
        },
        Valid {
            kind: "hello-unsubscribe",
            family: Family::Type,
            a: ty(&WType::Hello(WHello::Unsubscribe { graph_id: g }), &[]),
            b: ty(&WType::Hello(WHello::Unsubscribe { graph_id: g2 }), &[]),
        },
        Valid {
            kind: "hello",
            family: Family::Type,
            a: ty(&WType::Hello(WHello::Hello { graph_id: g, head: a(4) }), &[]),
            b: ty(&WType::Hello(WHello::Hello { graph_id: g2, head: a(0) }), &[]),
        },
        Valid {
            kind: "subscribe-result",
            family: Family::SubRes,
            a: Spans::of_subscribe_result(&WSubscribeResult::Success),
            b: Spans::of_subscribe_result(&WSubscribeResult::TooManySubscriptions),
        },
    ]
}

const ALPHA16: [u8; 16] = [0x00, 0x01, 0x02, 0x03, 0x04, 0x05, 0x08, 0x10, 0x20, 0x21, 0x40, 0x7f, 0x80, 0x81, 0xfe, 0xff];

// ------------------------------------------------------------------------------------------------
// evaluation

struct Ctx {
    w: Arc<World>,
    /// small real storage the responder answers from
    b: MemReplica,
    out: Vec<u8>,
    seed: u64,
    sid1: u128,
    /// valid messages used to put requesters/responders into a state
    prep_resp0: Vec<u8>,
    prep_resp7: Vec<u8>,
    prep_end0: Vec<u8>,
    prep_endsession: Vec<u8>,
}

impl Ctx {
    fn new(w: Arc<World>, seed: u64, sid1: u128) -> Self {
        let b = build(&w, &w.full(), Layout::Chunk(2)).unwrap_or_else(|e| mcx::machinery_error(&format!("C18 build: {e}")));
        Ctx {
            w,
            b,
            out: vec![0u8; MAX_SYNC_MESSAGE_SIZE],
            seed,
            sid1,
            prep_resp0: enc(&WResp::SyncResponse { session_id: sid1, response_index: 0, commands: vec![] }),
            prep_resp7: enc(&WResp::SyncResponse { session_id: sid1, response_index: 7, commands: vec![] }),
            prep_end0: enc(&WResp::SyncEnd { session_id: sid1, max_index: 0, remaining: false }),
            prep_endsession: enc(&WResp::EndSession { session_id: sid1 }),
        }
    }
}

#[derive(Default)]
struct Tally {
    evaluations: u64,
    outcomes: BTreeMap<String, u64>,
    nontrivial: HashSet<u64>,
    /// clause -> (count, minimal input, description, target)
    faults: BTreeMap<String, (u64, Vec<u8>, String, String)>,
    accepted_commands: u64,
    session_mismatch_seen: u64,
    missing_response_seen: u64,
    malformed_seen: u64,
    responder_replies: u64,
    /// accumulate sequences that ended with a full PeerCache (the step that must be refused silently)
    full_cache_offers: u64,
}

impl Tally {
    fn fault(&mut self, clause: String, input: &[u8], desc: String, name: &str) {
        match self.faults.get_mut(&clause) {
            None => {
                self.faults.insert(clause, (1, input.to_vec(), desc, name.to_string()));
            }
            Some((n, best, d, nm)) => {
                *n += 1;
                if (input.len(), input) < (best.len(), &best[..]) {
                    *best = input.to_vec();
                    *d = desc;
                    *nm = name.to_string();
                }
            }
        }
    }
    fn merge(mut self, o: Tally) -> Tally {
        self.evaluations += o.evaluations;
        for (k, v) in o.outcomes {
            *self.outcomes.entry(k).or_insert(0) += v;
        }
        self.nontrivial.extend(o.nontrivial);
        for (k, (n, inp, d, nm)) in o.faults {
            match self.faults.get_mut(&k) {
                None => {
                    self.faults.insert(k, (n, inp, d, nm));
                }
                Some((m, best, bd, bn)) => {
                    *m += n;
                    if (inp.len(), &inp[..]) < (best.len(), &best[..]) {
                        *best = inp;
                        *bd = d;
                        *bn = nm;
                    }
                }
            }
        }
        self.accepted_commands += o.accepted_commands;
        self.session_mismatch_seen += o.session_mismatch_seen;
        self.missing_response_seen += o.missing_response_seen;
        self.malformed_seen += o.malformed_seen;
        self.responder_replies += o.responder_replies;
        self.full_cache_offers += o.full_cache_offers;
        self
    }
    fn note(&mut self, target: &str, class: &str, input: &[u8], nontrivial: bool) {
        self.evaluations += 1;
        *self.outcomes.entry(format!("{target}:{class}")).or_insert(0) += 1;
        if nontrivial {
            let mut k = target.as_bytes().to_vec();
            k.push(0);
            k.extend_from_slice(input);
            self.nontrivial.insert(mcx::fnv64(&k));
        }
    }
}

fn inside(input: &[u8], s: &[u8]) -> bool {
    let r = input.as_ptr_range();
    let p = s.as_ptr();
    // an empty slice may sit at the very end of the buffer
    p >= r.start && p.wrapping_add(s.len()) <= r.end
}

fn check_slices(input: &[u8], cmds: &[SyncCommand<'_>]) -> Option<String> {
    for (i, c) in cmds.iter().enumerate() {
        if !inside(input, c.bytes()) {
            return Some(format!("command {i}: data slice lies outside the received bytes"));
        }
        if let Some(p) = c.policy() {
            if !inside(input, p) {
                return Some(format!("command {i}: policy slice lies outside the received bytes"));
            }
        }
    }
    None
}

/// `SyncIncoming::decode` and what a transport does with the result.
fn eval_decode(ctx: &mut Ctx, name: &str, input: &[u8], t: &mut Tally) {
    let target = "decode";
    let w = ctx.w.clone();
    let r = mcx::catch(|| -> (String, bool, Vec<(String, String)>) {
        let mut faults: Vec<(String, String)> = Vec::new();
        let inc = match SyncIncoming::decode(input) {
            Err(e) => return (format!("err:{}", sync_err_class(&e)), false, faults),
            Ok(i) => i,
        };
        let class = match inc {
            SyncIncoming::Poll(p) => {
                let sid = p.session_id();
                let mut r = SyncResponder::new();
                let mut cache = PeerCache::new();
                let mut cls = match r.receive(p) {
                    Ok(()) => "poll:received".to_string(),
                    Err(e) => format!("poll:receive-err:{}", sync_err_class(&e)),
                };
                let mut polls = 0;
                while r.ready() && polls < 8 {
                    polls += 1;
                    match r.poll(&mut ctx.out, ctx.b.client.provider(), &mut cache, &mut ctx.b.buffers.traversal) {
                        Ok(n) => {
                            if n > ctx.out.len() {
                                faults.push(("responder-length-beyond-buffer".into(), format!("poll returned {n} for a {}-byte buffer", ctx.out.len())));
                            }
                            cls.push_str(if n == 0 { "/empty" } else { "/msg" });
                        }
                        Err(e) => {
                            cls.push_str(&format!("/err:{}", sync_err_class(&e)));
                        }
                    }
                }
                // a responder bound to another session must refuse this poll
                let other = enc(&WType::Poll { request: WReq::SyncRequest { session_id: sid ^ 1, graph_id: w.graph, max_bytes: 0, commands: vec![] } });
                let mut r2 = SyncResponder::new();
                if let (Ok(SyncIncoming::Poll(first)), Ok(SyncIncoming::Poll(again))) = (SyncIncoming::decode(&other), SyncIncoming::decode(input)) {
                    if r2.receive(first).is_ok() {
                        match r2.receive(again) {
                            Err(SyncError::SessionMismatch) => {}
                            Err(e) => faults.push(("responder-foreign-session".into(), format!("a responder bound to another session answered {} instead of SessionMismatch", sync_err_class(&e)))),
                            Ok(()) => faults.push(("responder-foreign-session".into(), "a responder bound to another session accepted the poll".into())),
                        }
                    }
                }
                cls
            }
            SyncIncoming::Push(p) => {
                let sid = p.session_id();
                let gid = p.graph_id();
                let mut rq = SyncRequester::new_session_id(gid, sid);
                let cls = match rq.receive_push(p) {
                    Ok(Some(cmds)) => {
                        if let Some(d) = check_slices(input, &cmds) {
                            faults.push(("slice-outside-input".into(), d));
                        }
                        format!("push:commands{}", cmds.len().min(3))
                    }
                    Ok(None) => "push:none".into(),
                    Err(e) => format!("push:err:{}", sync_err_class(&e)),
                };
                // the same push offered to a requester of another session
                if let Ok(SyncIncoming::Push(p2)) = SyncIncoming::decode(input) {
                    let mut other = SyncRequester::new_session_id(gid, sid ^ 1);
                    match other.receive_push(p2) {
                        Err(SyncError::SessionMismatch) => {}
                        Err(e) => faults.push(("foreign-session".into(), format!("receive_push for another session returned {} instead of SessionMismatch", sync_err_class(&e)))),
                        Ok(x) => faults.push(("foreign-session".into(), format!("receive_push for another session returned Ok({:?} commands)", x.map(|c| c.len())))),
                    }
                }
                cls
            }
            SyncIncoming::Subscribe(s) => {
                let _ = (s.remain_open(), s.max_bytes(), s.heads().as_slice().len());
                let mut cache = PeerCache::new();
                let res = ctx.b.client.update_heads(s.graph_id(), s.heads().iter(), &mut cache, &mut ctx.b.buffers.traversal.primary);
                format!("subscribe:{}heads:{}", s.heads().iter().len().min(3), if res.is_ok() { "ok" } else { "err" })
            }
            SyncIncoming::Unsubscribe(u) => {
                let _ = u.graph_id();
                "unsubscribe".into()
            }
            SyncIncoming::Hello(h) => match h {
                SyncHello::Subscribe(s) => {
                    let _ = (s.graph_id(), s.graph_change_delay(), s.duration(), s.schedule_delay());
                    "hello-subscribe".into()
                }
                SyncHello::Unsubscribe(u) => {
                    let _ = u.graph_id();
                    "hello-unsubscribe".into()
                }
                SyncHello::Hello(n) => {
                    let sync = ctx.b.client.should_sync_on_hello(n.graph_id(), n.head(), &mut ctx.b.buffers.traversal.primary);
                    format!("hello:{}", match sync {
                        Ok(true) => "sync",
                        Ok(false) => "nosync",
                        Err(_) => "err",
                    })
                }
            },
        };
        (class, true, faults)
    });
    match r {
        Ok((class, nontrivial, faults)) => {
            if class.contains("/msg") {
                t.responder_replies += 1;
            }
            t.note(target, &class, input, nontrivial);
            for (c, d) in faults {
                t.fault(format!("{c} ({target})"), input, d, name);
            }
        }
        Err(msg) => {
            t.note(target, "PANIC", input, true);
            t.fault(format!("panic ({target}) at {}", mcx::last_panic_location()), input, format!("panicked: {msg}"), name);
        }
    }
}

#[derive(Clone, Copy, Debug, PartialEq, Eq)]
enum RState {
    New,
    Start,
    Waiting0,
    Waiting1,
    PartialSync,
    Closed,
    Resync,
    Reset,
    /// `new_session_id(graph, 0)` / `(graph, 1)`: targets for the short byte strings
    WaitingSid(u8),
}

const RSTATES: [RState; 8] = [RState::New, RState::Start, RState::Waiting0, RState::Waiting1, RState::PartialSync, RState::Closed, RState::Resync, RState::Reset];

/// (requester, session id, next expected index, accepts responses)
/// `Err((clause, description))` when the requester does not behave as the protocol rules demand
/// while being driven into the state: that is a finding about the requester, not a harness fault.
fn make_requester(ctx: &mut Ctx, st: RState) -> Result<(SyncRequester, u128, u64, bool), (String, String)> {
    let g = ctx.w.graph;
    let sid = ctx.sid1;
    let fail = |clause: &str, what: &str| -> Result<(SyncRequester, u128, u64, bool), (String, String)> {
        Err((format!("{clause} (preparing requester state {st:?})"), what.to_string()))
    };
    match st {
        RState::New | RState::Start => {
            let rng = CtrRng::new(ctx.seed, RNG_STREAM);
            let mut rq = SyncRequester::new(g, &rng);
            if st == RState::Start {
                let cache = PeerCache::new();
                if let Err(e) = rq.poll(&mut ctx.out, ctx.b.client.provider(), &cache.session_heads(), &mut ctx.b.buffers.traversal.primary) {
                    return fail("first-poll-fails", &format!("the first poll of a new requester failed: {e}"));
                }
            }
            Ok((rq, sid, 0, st == RState::Start))
        }
        RState::WaitingSid(s) => Ok((SyncRequester::new_session_id(g, s as u128), s as u128, 0, true)),
        _ => {
            let mut rq = SyncRequester::new_session_id(g, sid);
            match st {
                RState::Waiting0 => Ok((rq, sid, 0, true)),
                RState::Waiting1 => {
                    if !matches!(rq.receive(&ctx.prep_resp0), Ok(Some(_))) {
                        return fail("in-sequence-response-refused", "a response with index 0 of the right session was not accepted by a waiting requester");
                    }
                    Ok((rq, sid, 1, true))
                }
                RState::PartialSync => {
                    if !matches!(rq.receive(&ctx.prep_end0), Ok(None)) {
                        return fail("in-sequence-end-refused", "SyncEnd(max_index 0) of the right session was not accepted by a requester that received no response");
                    }
                    Ok((rq, sid, 0, false))
                }
                RState::Closed => {
                    if !matches!(rq.receive(&ctx.prep_endsession), Ok(None)) {
                        return fail("end-session-refused", "EndSession of the right session was not accepted");
                    }
                    Ok((rq, sid, 0, false))
                }
                RState::Resync | RState::Reset => {
                    match rq.receive(&ctx.prep_resp7) {
                        Err(SyncError::MissingSyncResponse) => {}
                        Ok(Some(c)) => return fail("out-of-sequence", &format!("a response with index 7 was accepted ({} commands) while index 0 was expected", c.len())),
                        other => {
                            return fail("out-of-sequence", &format!("a response with index 7 while index 0 was expected answered {:?} instead of MissingSyncResponse", other.map(|o| o.map(|c| c.len())).map_err(|e| sync_err_class(&e))))
                        }
                    }
                    if st == RState::Reset {
                        let cache = PeerCache::new();
                        if let Ok((n, _)) = rq.poll(&mut ctx.out, ctx.b.client.provider(), &cache.session_heads(), &mut ctx.b.buffers.traversal.primary) {
                            let what = match dec_type(&ctx.out[..n]) {
                                Ok((WType::Poll { request }, _)) => format!("{request:?}"),
                                other => format!("{other:?}"),
                            };
                            return fail(
                                "resume-names-unreceived-response",
                                &format!("after an out-of-sequence response and with no response ever received, poll produced {what}; SyncResume must name the last response received, so there is nothing to resume from"),
                            );
                        }
                    }
                    Ok((rq, sid, 0, false))
                }
                _ => unreachable!(),
            }
        }
    }
}

/// `SyncRequester::receive` in one requester state.
fn eval_receive(ctx: &mut Ctx, st: RState, name: &str, input: &[u8], t: &mut Tally) {
    let target = format!("receive[{st:?}]");
    let (mut rq, sid, expected, accepting) = match make_requester(ctx, st) {
        Ok(x) => x,
        Err(_) => {
            // reported once by `check_requester_states`; nothing can be judged in this state
            *t.outcomes.entry(format!("{target}:state-not-reachable")).or_insert(0) += 1;
            return;
        }
    };
    // what the message says, read independently
    let claimed = dec_resp(input).ok().map(|(m, _)| m);
    let r = mcx::catch(|| -> (String, bool, Vec<(String, String)>, u64) {
        let mut faults = Vec::new();
        let mut accepted = 0u64;
        let res = rq.receive(input);
        let nontrivial = !matches!(res, Err(SyncError::Serialize(_)));
        let class = match &res {
            Ok(Some(cmds)) => {
                accepted = cmds.len() as u64;
                if let Some(d) = check_slices(input, cmds) {
                    faults.push(("slice-outside-input".to_string(), d));
                }
                match &claimed {
                    Some(WResp::SyncResponse { session_id, response_index, .. }) => {
                        if *session_id != sid {
                            faults.push(("foreign-session".into(), format!("accepted {} commands of session {session_id:#x} in session {sid:#x}", cmds.len())));
                        } else if *response_index != expected {
                            faults.push(("out-of-sequence".into(), format!("accepted response_index {response_index} while expecting {expected}")));
                        } else if !accepting {
                            faults.push(("wrong-state".into(), format!("accepted commands in state {st:?}")));
                        }
                    }
                    other => mcx::machinery_error(&format!("C18: receive returned commands for an input the mirror reads as {other:?}")),
                }
                format!("commands{}", cmds.len().min(3))
            }
            Ok(None) => "none".into(),
            Err(e) => format!("err:{}", sync_err_class(e)),
        };
        // clause: foreign session => SessionMismatch (whatever the message kind)
        if let Some(m) = &claimed {
            let msid = match m {
                WResp::SyncResponse { session_id, .. } | WResp::SyncEnd { session_id, .. } | WResp::Offer { session_id, .. } | WResp::EndSession { session_id } => *session_id,
            };
            if msid != sid && res.is_ok() {
                faults.push(("foreign-session".into(), format!("message of session {msid:#x} handled with Ok in session {sid:#x}")));
            }
            if msid != sid && matches!(&res, Err(e) if !matches!(e, SyncError::SessionMismatch | SyncError::Serialize(_))) {
                faults.push(("foreign-session".into(), format!("message of session {msid:#x} answered {class} instead of SessionMismatch")));
            }
            // clause: wrong index => MissingSyncResponse, no commands
            if msid == sid && accepting {
                let idx = match m {
                    WResp::SyncResponse { response_index, .. } => Some(*response_index),
                    WResp::SyncEnd { max_index, .. } => Some(*max_index),
                    _ => None,
                };
                if let Some(i) = idx {
                    if i != expected && !matches!(res, Err(SyncError::MissingSyncResponse) | Err(SyncError::Serialize(_))) {
                        faults.push(("out-of-sequence".into(), format!("index {i} while expecting {expected} answered {class} instead of MissingSyncResponse")));
                    }
                }
            }
        }
        drop(res);
        // an accepted response offered again is out of sequence
        if accepted > 0 || class == "commands0" {
            if let Ok(Some(again)) = rq.receive(input) {
                faults.push(("out-of-sequence".into(), format!("the same response was accepted twice ({} commands the second time)", again.len())));
            }
        }
        (class, nontrivial, faults, accepted)
    });
    match r {
        Ok((class, nontrivial, faults, accepted)) => {
            t.accepted_commands += accepted;
            match class.as_str() {
                "err:SessionMismatch" => t.session_mismatch_seen += 1,
                "err:MissingSyncResponse" => t.missing_response_seen += 1,
                "err:MalformedResponse" => t.malformed_seen += 1,
                _ => {}
            }
            t.note(&target, &class, input, nontrivial);
            for (c, d) in faults {
                t.fault(format!("{c} ({target})"), input, d, name);
            }
        }
        Err(msg) => {
            t.note(&target, "PANIC", input, true);
            t.fault(format!("panic ({target}) at {}", mcx::last_panic_location()), input, format!("panicked: {msg}"), name);
        }
    }
}

fn eval_subres(name: &str, input: &[u8], t: &mut Tally) {
    let target = "subscribe-response";
    match mcx::catch(|| SubscribeResponse::decode(input).map(|r| format!("{r:?}"))) {
        Ok(Ok(c)) => t.note(target, &c, input, true),
        Ok(Err(e)) => t.note(target, &format!("err:{}", sync_err_class(&e)), input, false),
        Err(msg) => {
            t.note(target, "PANIC", input, true);
            t.fault(format!("panic ({target}) at {}", mcx::last_panic_location()), input, format!("panicked: {msg}"), name);
        }
    }
}

fn eval_input(ctx: &mut Ctx, inp: &Input, t: &mut Tally) {
    match inp.family {
        Family::Type => {
            eval_decode(ctx, &inp.name, &inp.bytes, t);
            eval_receive(ctx, RState::Waiting0, &inp.name, &inp.bytes, t);
        }
        Family::Resp => {
            for st in RSTATES {
                eval_receive(ctx, st, &inp.name, &inp.bytes, t);
            }
            eval_decode(ctx, &inp.name, &inp.bytes, t);
        }
        Family::SubRes => {
            eval_subres(&inp.name, &inp.bytes, t);
            eval_decode(ctx, &inp.name, &inp.bytes, t);
        }
        Family::Raw => {
            eval_decode(ctx, &inp.name, &inp.bytes, t);
            eval_receive(ctx, RState::WaitingSid(0), &inp.name, &inp.bytes, t);
            eval_receive(ctx, RState::WaitingSid(1), &inp.name, &inp.bytes, t);
            eval_receive(ctx, RState::New, &inp.name, &inp.bytes, t);
            eval_subres(&inp.name, &inp.bytes, t);
        }
    }
}


/// The responder's graph: init, two branches of two commands (nodes 1..=4, used by the valid
/// objects) and `COMMAND_SAMPLE_MAX + 2` further one-command branches off init (nodes 5..), so
/// that it has more concurrent heads than a PeerCache (PEER_HEAD_MAX) and a request sample
/// (COMMAND_SAMPLE_MAX) can hold.
fn c18_world() -> World {
    use rtlib::dag::{Kind, Node, Op};
    let mut dag = fan(2, 2);
    for _ in 0..crate::sample_max() + 2 {
        dag.nodes.push(Node { kind: Kind::Basic(0), parents: vec![0], rank: 0x40, prog: vec![Op::Append] });
    }
    World::new(dag, "fan2x2+leaves".into())
}

/// Addresses of `n` of the extra concurrent heads, starting at leaf `from`.
fn leaf_addrs(w: &World, from: usize, n: usize) -> Vec<Address> {
    (5 + from..w.n()).take(n).map(|i| addr(w.ids[i], w.max_cuts[i])).collect()
}

/// Capacity crossings: address lists naming up to capacity + 1 concurrent commands the graph
/// really holds, delivered in one message or accumulated into the same PeerCache across
/// messages, through receive -> poll, subscribe -> update_heads, the requester's own sample
/// building, and over-long response / index lists.
fn eval_wide(ctx: &mut Ctx, t: &mut Tally) {
    use rtlib::rt::{PEER_HEAD_MAX, COMMAND_RESPONSE_MAX};
    let w = ctx.w.clone();
    let g = w.graph;
    let smax = crate::sample_max();
    let mut counts: Vec<usize> = vec![PEER_HEAD_MAX - 1, PEER_HEAD_MAX, PEER_HEAD_MAX + 1, PEER_HEAD_MAX + 2, smax - 1, smax, smax + 1];
    counts.sort();
    counts.dedup();
    let request = |sid: u128, addrs: Vec<Address>| enc(&WType::Poll { request: WReq::SyncRequest { session_id: sid, graph_id: g, max_bytes: 0, commands: addrs } });
    let subscribe = |addrs: Vec<Address>| enc(&WType::Subscribe { remain_open: 5, max_bytes: 100, commands: addrs, graph_id: g });
    // (a) one message, fresh cache (eval_decode builds a fresh PeerCache per message)
    for &n in &counts {
        for from in [0usize, 1] {
            eval_decode(ctx, &format!("wide:request{n}"), &request(7, leaf_addrs(&w, from, n)), t);
            eval_decode(ctx, &format!("wide:subscribe{n}"), &subscribe(leaf_addrs(&w, from, n)), t);
        }
    }
    // (b) accumulated into ONE PeerCache across messages: first m heads, then n further ones
    for m in [PEER_HEAD_MAX - 1, PEER_HEAD_MAX] {
        for n in [1usize, 2, PEER_HEAD_MAX] {
            for kind in ["poll,poll", "subscribe,subscribe", "poll,subscribe", "subscribe,poll"] {
                let name = format!("wide:accumulate {kind} {m}+{n}");
                let msgs = [leaf_addrs(&w, 0, m), leaf_addrs(&w, m, n)];
                let kinds: Vec<&str> = kind.split(',').collect();
                let r = mcx::catch(|| {
                    let mut cache = PeerCache::new();
                    let mut classes = Vec::new();
                    for (k, addrs) in msgs.iter().enumerate() {
                        let bytes = if kinds[k] == "poll" { request(9 + k as u128, addrs.clone()) } else { subscribe(addrs.clone()) };
                        match SyncIncoming::decode(&bytes) {
                            Ok(SyncIncoming::Poll(p)) => {
                                let mut r = SyncResponder::new();
                                let _ = r.receive(p);
                                let mut polls = 0;
                                while r.ready() && polls < 8 {
                                    polls += 1;
                                    match r.poll(&mut ctx.out, ctx.b.client.provider(), &mut cache, &mut ctx.b.buffers.traversal) {
                                        Ok(_) => classes.push("msg".to_string()),
                                        Err(e) => classes.push(format!("err:{}", sync_err_class(&e))),
                                    }
                                }
                            }
                            Ok(SyncIncoming::Subscribe(s)) => {
                                let res = ctx.b.client.update_heads(s.graph_id(), s.heads().iter(), &mut cache, &mut ctx.b.buffers.traversal.primary);
                                classes.push(if res.is_ok() { "heads-ok".into() } else { "heads-err".into() });
                            }
                            Ok(_) => classes.push("other".into()),
                            Err(e) => classes.push(format!("decode-err:{}", sync_err_class(&e))),
                        }
                    }
                    (cache.heads().len(), classes.join("/"))
                });
                let key = request(9, msgs[0].clone());
                match r {
                    Ok((len, class)) => {
                        t.note("accumulate", &format!("{kind}:{}entries", len.min(PEER_HEAD_MAX + 1)), &[key, name.clone().into_bytes()].concat(), true);
                        let _ = class;
                        if len > PEER_HEAD_MAX {
                            t.fault("peer-cache-overfull (accumulate)".into(), name.as_bytes(), format!("{len} cache entries after {name}"), &name);
                        }
                        if len == PEER_HEAD_MAX {
                            t.full_cache_offers += 1;
                        }
                    }
                    Err(msg) => {
                        t.note("accumulate", "PANIC", name.as_bytes(), true);
                        t.fault(format!("panic (accumulate) at {}", mcx::last_panic_location()), name.as_bytes(), format!("panicked: {msg} while handling {name}"), &name);
                    }
                }
            }
        }
    }
    // (c) the requester's own sample building on a graph with more heads than the sample holds,
    // with a full PeerCache
    let r = mcx::catch(|| {
        let mut cache = PeerCache::new();
        for a in leaf_addrs(&w, 0, PEER_HEAD_MAX) {
            let storage = rtlib::rt::StorageProvider::get_storage(ctx.b.client.provider(), g).map_err(|e| format!("{e}"))?;
            cache.add_command(&*storage, a, &mut ctx.b.buffers.traversal.primary).map_err(|e| format!("{e}"))?;
        }
        let rng = CtrRng::new(ctx.seed, RNG_STREAM);
        let mut rq = SyncRequester::new(g, &rng);
        let (_, sent) = rq.poll(&mut ctx.out, ctx.b.client.provider(), &cache.session_heads(), &mut ctx.b.buffers.traversal.primary).map_err(|e| format!("poll: {e}"))?;
        let n = rq.subscribe(&mut ctx.out, ctx.b.client.provider(), &cache.session_heads(), 1, 1, &mut ctx.b.buffers.traversal.primary).map_err(|e| format!("subscribe: {e}"))?;
        Ok::<_, String>((sent, n))
    });
    match r {
        Ok(Ok((sent, _))) => t.note("requester-sample", &format!("sample{}", if sent >= smax { "=max" } else { "<max" }), b"wide", true),
        Ok(Err(e)) => t.note("requester-sample", &format!("err:{e}"), b"wide", true),
        Err(msg) => t.fault(format!("panic (requester sample) at {}", mcx::last_panic_location()), b"wide", format!("building the request sample on a graph with {} heads panicked: {msg}", w.n() - 3), "wide"),
    }
    // (d) over-long lists for the other bounded vectors: response metas, missing indexes
    let metas: Vec<WMeta> = (0..COMMAND_RESPONSE_MAX + 1).map(|k| meta_of(&w, 5 + k % (w.n() - 5)).0).collect();
    for n in [COMMAND_RESPONSE_MAX - 1, COMMAND_RESPONSE_MAX, COMMAND_RESPONSE_MAX + 1] {
        let mut payload = Vec::new();
        for k in 0..n {
            payload.extend(meta_of(&w, 5 + k % (w.n() - 5)).1);
        }
        let resp = WResp::SyncResponse { session_id: ctx.sid1, response_index: 0, commands: metas[..n].to_vec() };
        let mut bytes = enc(&resp);
        bytes.extend(&payload);
        eval_receive(ctx, RState::Waiting0, &format!("wide:response{n}"), &bytes, t);
        let mut push = enc(&WType::Push { message: resp, graph_id: g });
        push.extend(&payload);
        eval_decode(ctx, &format!("wide:push{n}"), &push, t);
    }
    let rm = if COMMAND_RESPONSE_MAX == 5 { 1 } else { 100 };
    for n in [rm - 1, rm, rm + 1] {
        eval_decode(ctx, &format!("wide:request-missing{n}"), &enc(&WType::Poll { request: WReq::RequestMissing { session_id: 3, indexes: (0..n as u64).collect() } }), t);
    }
}

/// One step of a requester history.
#[derive(Clone)]
enum Ev {
    /// deliver a message: (name, bytes, Some(index) for a response / None for an end, max_index for an end, commands it carries)
    Msg { name: String, bytes: Vec<u8>, resp_index: Option<u64>, end_max: u64, ncmds: usize },
    /// call `poll` (what a transport does when `ready()`), reading a resume request through the mirror
    Poll,
}

impl Ev {
    fn name(&self) -> &str {
        match self {
            Ev::Msg { name, .. } => name,
            Ev::Poll => "POLL",
        }
    }
}

#[derive(Default)]
struct HistTally {
    histories: u64,
    steps: u64,
    outcomes: BTreeMap<String, u64>,
    /// clause -> (count, minimal history, description)
    faults: BTreeMap<String, (u64, String, String)>,
    accepted_in_sequence: u64,
    rejected_out_of_sequence: u64,
    resumes: u64,
    accepted_after_resume: u64,
}

impl HistTally {
    fn fault(&mut self, clause: &str, hist: String, desc: String) {
        match self.faults.get_mut(clause) {
            None => {
                self.faults.insert(clause.to_string(), (1, hist, desc));
            }
            Some((n, best, d)) => {
                *n += 1;
                if (hist.len(), &hist) < (best.len(), best) {
                    *best = hist;
                    *d = desc;
                }
            }
        }
    }
    fn merge(mut self, o: HistTally) -> HistTally {
        self.histories += o.histories;
        self.steps += o.steps;
        for (k, v) in o.outcomes {
            *self.outcomes.entry(k).or_insert(0) += v;
        }
        for (k, (n, h, d)) in o.faults {
            match self.faults.get_mut(&k) {
                None => {
                    self.faults.insert(k, (n, h, d));
                }
                Some((m, best, bd)) => {
                    *m += n;
                    if (h.len(), &h) < (best.len(), best) {
                        *best = h;
                        *bd = d;
                    }
                }
            }
        }
        self.accepted_in_sequence += o.accepted_in_sequence;
        self.rejected_out_of_sequence += o.rejected_out_of_sequence;
        self.resumes += o.resumes;
        self.accepted_after_resume += o.accepted_after_resume;
        self
    }
}

/// Run one history on a fresh requester. Oracle (statement): commands are returned only for a
/// response whose index is exactly the number of responses accepted so far; any other index
/// gives an error and no commands (so after a gap nothing later is accepted until the missing
/// response itself arrives); an end message is accepted only when its max_index equals the
/// number of responses accepted; a resume request names the last response actually received
/// (the wire type's own definition of `SyncResume.response_index`) and cannot exist before any
/// response was received.
fn run_history(rq: &mut SyncRequester, a: &mut MemReplica, out: &mut [u8], family: &str, events: &[Ev], seq: &[usize], t: &mut HistTally) {
    t.histories += 1;
    let mut accepted: u64 = 0;
    let mut resumed = false;
    let hist = |upto: usize| format!("{family}: {}", seq[..=upto].iter().map(|&i| events[i].name()).collect::<Vec<_>>().join(","));
    for (k, &ei) in seq.iter().enumerate() {
        t.steps += 1;
        match &events[ei] {
            Ev::Poll => {
                let cache = PeerCache::new();
                let res = mcx::catch(|| rq.poll(out, a.client.provider(), &cache.session_heads(), &mut a.buffers.traversal.primary));
                match res {
                    Err(msg) => {
                        t.fault("panic (history poll)", hist(k), format!("poll panicked: {msg} at {}", mcx::last_panic_location()));
                        return;
                    }
                    Ok(Err(e)) => *t.outcomes.entry(format!("history:poll:err:{}", sync_err_class(&e))).or_insert(0) += 1,
                    Ok(Ok((n, _))) => match dec_type(&out[..n]) {
                        Ok((WType::Poll { request: WReq::SyncResume { response_index, .. } }, _)) => {
                            t.resumes += 1;
                            resumed = true;
                            *t.outcomes.entry("history:poll:resume".into()).or_insert(0) += 1;
                            if accepted == 0 || response_index != accepted - 1 {
                                t.fault(
                                    "resume-names-unreceived-response (history)",
                                    hist(k),
                                    format!("poll produced SyncResume(response_index {response_index}) after {accepted} responses had been received"),
                                );
                                // keep going: what the requester accepts afterwards is judged on its own
                            }
                        }
                        Ok((WType::Poll { request }, _)) => {
                            *t.outcomes.entry(format!("history:poll:{}", match request { WReq::SyncRequest { .. } => "request", WReq::EndSession { .. } => "end-session", _ => "other" })).or_insert(0) += 1
                        }
                        other => mcx::machinery_error(&format!("C18 history: mirror cannot read a real poll: {other:?}")),
                    },
                }
            }
            Ev::Msg { bytes, resp_index, end_max, ncmds, .. } => {
                let res = mcx::catch(|| rq.receive(bytes).map(|o| o.map(|c| c.len())));
                let res = match res {
                    Err(msg) => {
                        t.fault("panic (history receive)", hist(k), format!("receive panicked: {msg} at {}", mcx::last_panic_location()));
                        return;
                    }
                    Ok(r) => r,
                };
                let class = match &res {
                    Ok(Some(_)) => "commands".to_string(),
                    Ok(None) => "none".to_string(),
                    Err(e) => format!("err:{}", sync_err_class(e)),
                };
                *t.outcomes.entry(format!("history:{}:{class}", if resp_index.is_some() { "response" } else { "end" })).or_insert(0) += 1;
                match (resp_index, &res) {
                    (Some(i), Ok(Some(n))) => {
                        if *i != accepted {
                            t.fault(
                                "out-of-sequence (history)",
                                hist(k),
                                format!("response {i} was accepted ({n} commands) although {accepted} responses had been accepted before it: its predecessor was never delivered"),
                            );
                            return;
                        }
                        if n != ncmds {
                            t.fault("wrong-commands (history)", hist(k), format!("response {i} carries {ncmds} commands, receive returned {n}"));
                            return;
                        }
                        accepted += 1;
                        t.accepted_in_sequence += 1;
                        if resumed {
                            t.accepted_after_resume += 1;
                        }
                    }
                    (Some(i), Ok(None)) => {
                        t.fault("out-of-sequence (history)", hist(k), format!("response {i} answered Ok(None)"));
                        return;
                    }
                    (Some(i), Err(_)) => {
                        if *i != accepted {
                            t.rejected_out_of_sequence += 1;
                        }
                    }
                    (None, Ok(None)) => {
                        if *end_max != accepted {
                            t.fault("out-of-sequence (history)", hist(k), format!("SyncEnd(max_index {end_max}) was accepted after {accepted} responses"));
                            return;
                        }
                    }
                    (None, Ok(Some(n))) => {
                        t.fault("out-of-sequence (history)", hist(k), format!("an end message returned {n} commands"));
                        return;
                    }
                    (None, Err(_)) => {}
                }
            }
        }
    }
}

/// All sequences over `events` of length 1..=max_len, in parallel.
fn all_histories(w: &Arc<World>, seed: u64, family: &str, events: &[Ev], max_len: usize, real_session: bool) -> HistTally {
    let k = events.len();
    let mut seqs: Vec<Vec<usize>> = Vec::new();
    for len in 1..=max_len {
        mcx::enumerate::sequences(k, len, |s| seqs.push(s.to_vec()));
    }
    let sid1 = drawn_session_id(seed, w);
    seqs.par_chunks(256)
        .map_init(
            || (MemReplica::new_mem(w.graph), vec![0u8; MAX_SYNC_MESSAGE_SIZE]),
            |(a, out), chunk| {
                let mut t = HistTally::default();
                for seq in chunk {
                    let mut rq = if real_session {
                        // the requester of the recorded session: new + first poll (same session id)
                        let rng = CtrRng::new(seed, RNG_STREAM);
                        let mut rq = SyncRequester::new(w.graph, &rng);
                        let cache = PeerCache::new();
                        if rq.poll(out, a.client.provider(), &cache.session_heads(), &mut a.buffers.traversal.primary).is_err() {
                            mcx::machinery_error("C18 history: first poll failed");
                        }
                        rq
                    } else {
                        SyncRequester::new_session_id(w.graph, sid1)
                    };
                    run_history(&mut rq, a, out, family, events, seq, &mut t);
                }
                t
            },
        )
        .reduce(HistTally::default, HistTally::merge)
}

/// A real session with exactly three responses and an end message (2*COMMAND_RESPONSE_MAX + 3
/// commands in one chain, requester without the graph), recorded from the real responder.
fn real_three_response_session(seed: u64) -> (Arc<World>, Vec<Ev>) {
    use rtlib::rt::COMMAND_RESPONSE_MAX;
    let w = Arc::new(World::new(fan(1, 2 * COMMAND_RESPONSE_MAX + 2), "chain".into()));
    let mut b = build(&w, &w.full(), Layout::Coarse).unwrap_or_else(|e| mcx::machinery_error(&format!("C18 history build: {e}")));
    let mut a = MemReplica::new_mem(w.graph);
    let mut buf = vec![0u8; MAX_SYNC_MESSAGE_SIZE];
    let rng = CtrRng::new(seed, RNG_STREAM);
    let cache = PeerCache::new();
    let mut rq = SyncRequester::new(w.graph, &rng);
    let (len, _) = rq.poll(&mut buf, a.client.provider(), &cache.session_heads(), &mut a.buffers.traversal.primary).unwrap_or_else(|e| mcx::machinery_error(&format!("C18 history poll: {e}")));
    let mut responder = SyncResponder::new();
    match SyncIncoming::decode(&buf[..len]) {
        Ok(SyncIncoming::Poll(p)) => responder.receive(p).unwrap_or_else(|e| mcx::machinery_error(&format!("C18 history receive: {e}"))),
        _ => mcx::machinery_error("C18 history: request does not decode"),
    }
    let mut rcache = PeerCache::new();
    let mut events = Vec::new();
    while responder.ready() {
        let n = responder.poll(&mut buf, b.client.provider(), &mut rcache, &mut b.buffers.traversal).unwrap_or_else(|e| mcx::machinery_error(&format!("C18 history responder poll: {e}")));
        match dec_resp(&buf[..n]) {
            Ok((WResp::SyncResponse { response_index, commands, .. }, _)) => {
                events.push(Ev::Msg { name: format!("R{response_index}"), bytes: buf[..n].to_vec(), resp_index: Some(response_index), end_max: 0, ncmds: commands.len() })
            }
            Ok((WResp::SyncEnd { max_index, .. }, _)) => events.push(Ev::Msg { name: "END".into(), bytes: buf[..n].to_vec(), resp_index: None, end_max: max_index, ncmds: 0 }),
            other => mcx::machinery_error(&format!("C18 history: unexpected message {other:?}")),
        }
    }
    if events.len() != 4 {
        mcx::machinery_error(&format!("C18 history: expected 3 responses and an end, got {} messages", events.len()));
    }
    events.push(Ev::Poll);
    (w, events)
}

/// Hand-encoded responses with indexes 0..=3 (one real command each), ends, and polls.
fn encoded_index_events(w: &World, sid: u128) -> Vec<Ev> {
    let mut events = Vec::new();
    for i in 0..4u64 {
        let (m, payload) = meta_of(w, 1 + (i as usize % 4));
        let mut bytes = enc(&WResp::SyncResponse { session_id: sid, response_index: i, commands: vec![m] });
        bytes.extend(payload);
        events.push(Ev::Msg { name: format!("I{i}"), bytes, resp_index: Some(i), end_max: 0, ncmds: 1 });
    }
    events.push(Ev::Poll);
    events
}

/// Sequence clause on valid messages: all sequences of ≤ 3 messages over responses with index
/// 0..=2 and ends with max_index 0..=2; accepted exactly when in sequence.
fn sequence_model(ctx: &mut Ctx, t: &mut Tally) {
    let sid = ctx.sid1;
    let mut alphabet: Vec<(String, Vec<u8>, bool, u64)> = Vec::new();
    for i in 0..3u64 {
        alphabet.push((format!("resp{i}"), enc(&WResp::SyncResponse { session_id: sid, response_index: i, commands: vec![] }), false, i));
        alphabet.push((format!("end{i}"), enc(&WResp::SyncEnd { session_id: sid, max_index: i, remaining: false }), true, i));
    }
    let k = alphabet.len();
    for len in 1..=3usize {
        mcx::enumerate::sequences(k, len, |seq| {
            let mut rq = SyncRequester::new_session_id(ctx.w.graph, sid);
            // model: (next index, state) with state 0 = waiting, 1 = resync (after a gap), 2 = ended
            let (mut next, mut state) = (0u64, 0u8);
            let names: Vec<&str> = seq.iter().map(|&i| alphabet[i].0.as_str()).collect();
            for &i in seq {
                let (_, bytes, is_end, idx) = &alphabet[i];
                let res = rq.receive(bytes);
                t.evaluations += 1;
                let expect = if state != 0 {
                    "err"
                } else if *idx != next {
                    state = 1;
                    "missing"
                } else if *is_end {
                    state = 2;
                    "none"
                } else {
                    next += 1;
                    "some"
                };
                let got = match &res {
                    Ok(Some(_)) => "some",
                    Ok(None) => "none",
                    Err(SyncError::MissingSyncResponse) => "missing",
                    Err(_) => "err",
                };
                *t.outcomes.entry(format!("sequence:{got}")).or_insert(0) += 1;
                let ok = got == expect || (expect == "err" && got == "missing");
                if !ok {
                    t.fault("sequence-model (receive)".into(), names.join(",").as_bytes(), format!("message sequence [{}]: receive answered {got}, in-sequence rule says {expect}", names.join(",")), "sequence");
                    break;
                }
            }
        });
    }
}

/// The mirror must read every kind of message the real code writes, byte for byte.
fn self_check(ctx: &mut Ctx, valids: &[Valid]) -> u64 {
    let mut checked = 0;
    let w = ctx.w.clone();
    let mut buf = vec![0u8; MAX_SYNC_MESSAGE_SIZE];
    let round = |bytes: &[u8], what: &str| match dec_type(bytes) {
        Ok((m, off)) if enc(&m)[..] == bytes[..off] => {}
        Ok((m, _)) => mcx::machinery_error(&format!("mirror round-trip differs for {what}: {m:?}")),
        Err(e) => mcx::machinery_error(&format!("mirror cannot read a real {what}: {e}")),
    };
    // requester: request, subscribe, unsubscribe
    let rng = CtrRng::new(ctx.seed, RNG_STREAM);
    let cache = PeerCache::new();
    let mut rq = SyncRequester::new(w.graph, &rng);
    let (len, _) = rq.poll(&mut buf, ctx.b.client.provider(), &cache.session_heads(), &mut ctx.b.buffers.traversal.primary).unwrap_or_else(|e| mcx::machinery_error(&format!("self-check poll: {e}")));
    round(&buf[..len], "request");
    let request = buf[..len].to_vec();
    let len = rq.subscribe(&mut buf, ctx.b.client.provider(), &cache.session_heads(), 5, 6, &mut ctx.b.buffers.traversal.primary).unwrap_or_else(|e| mcx::machinery_error(&format!("self-check subscribe: {e}")));
    round(&buf[..len], "subscribe");
    let len = rq.unsubscribe(&mut buf).unwrap_or_else(|e| mcx::machinery_error(&format!("self-check unsubscribe: {e}")));
    round(&buf[..len], "unsubscribe");
    checked += 3;
    // responder: responses, end, end-session; every response must be read identically by mirror and requester
    let mut a = MemReplica::new_mem(w.graph);
    let mut rq2 = SyncRequester::new(w.graph, &CtrRng::new(ctx.seed, RNG_STREAM));
    let (len, _) = rq2.poll(&mut buf, a.client.provider(), &cache.session_heads(), &mut a.buffers.traversal.primary).unwrap_or_else(|e| mcx::machinery_error(&format!("self-check poll: {e}")));
    let mut responder = SyncResponder::new();
    let mut rcache = PeerCache::new();
    if let Ok(SyncIncoming::Poll(p)) = SyncIncoming::decode(&buf[..len]) {
        responder.receive(p).unwrap_or_else(|e| mcx::machinery_error(&format!("self-check receive: {e}")));
    }
    while responder.ready() {
        let n = responder.poll(&mut ctx.out, ctx.b.client.provider(), &mut rcache, &mut ctx.b.buffers.traversal).unwrap_or_else(|e| mcx::machinery_error(&format!("self-check responder poll: {e}")));
        let (m, off) = dec_resp(&ctx.out[..n]).unwrap_or_else(|e| mcx::machinery_error(&format!("mirror cannot read a real response: {e}")));
        if enc(&m)[..] != ctx.out[..off] {
            mcx::machinery_error("mirror round-trip differs for a real response");
        }
        let got = rq2.receive(&ctx.out[..n]).unwrap_or_else(|e| mcx::machinery_error(&format!("self-check requester receive: {e}")));
        match (&m, &got) {
            (WResp::SyncResponse { commands, .. }, Some(c)) if commands.len() == c.len() => {}
            (WResp::SyncEnd { .. }, None) => {}
            _ => mcx::machinery_error("mirror and requester disagree on a real response"),
        }
        checked += 1;
    }
    // unsupported request => Reset => EndSession message
    let mut r3 = SyncResponder::new();
    if let Ok(SyncIncoming::Poll(p)) = SyncIncoming::decode(&enc(&WType::Poll { request: WReq::SyncResume { session_id: 9, response_index: 0, max_bytes: 0 } })) {
        let _ = r3.receive(p);
        let n = r3.poll(&mut ctx.out, ctx.b.client.provider(), &mut rcache, &mut ctx.b.buffers.traversal).unwrap_or_else(|e| mcx::machinery_error(&format!("self-check end-session poll: {e}")));
        match dec_resp(&ctx.out[..n]) {
            Ok((WResp::EndSession { session_id: 9 }, _)) => checked += 1,
            o => mcx::machinery_error(&format!("mirror misreads a real EndSession: {o:?}")),
        }
    }
    // push
    let mut r4 = SyncResponder::new();
    r4.start_session(77, w.graph, 0, [addr(w.ids[0], 0)]).unwrap_or_else(|e| mcx::machinery_error(&format!("self-check start_session: {e}")));
    let n = r4.push(&mut ctx.out, ctx.b.client.provider(), &mut ctx.b.buffers.traversal).unwrap_or_else(|e| mcx::machinery_error(&format!("self-check push: {e}")));
    round(&ctx.out[..n], "push");
    checked += 1;
    let _ = request;
    // every mirror-built valid object must be understood by the real code as what it is
    for v in valids {
        for s in [&v.a, &v.b] {
            match v.family {
                Family::Type => {
                    let ok = match (v.kind, SyncIncoming::decode(&s.bytes)) {
                        (k, Ok(SyncIncoming::Poll(_))) => k.starts_with("poll"),
                        ("push", Ok(SyncIncoming::Push(_))) => true,
                        (k, Ok(SyncIncoming::Subscribe(_))) => k.starts_with("subscribe"),
                        ("unsubscribe", Ok(SyncIncoming::Unsubscribe(_))) => true,
                        (k, Ok(SyncIncoming::Hello(_))) => k.starts_with("hello"),
                        _ => false,
                    };
                    if !ok {
                        mcx::machinery_error(&format!("the real decoder does not read the mirror-built {} as such", v.kind));
                    }
                }
                Family::Resp => {
                    if dec_resp(&s.bytes).is_err() {
                        mcx::machinery_error(&format!("mirror cannot re-read its own {}", v.kind));
                    }
                }
                _ => {}
            }
            checked += 1;
        }
    }
    // the valid response must be accepted with exactly its commands
    let resp = valids.iter().find(|v| v.kind == "response").expect("response object");
    let mut rq5 = SyncRequester::new_session_id(w.graph, ctx.sid1);
    match rq5.receive(&resp.a.bytes) {
        Ok(Some(cmds)) if cmds.len() == 3 && cmds[1].bytes() == &w.cmds[1].data[..] && cmds[0].policy() == w.cmds[0].policy.as_deref() => {}
        other => mcx::machinery_error(&format!("the real requester does not accept the mirror-built response: {:?}", other.map(|o| o.map(|c| c.len())))),
    }
    checked
}

pub fn run(args: &Args) {
    let flavour = args.extra.get("flavour").cloned().unwrap_or_else(|| "P".into());
    crate::check_flavour(&flavour);
    let w = Arc::new(c18_world());
    let sid1 = drawn_session_id(args.seed, &w);
    let valids = valid_objects(&w, sid1);
    if let Some(f) = &args.replay {
        replay(args, f, w, sid1);
    }
    let mut rep = Report::new(args, Level::Exploration);
    let mut ctx0 = Ctx::new(w.clone(), args.seed, sid1);
    let checked = self_check(&mut ctx0, &valids);
    rep.set("mirror_self_checks", checked);

    // 1. corruption alphabet
    let mut inputs: Vec<Input> = Vec::new();
    for v in &valids {
        corruptions(v.kind, v.family, &v.a, &v.b, &mut inputs);
        corruptions(v.kind, v.family, &v.b, &v.a, &mut inputs);
    }
    rep.set("corruption_inputs", inputs.len() as u64);
    rep.set("message_kinds", json!(valids.iter().map(|v| v.kind).collect::<Vec<_>>()));
    // 2. all short byte strings
    let mut raw: Vec<Input> = vec![Input { family: Family::Raw, name: "bytes".into(), bytes: vec![] }];
    for a in 0..=255u8 {
        raw.push(Input { family: Family::Raw, name: "bytes".into(), bytes: vec![a] });
        for b in 0..=255u8 {
            raw.push(Input { family: Family::Raw, name: "bytes".into(), bytes: vec![a, b] });
        }
    }
    for len in 3..=4usize {
        mcx::enumerate::sequences(16, len, |s| raw.push(Input { family: Family::Raw, name: "bytes".into(), bytes: s.iter().map(|&i| ALPHA16[i]).collect() }));
    }
    rep.set("short_byte_strings", raw.len() as u64);
    inputs.extend(raw);
    // 3. valid encodings with the first two bytes replaced (dispatch tags / first field)
    let second: Vec<u8> = match args.tier {
        Tier::Quick => ALPHA16.to_vec(),
        Tier::Thorough => (0..=255u8).collect(),
    };
    let mut prefixed = 0u64;
    for v in &valids {
        for s in [&v.a, &v.b] {
            if s.bytes.len() < 2 || v.family == Family::SubRes {
                continue;
            }
            for a in 0..=255u8 {
                for &b in &second {
                    let mut bytes = s.bytes.clone();
                    bytes[0] = a;
                    bytes[1] = b;
                    inputs.push(Input { family: v.family, name: format!("{}:prefix", v.kind), bytes });
                    prefixed += 1;
                }
            }
        }
    }
    rep.set("prefix_replaced_inputs", prefixed);
    rep.set("inputs", inputs.len() as u64);

    let seed = args.seed;
    let tally = inputs
        .par_chunks(2048)
        .map_init(
            || Ctx::new(w.clone(), seed, sid1),
            |ctx, chunk| {
                let mut t = Tally::default();
                for inp in chunk {
                    eval_input(ctx, inp, &mut t);
                }
                t
            },
        )
        .reduce(Tally::default, Tally::merge);
    let mut tally = tally;
    sequence_model(&mut ctx0, &mut tally);
    eval_wide(&mut ctx0, &mut tally);
    rep.count("offers_to_a_full_peer_cache", tally.full_cache_offers);
    // every requester state must be reachable the way the protocol rules say; a requester that
    // does not follow them is reported (once), not treated as a harness fault
    for st in RSTATES {
        if let Err((clause, desc)) = make_requester(&mut ctx0, st) {
            tally.fault(clause, &[], desc, "requester state preparation");
        }
    }
    // multi-step requester histories
    let (hw, real_events) = real_three_response_session(args.seed);
    let mut hist = all_histories(&hw, args.seed, "real 3-response session", &real_events, args.tier.pick(6, 7), true);
    let enc_events = encoded_index_events(&w, sid1);
    hist = hist.merge(all_histories(&w, args.seed, "encoded indexes", &enc_events, args.tier.pick(5, 6), false));
    rep.count("requester_histories", hist.histories);
    rep.count("requester_history_steps", hist.steps);
    rep.count("history_responses_accepted_in_sequence", hist.accepted_in_sequence);
    rep.count("history_responses_rejected_out_of_sequence", hist.rejected_out_of_sequence);
    rep.count("history_resume_requests", hist.resumes);
    rep.count("history_responses_accepted_after_resume", hist.accepted_after_resume);
    tally.evaluations += hist.steps;
    for (k, v) in &hist.outcomes {
        *tally.outcomes.entry(k.clone()).or_insert(0) += v;
    }
    for (clause, (n, h, desc)) in &hist.faults {
        rep.violation(format!("{clause} [min history {h}]"), format!("{desc}; history [{h}]; {n} failing histories, minimal one shown"), json!({"history": h, "clause": clause}));
    }

    rep.count("evaluations", tally.evaluations);
    rep.set("distinct_nontrivial", tally.nontrivial.len() as u64);
    rep.set("rule", "nontrivial = the input got past the first decode branch: SyncIncoming::decode returned a message (which was then processed), SyncRequester::receive returned anything but a postcard error, SubscribeResponse::decode returned a value; counted as distinct (entry point, input) pairs");
    rep.set("exhaustive", true);
    rep.set("flavour", flavour);
    rep.count("commands_accepted", tally.accepted_commands);
    rep.count("session_mismatch_answers", tally.session_mismatch_seen);
    rep.count("missing_response_answers", tally.missing_response_seen);
    rep.count("malformed_response_answers", tally.malformed_seen);
    rep.count("responder_replies", tally.responder_replies);
    for (k, v) in &tally.outcomes {
        rep.outcome(k, *v);
    }
    rep.sample(json!({"valid poll-request": mcx::hex(&valids[0].a.bytes), "fields": valids[0].a.fields.iter().map(|f| f.name.clone()).collect::<Vec<_>>()}));
    rep.sample(json!({"valid response (3 commands + payload)": mcx::hex(&valids.iter().find(|v| v.kind == "response").expect("response").a.bytes)}));
    for (clause, (n, input, desc, name)) in &tally.faults {
        rep.violation(
            format!("{clause} [min input {}]", mcx::hex(input)),
            format!("{desc}; input {} ({} bytes, from {name}); {n} failing inputs, minimal one shown", mcx::hex(input), input.len()),
            json!({"input_hex": mcx::hex(input), "clause": clause, "from": name}),
        );
    }
    rep.assume("the responder answers from a 5-command memory-backed graph; requester states are those reachable through the public API (Idle is never entered by the shipped code)");
    rep.assume("the wire mirror (serde types with the same shape) is validated against every message the real requester/responder write and every mirror-built message is read back by the real decoder");
    // vacuity guards apply to clean runs only: a run that found violations is not vacuous
    if rep.violations().is_empty() {
        rep.require_nonzero("commands_accepted");
        rep.require_nonzero("session_mismatch_answers");
        rep.require_nonzero("missing_response_answers");
        rep.require_nonzero("malformed_response_answers");
        rep.require_nonzero("responder_replies");
        rep.require_nonzero("offers_to_a_full_peer_cache");
        rep.require_nonzero("history_responses_rejected_out_of_sequence");
        rep.require_nonzero("history_resume_requests");
        rep.require_nonzero("history_responses_accepted_after_resume");
    }
    rep.finish()
}

fn unhex(s: &str) -> Option<Vec<u8>> {
    if s.len() % 2 != 0 {
        return None;
    }
    (0..s.len()).step_by(2).map(|i| u8::from_str_radix(&s[i..i + 2], 16).ok()).collect()
}

fn replay(args: &Args, f: &std::path::Path, w: Arc<World>, sid1: u128) -> ! {
    let v: Value = serde_json::from_str(&std::fs::read_to_string(f).unwrap_or_else(|e| mcx::machinery_error(&format!("replay file: {e}"))))
        .unwrap_or_else(|e| mcx::machinery_error(&format!("replay file does not parse: {e}")));
    let r = v.get("replay").unwrap_or(&v);
    let input = r.get("input_hex").and_then(|x| x.as_str()).and_then(unhex).unwrap_or_else(|| mcx::machinery_error("replay: no input_hex"));
    let mut ctx = Ctx::new(w, args.seed, sid1);
    let mut t = Tally::default();
    let inp = Input { family: Family::Raw, name: "replay".into(), bytes: input.clone() };
    eval_input(&mut ctx, &inp, &mut t);
    for st in RSTATES {
        eval_receive(&mut ctx, st, "replay", &input, &mut t);
    }
    for (k, n) in &t.outcomes {
        println!("{k}: {n}");
    }
    for (clause, (_, _, desc, _)) in &t.faults {
        println!("VIOLATION property=C18 clause={clause}: {desc}");
    }
    std::process::exit(if t.faults.is_empty() { 0 } else { 1 })
}

#[allow(dead_code)]
fn _unused(_: Address, _: Prior<Address>, _: Priority) {}
