//! C19 — hello notifications never suppress a needed sync.
//!
//! States of a replica over a universe: every down-closed subset delivered as a multi-head state
//! (two delivery orders / segmentations, so "same head set" is reached along different histories),
//! the same subsets collapsed by an action (the collapse materialises the merge commands and adds
//! one command of the acting replica), and "graph absent". Every ordered pair (A, B) of states:
//! B advertises `hello_head`, A decides with `should_sync_on_hello`.

use std::collections::{BTreeMap, BTreeSet, HashSet};

use mcx::{json, rayon::prelude::*, Args, Level, Report, Tier, Value};
use rtlib::{
    dag::{node_name, Dag, MergeRank, Op},
    policy::{ActionScript, Publish},
    replica::{addr, MemReplica},
    rt::{Address, CmdId},
};

use crate::{
    acc::{dag_from_json, dag_to_json, Acc, Case},
    world::{build, universes, Layout, NodeSet, UniverseOpts, World},
};

#[derive(Clone, Debug, PartialEq, Eq, Hash, PartialOrd, Ord)]
pub enum Shape {
    Absent,
    /// subset delivered in node order in one call
    Coarse(NodeSet),
    /// subset delivered in reverse-preferring causal order, one commit per command
    FineRev(NodeSet),
    /// subset delivered (coarse) then collapsed by an action publishing one command
    Acted(NodeSet),
    /// `base` committed; then a sync transaction ingested and FLUSHED `ext \ base` but never
    /// committed; then something else was committed on the same storage handle.
    /// how 0: transaction dropped, then a local action; 1: local action while the transaction is
    /// open, its commit then fails (ConcurrentTransaction); 2: transaction dropped, then one
    /// further command (not in `ext`) synced and committed from a third peer
    Abandoned { base: NodeSet, ext: NodeSet, how: u8 },
}

impl Shape {
    fn show(&self) -> String {
        match self {
            Shape::Absent => "absent".into(),
            Shape::Coarse(s) => format!("{}", s.show()),
            Shape::FineRev(s) => format!("{}rev", s.show()),
            Shape::Acted(s) => format!("{}+action", s.show()),
            Shape::Abandoned { base, ext, how } => format!(
                "{}+abandoned{}{}",
                base.show(),
                ext.minus(base).show(),
                match how {
                    0 => "+action",
                    1 => "+action(commit fails)",
                    _ => "+third-peer commit",
                }
            ),
        }
    }
    fn size(&self) -> usize {
        match self {
            Shape::Absent => 0,
            Shape::Coarse(s) | Shape::FineRev(s) => s.count(),
            Shape::Acted(s) => s.count() + 1,
            Shape::Abandoned { base, ext, .. } => base.count() + ext.count() + 1,
        }
    }
}

pub struct St {
    pub shape: Shape,
    pub r: MemReplica,
    /// committed command ids (empty when absent)
    pub ids: BTreeSet<CmdId>,
    /// the merge commands among `ids`
    pub merges: BTreeSet<CmdId>,
    pub heads: Vec<(CmdId, u64)>,
    pub hello: Option<Address>,
    /// commands this replica ingested and flushed in a transaction that never committed
    pub abandoned: BTreeSet<CmdId>,
    /// only used as the receiving side of a pair
    pub receiver_only: bool,
}

/// A causal order of `set` that prefers high node indices (differs from node order whenever
/// the subset has incomparable commands).
fn rev_order(w: &World, set: &NodeSet) -> Vec<usize> {
    let mut done = NodeSet::empty(w.n());
    let mut out = Vec::new();
    let total = set.count();
    while out.len() < total {
        let next = set.iter().filter(|&i| !done.has(i) && w.dag.nodes[i].parents.iter().all(|&p| done.has(p))).max().expect("down-closed set");
        done.insert(next);
        out.push(next);
    }
    out
}

fn make_state(w: &World, shape: Shape, serial: usize) -> Result<St, String> {
    let mut r = match &shape {
        Shape::Absent => MemReplica::new_mem(w.graph),
        Shape::Coarse(s) | Shape::Acted(s) => build(w, s, Layout::Coarse)?,
        Shape::Abandoned { base, .. } => build(w, base, Layout::Coarse)?,
        Shape::FineRev(s) => {
            let mut r = MemReplica::new_mem(w.graph);
            for i in rev_order(w, s) {
                let mut trx = r.trx();
                r.add(&mut trx, std::slice::from_ref(&w.cmds[i])).map_err(|e| format!("add: {e}"))?;
                r.commit(trx).map_err(|e| format!("commit: {e}"))?;
            }
            r
        }
    };
    if let Shape::Acted(_) = &shape {
        // the acting replica's own command: an id no other state uses
        let script = ActionScript {
            publish: vec![Publish { rank: 0x90, idx: 1000 + serial, name: format!("x{serial}"), finalize: false, prio: 0, prog: vec![Op::Append] }],
            ..Default::default()
        };
        r.action(&script).map_err(|e| format!("action: {e}"))?;
    }
    let mut abandoned = BTreeSet::new();
    if let Shape::Abandoned { base, ext, how } = &shape {
        let script = ActionScript {
            publish: vec![Publish { rank: 0x90, idx: 1000 + serial, name: format!("x{serial}"), finalize: false, prio: 0, prog: vec![Op::Append] }],
            ..Default::default()
        };
        let extra: Vec<rtlib::dag::Cmd> = ext.minus(base).iter().map(|i| w.cmds[i].clone()).collect();
        abandoned = extra.iter().map(|c| c.id).collect();
        let mut trx = r.trx();
        r.add(&mut trx, &extra).map_err(|e| format!("abandoned add: {e}"))?;
        r.flush(&mut trx).map_err(|e| format!("abandoned flush: {e}"))?;
        match how {
            0 => {
                drop(trx);
                r.action(&script).map_err(|e| format!("action: {e}"))?;
            }
            1 => {
                r.action(&script).map_err(|e| format!("action: {e}"))?;
                match r.commit(trx) {
                    Err(rtlib::rt::ClientError::ConcurrentTransaction) => {}
                    other => return Err(format!("commit of a transaction overtaken by an action returned {other:?}")),
                }
            }
            _ => {
                drop(trx);
                let next = (0..w.n()).find(|&i| !ext.has(i) && w.dag.nodes[i].parents.iter().all(|&p| base.has(p))).ok_or("no third-peer command")?;
                let mut t2 = r.trx();
                r.add(&mut t2, std::slice::from_ref(&w.cmds[next])).map_err(|e| format!("third-peer add: {e}"))?;
                r.commit(t2).map_err(|e| format!("third-peer commit: {e}"))?;
            }
        }
    }
    if shape == Shape::Absent {
        return Ok(St { shape, r, ids: BTreeSet::new(), merges: BTreeSet::new(), heads: vec![], hello: None, abandoned, receiver_only: false });
    }
    let obs = r.observe()?;
    let hello = obs.hello.clone().map_err(|e| format!("hello_head: {e}"))?;
    let merges = obs.cmds.iter().filter(|(_, c)| c.prio.0 == 0).map(|(id, _)| *id).collect();
    let receiver_only = matches!(shape, Shape::Abandoned { .. });
    Ok(St { shape, r, ids: obs.cmds.keys().copied().collect(), merges, heads: obs.heads.clone(), hello: Some(addr(hello.0, hello.1)), abandoned, receiver_only })
}

fn opts(tier: Tier) -> UniverseOpts {
    UniverseOpts {
        n_min: 1,
        n_max: tier.pick(5, 6),
        prios: vec![0],
        prio_upto: 0,
        full_rank_perms_upto: tier.pick(5, 6),
        merge_ranks: vec![MergeRank::Low, MergeRank::High, MergeRank::Hash],
    }
}

fn case_of(w: &World, clause_case: String, a: &St, b: &St, desc: String, extra: Value) -> Case {
    Case {
        rank: (w.n(), a.shape.size() + b.shape.size(), 0),
        case: format!("{} {clause_case}", w.label),
        desc,
        replay: json!({"dag": dag_to_json(&w.dag), "label": w.label, "a": a.shape.show(), "b": b.shape.show(), "extra": extra}),
        fixed_key: false,
    }
}

/// All checks of one universe.
pub fn run_world(w: &World, acc: &mut Acc, states_seen: &mut HashSet<u64>) {
    let subsets = w.down_closed_subsets();
    let mut shapes = vec![Shape::Absent];
    for s in &subsets {
        shapes.push(Shape::Coarse(s.clone()));
        if w.frontier(s).len() > 1 || s.count() > 2 {
            shapes.push(Shape::FineRev(s.clone()));
        }
        shapes.push(Shape::Acted(s.clone()));
    }
    // histories with an abandoned (flushed, never committed) sync transaction followed by
    // another commit: every base, extended by one more command or to the whole universe
    let full = w.full();
    for base in &subsets {
        for ext in &subsets {
            if ext == base || !base.subset_of(ext) {
                continue;
            }
            let by_one = ext.count() == base.count() + 1;
            if !(by_one || *ext == full) {
                continue;
            }
            shapes.push(Shape::Abandoned { base: base.clone(), ext: ext.clone(), how: 0 });
            if *ext == full {
                shapes.push(Shape::Abandoned { base: base.clone(), ext: ext.clone(), how: 1 });
            }
            if by_one && (0..w.n()).any(|i| !ext.has(i) && w.dag.nodes[i].parents.iter().all(|&p| base.has(p))) {
                shapes.push(Shape::Abandoned { base: base.clone(), ext: ext.clone(), how: 2 });
            }
        }
    }
    let mut sts: Vec<St> = Vec::with_capacity(shapes.len());
    for (k, sh) in shapes.into_iter().enumerate() {
        match make_state(w, sh.clone(), k) {
            Ok(s) => sts.push(s),
            Err(e) => mcx::machinery_error(&format!("C19: cannot build state {} of {}: {e}", sh.show(), w.label)),
        }
    }
    for s in &sts {
        states_seen.insert(mcx::fnv64(format!("{}|{:?}|{:?}|{:?}", w.label, s.heads, s.hello, s.ids.len()).as_bytes()));
    }
    acc.count("replica_states", sts.len() as u64);
    acc.count("multi_head_states", sts.iter().filter(|s| s.heads.len() > 1).count() as u64);
    acc.count("collapsed_states", sts.iter().filter(|s| matches!(s.shape, Shape::Acted(_))).count() as u64);

    // clause 2: equal head sets => equal hello head
    let mut by_heads: BTreeMap<BTreeSet<(CmdId, u64)>, usize> = BTreeMap::new();
    for (i, s) in sts.iter().enumerate() {
        if s.hello.is_none() {
            continue;
        }
        let key: BTreeSet<_> = s.heads.iter().copied().collect();
        match by_heads.get(&key) {
            None => {
                by_heads.insert(key, i);
            }
            Some(&j) => {
                acc.count("same_head_set_comparisons", 1);
                if s.heads.len() > 1 {
                    acc.count("same_multi_head_set_comparisons", 1);
                }
                if sts[j].hello != s.hello {
                    let c = case_of(
                        w,
                        format!("{} vs {}", sts[j].shape.show(), s.shape.show()),
                        &sts[j],
                        s,
                        format!(
                            "{}: replicas {} and {} hold the same head set {:?} but advertise hello heads {:?} and {:?}",
                            w.label,
                            sts[j].shape.show(),
                            s.shape.show(),
                            s.heads.iter().map(|(id, mc)| format!("{:02x}@{mc}", id.as_bytes()[0])).collect::<Vec<_>>(),
                            sts[j].hello,
                            s.hello
                        ),
                        json!(null),
                    );
                    acc.fault("same-heads-different-hello", c);
                }
            }
        }
    }

    // clauses 1 and 3 over all ordered pairs
    let n = sts.len();
    acc.count("states_with_an_abandoned_transaction", sts.iter().filter(|s| !s.abandoned.is_empty()).count() as u64);
    for s in sts.iter_mut().filter(|s| !s.abandoned.is_empty()) {
        // informational: what the public lookup says about the abandoned commands
        for id in s.abandoned.clone() {
            let Some(&i) = w.idx_of.get(&id) else { continue };
            let present = s.r.client.command_exists(w.graph, addr(id, w.max_cuts[i]), &mut s.r.buffers.traversal.primary);
            acc.outcome(if present { "abandoned-command:command_exists=true" } else { "abandoned-command:command_exists=false" }, 1);
        }
    }
    for bi in 0..n {
        if sts[bi].receiver_only {
            continue;
        }
        let Some(head) = sts[bi].hello else { continue };
        for ai in 0..n {
            // honest advert, then the same id with a max cut that is off by one (a notification
            // that names no command the advertiser has: the decision must still never be "no
            // sync" unless the advertiser's graph is covered)
            let mut adverts = vec![("hello", head)];
            adverts.push(("hello-maxcut+1", addr(head.id, head.max_cut.get() + 1)));
            if head.max_cut.get() > 0 {
                adverts.push(("hello-maxcut-1", addr(head.id, head.max_cut.get() - 1)));
            }
            // the receiver's own hello id under a wrong max cut
            if let Some(own) = sts[ai].hello {
                if own.id != head.id {
                    adverts.push(("receiver-hello-id-maxcut+1", addr(own.id, own.max_cut.get() + 1)));
                }
            }
            for (kind, adv) in adverts {
                let (a_ids_superset, decision) = {
                    let covered = sts[bi].ids.is_subset(&sts[ai].ids);
                    let a = &mut sts[ai];
                    let d = a.r.client.should_sync_on_hello(w.graph, adv, &mut a.r.buffers.traversal.primary);
                    (covered, d)
                };
                acc.count("transitions", 1);
                acc.count("executions", 1);
                if kind == "hello" && sts[ai].abandoned.contains(&adv.id) {
                    acc.count("adverts_naming_a_command_the_receiver_abandoned", 1);
                }
                let (a, b) = (&sts[ai], &sts[bi]);
                match decision {
                    Err(e) => {
                        let c = case_of(w, format!("A={} B={} advert={kind}", a.shape.show(), b.shape.show()), a, b, format!("{}: should_sync_on_hello failed: {e}", w.label), json!({"advert": kind}));
                        acc.fault("decision-error", c);
                    }
                    Ok(sync) => {
                        if kind == "hello" {
                            acc.outcome(
                                match (sync, a_ids_superset, a.shape == Shape::Absent) {
                                    (true, _, true) => "sync:graph-absent",
                                    (true, false, _) => "sync:needed",
                                    (true, true, _) => "sync:not-needed(false positive, allowed)",
                                    (false, true, _) => "no-sync:covered",
                                    (false, false, _) => "no-sync:NEEDED",
                                },
                                1,
                            );
                            if !sync {
                                acc.count("no_sync_decisions", 1);
                                if a.heads.len() > 1 || b.heads.len() > 1 {
                                    acc.count("no_sync_decisions_multi_head", 1);
                                }
                            }
                        } else {
                            acc.outcome(if sync { "skewed-advert:sync" } else { "skewed-advert:no-sync" }, 1);
                            acc.count("skewed_adverts", 1);
                        }
                        if a.shape == Shape::Absent && !sync {
                            let c = case_of(w, format!("A=absent B={} advert={kind}", b.shape.show()), a, b, format!("{}: a replica without the graph decided not to sync on {kind} {adv:?}", w.label), json!({"advert": kind}));
                            acc.fault("absent-graph-no-sync", c);
                        } else if !sync && !a_ids_superset {
                            let missing: Vec<String> =
                                b.ids.difference(&a.ids).map(|id| w.idx_of.get(id).map(|&i| node_name(i)).unwrap_or_else(|| format!("{:02x}..", id.as_bytes()[0]))).collect();
                            let c = case_of(
                                w,
                                format!("A={} B={} advert={kind}", a.shape.show(), b.shape.show()),
                                a,
                                b,
                                format!(
                                    "{}: receiver {} decided NOT to sync on {kind} {:02x}..@{} from {} although it lacks {}",
                                    w.label,
                                    a.shape.show(),
                                    adv.id.as_bytes()[0],
                                    adv.max_cut,
                                    b.shape.show(),
                                    missing.join(",")
                                ),
                                json!({"advert": kind}),
                            );
                            let only_merges = b.ids.difference(&a.ids).all(|id| b.merges.contains(id));
                            let mut c = c;
                            // tier-independent key for the identified root cause (virtual merge == materialised merge)
                            c.fixed_key = kind == "hello" && only_merges;
                            acc.fault(
                                match (kind == "hello", only_merges) {
                                    (true, false) => "needed-sync-suppressed",
                                    (true, true) => "needed-sync-suppressed:only-merge-commands-missing",
                                    (false, _) => "needed-sync-suppressed-by-skewed-advert",
                                },
                                c,
                            );
                        }
                    }
                }
            }
        }
    }
}

pub fn run(args: &Args) {
    let flavour = args.extra.get("flavour").cloned().unwrap_or_else(|| "P".into());
    if let Some(f) = &args.replay {
        replay(f);
    }
    let mut rep = Report::new(args, Level::ModelChecking);
    let o = opts(args.tier);
    let us = universes(&o);
    rep.set("universes", us.len() as u64);
    rep.set("max_commands", o.n_max as u64);
    let results: Vec<(Acc, u64)> = us
        .into_par_iter()
        .map(|(label, dag)| {
            let w = World::new(dag, label);
            let mut acc = Acc::default();
            let mut seen = HashSet::new();
            run_world(&w, &mut acc, &mut seen);
            (acc, seen.len() as u64)
        })
        .collect();
    let mut acc = Acc::default();
    let mut states = 0;
    for (a, s) in results {
        acc.absorb(a);
        states += s;
    }
    acc.sample(json!({"note": "state kinds per subset", "kinds": ["coarse delivery", "reverse causal order, one commit per command", "coarse delivery + collapsing action", "graph absent"]}));
    acc.into_report(&mut rep);
    rep.set("states", states);
    let ex = rep.counter("executions");
    rep.set("traces_validated_against_impl", ex);
    rep.set("exhaustive", true);
    rep.set("flavour", flavour);
    rep.assume("memory-backed provider; AuditPolicy::merge derives merge ids from the ordered parent ids only (as aranya-crypto's merge_cmd_id does)");
    rep.assume("adverts with a max cut off by one model notifications that name no command of the advertiser; the statement's 'only when' clause is applied to them literally");
    // vacuity guards apply to clean runs only: a run that found violations is not vacuous
    if rep.violations().iter().all(|v| v.key == "needed-sync-suppressed:only-merge-commands-missing") {
        rep.require_nonzero("no_sync_decisions");
        rep.require_nonzero("no_sync_decisions_multi_head");
        rep.require_nonzero("same_multi_head_set_comparisons");
        rep.require_nonzero("collapsed_states");
        rep.require_nonzero("adverts_naming_a_command_the_receiver_abandoned");
    }
    rep.finish()
}

fn replay(f: &std::path::Path) -> ! {
    let v: Value = serde_json::from_str(&std::fs::read_to_string(f).unwrap_or_else(|e| mcx::machinery_error(&format!("replay file: {e}"))))
        .unwrap_or_else(|e| mcx::machinery_error(&format!("replay file does not parse: {e}")));
    let r = v.get("replay").unwrap_or(&v);
    let dag: Dag = r.get("dag").and_then(dag_from_json).unwrap_or_else(|| mcx::machinery_error("replay: no dag"));
    let label = r.get("label").and_then(|l| l.as_str()).unwrap_or("replay").to_string();
    let w = World::new(dag, label);
    println!("replaying all state pairs of universe {}", w.dag.describe());
    let mut acc = Acc::default();
    let mut seen = HashSet::new();
    run_world(&w, &mut acc, &mut seen);
    for (clause, (n, c)) in &acc.faults {
        println!("VIOLATION property=C19 clause={clause} ({n} cases): {}", c.desc);
    }
    std::process::exit(if acc.faults.is_empty() { 0 } else { 1 })
}
