//! C20 — peer caches only record what the peer really has.
//!
//! Real committed graphs (every universe with ≤ 5 commands in two segment layouts, and fans with
//! 12 branches to cross `PEER_HEAD_MAX`) × every `PeerCache::add_command` sequence up to a length
//! over {every committed address, a flushed-but-uncommitted address, an unknown id, committed ids
//! with a wrong max cut}; invariants and step effects are checked after every call.

use std::collections::HashSet;

use mcx::{json, rayon::prelude::*, Args, Level, Report, Value};
use rtlib::{
    dag::{basic_id, encode_payload, node_name, Cmd, MergeRank, Op},
    replica::addr,
    rt::{Address, PeerCache, Prior, Priority, StorageProvider as _, PEER_HEAD_MAX},
};

use crate::{
    acc::{dag_from_json, dag_to_json, Acc, Case},
    world::{build, fan, fan_node, universes, Layout, UniverseOpts, World},
};

#[derive(Clone, Debug)]
enum Letter {
    Committed(usize),
    Uncommitted,
    /// a real command flushed by a transaction that was dropped; another commit followed
    Abandoned,
    BogusId,
    BogusCut(usize, i64),
}

impl Letter {
    fn show(&self) -> String {
        match self {
            Letter::Committed(i) => node_name(*i),
            Letter::Uncommitted => "UNCOMMITTED".into(),
            Letter::Abandoned => "ABANDONED".into(),
            Letter::BogusId => "BOGUSID".into(),
            Letter::BogusCut(i, d) => format!("{}@cut{:+}", node_name(*i), d),
        }
    }
}

struct Setup<'a> {
    w: &'a World,
    layout: Layout,
    /// letters added (and checked) before the enumerated sequence starts
    prefill: Vec<usize>,
    alphabet: Vec<Letter>,
    depth: usize,
}

fn uncommitted_cmd(w: &World) -> Cmd {
    Cmd {
        id: basic_id(0xa0, 9999),
        prior: Prior::Single(addr(w.ids[0], 0)),
        priority: Priority::Basic(0),
        policy: None,
        data: encode_payload("u", &[Op::Append]),
    }
}

fn abandoned_cmd(w: &World) -> Cmd {
    Cmd { id: basic_id(0xa2, 9997), prior: Prior::Single(addr(w.ids[0], 0)), priority: Priority::Basic(0), policy: None, data: encode_payload("w", &[Op::Append]) }
}

/// Committed after the abandoned transaction, so the committed frontier lies behind segments
/// that never became part of the graph. Not part of the universe (never recorded).
fn later_cmd(w: &World) -> Cmd {
    Cmd { id: basic_id(0xa1, 9998), prior: Prior::Single(addr(w.ids[0], 0)), priority: Priority::Basic(0), policy: None, data: encode_payload("v", &[Op::Append]) }
}

fn address_of(w: &World, l: &Letter) -> Address {
    match l {
        Letter::Abandoned => addr(abandoned_cmd(w).id, 1),
        Letter::Committed(i) => addr(w.ids[*i], w.max_cuts[*i]),
        Letter::Uncommitted => addr(uncommitted_cmd(w).id, 1),
        Letter::BogusId => addr(basic_id(0xb0, 7777), 1),
        Letter::BogusCut(i, d) => addr(w.ids[*i], (w.max_cuts[*i] as i64 + d) as u64),
    }
}

/// The model: entries as node indices, in insertion order.
fn model_step(w: &World, cache: &mut Vec<usize>, l: &Letter) {
    let Letter::Committed(x) = l else { return };
    let x = *x;
    if cache.iter().any(|&e| e == x || w.anc[e].has(x)) {
        return; // equal to, or an ancestor of, an existing entry
    }
    cache.retain(|&e| !w.anc[x].has(e));
    if cache.len() < PEER_HEAD_MAX {
        cache.push(x);
    }
}

/// Execute one `add_command` sequence from an empty cache on replica `r`, checking every step
/// from `check_from` on against the invariants and the documented effect.
#[allow(clippy::too_many_arguments)]
fn exec_letters(w: &World, r: &mut rtlib::replica::MemReplica, label: &str, layout: Layout, letters: &[Letter], check_from: usize, acc: &mut Acc, states: &mut HashSet<u64>) {
    let mut cache = PeerCache::new();
    let mut model: Vec<usize> = Vec::new();
    for (step, l) in letters.iter().enumerate() {
        let before: Vec<usize> = model.clone();
        let res = {
            let storage = r.client.provider().get_storage(w.graph).unwrap_or_else(|e| mcx::machinery_error(&format!("C20 get_storage: {e}")));
            cache.add_command(&*storage, address_of(w, l), &mut r.buffers.traversal.primary)
        };
        model_step(w, &mut model, l);
        if step < check_from {
            // judged when it was the last step of a shorter sequence; keep the model aligned
            // with the implementation so that later steps are judged on their own
            if res.is_ok() {
                let real: Vec<usize> = cache.heads().iter().filter_map(|h| w.idx_of.get(&h.id).copied()).collect();
                if real.len() == cache.heads().len() {
                    model = real;
                }
            }
            continue;
        }
        acc.count("transitions", 1);
        let show_seq = || letters[..=step].iter().map(|l| l.show()).collect::<Vec<_>>().join(" ");
        let mk = |clause_desc: String| Case {
            rank: (w.n(), step + 1, 0),
            case: format!("{label} seq=[{}]", show_seq()),
            desc: format!("{label}: after add_command sequence [{}]: {clause_desc}", show_seq()),
            replay: json!({"dag": dag_to_json(&w.dag), "label": w.label, "layout": layout.tag(), "sequence": letters[..=step].iter().map(|l| l.show()).collect::<Vec<_>>() }),
            fixed_key: false,
        };
        if let Err(e) = res {
            acc.fault("add-command-error", mk(format!("add_command returned {e}")));
            break;
        }
        // what the real cache holds
        let mut real: Vec<usize> = Vec::new();
        let mut bad = false;
        for h in cache.heads() {
            match w.idx_of.get(&h.id) {
                Some(&i) if w.max_cuts[i] == h.max_cut.get() => real.push(i),
                _ => {
                    acc.fault("uncommitted-entry", mk(format!("entry {:02x}..@{} is not a command committed in the local graph", h.id.as_bytes()[0], h.max_cut)));
                    bad = true;
                }
            }
        }
        if bad {
            break;
        }
        states.insert(mcx::fnv64(format!("{label}|{real:?}").as_bytes()));
        if real.len() > PEER_HEAD_MAX {
            acc.fault("too-many-entries", mk(format!("{} entries", real.len())));
        }
        for (a, &x) in real.iter().enumerate() {
            for &y in &real[a + 1..] {
                if w.comparable(x, y) {
                    acc.fault("comparable-entries", mk(format!("entries {} and {} are not incomparable", node_name(x), node_name(y))));
                }
            }
        }
        // step effect
        let removed: Vec<usize> = before.iter().copied().filter(|e| !real.contains(e)).collect();
        let class = match l {
            Letter::Committed(x) => {
                if before.iter().any(|&e| e == *x) {
                    "equal-to-entry"
                } else if before.iter().any(|&e| w.anc[e].has(*x)) {
                    "ancestor-of-entry"
                } else if before.iter().any(|&e| w.anc[*x].has(e)) {
                    if before.len() == PEER_HEAD_MAX { "descendant-of-entry(full)" } else { "descendant-of-entry" }
                } else if before.len() == PEER_HEAD_MAX {
                    "unrelated(full)"
                } else {
                    "unrelated"
                }
            }
            Letter::Uncommitted => "uncommitted",
            Letter::Abandoned => "abandoned-then-overtaken",
            Letter::BogusId => "unknown-id",
            Letter::BogusCut(..) => "wrong-max-cut",
        };
        acc.outcome(class, 1);
        if let Letter::Committed(x) = l {
            let superseded = before.iter().filter(|&&e| w.anc[*x].has(e)).count();
            if superseded >= 3 {
                acc.count("steps_superseding_3_or_more_entries", 1);
            }
            acc.maximum("max_entries_superseded_by_one_step", superseded as u64);
        }
        if w.label.starts_with("midfork") {
            if let Letter::Committed(x) = l {
                if before.iter().any(|&e| !w.comparable(e, *x)) {
                    acc.count("steps_across_a_mid_segment_fork", 1);
                }
            }
        }
        if class.ends_with("(full)") {
            acc.count("steps_on_full_cache", 1);
        }
        match l {
            Letter::Committed(x) => {
                for &e in &removed {
                    if !w.anc[*x].has(e) {
                        acc.fault("removed-non-ancestor", mk(format!("recording {} removed entry {} which is not its ancestor", node_name(*x), node_name(e))));
                    }
                }
                if (class == "equal-to-entry" || class == "ancestor-of-entry") && real != before {
                    acc.fault("ancestor-changed-cache", mk(format!("recording {} (equal to / ancestor of an entry) changed the cache from {:?} to {:?}", node_name(*x), names(&before), names(&real))));
                }
            }
            _ => {
                if real != before {
                    acc.fault("uncommitted-changed-cache", mk(format!("recording {} changed the cache from {:?} to {:?}", l.show(), names(&before), names(&real))));
                }
            }
        }
        let (mut ms, mut rs) = (model.clone(), real.clone());
        ms.sort();
        rs.sort();
        if ms != rs {
            acc.fault("effect-differs-from-model", mk(format!("cache holds {:?}, the documented effect gives {:?}", names(&real), names(&model))));
        }
        // keep the model aligned with the implementation so later steps are judged on their own
        model = real;
    }
}

fn run_setup(s: &Setup<'_>, acc: &mut Acc, states: &mut HashSet<u64>) {
    let w = s.w;
    let mut r = build(w, &w.full(), s.layout).unwrap_or_else(|e| mcx::machinery_error(&format!("C20 build: {e}")));
    // a real command flushed by a sync transaction that is then dropped, followed by an unrelated
    // commit on the same storage handle (histories with abandoned transactions)
    {
        let mut t1 = r.trx();
        r.add(&mut t1, &[abandoned_cmd(w)]).unwrap_or_else(|e| mcx::machinery_error(&format!("C20 abandoned add: {e}")));
        r.flush(&mut t1).unwrap_or_else(|e| mcx::machinery_error(&format!("C20 abandoned flush: {e}")));
        drop(t1);
        let mut t2 = r.trx();
        r.add(&mut t2, &[later_cmd(w)]).unwrap_or_else(|e| mcx::machinery_error(&format!("C20 later add: {e}")));
        r.commit(t2).unwrap_or_else(|e| mcx::machinery_error(&format!("C20 later commit: {e}")));
    }
    // a real command that is written to storage but not committed (open transaction, flushed)
    let mut trx = r.trx();
    r.add(&mut trx, &[uncommitted_cmd(w)]).unwrap_or_else(|e| mcx::machinery_error(&format!("C20 uncommitted add: {e}")));
    r.flush(&mut trx).unwrap_or_else(|e| mcx::machinery_error(&format!("C20 flush: {e}")));

    let label = format!("{} {}{}", w.label, s.layout.tag(), if s.prefill.is_empty() { String::new() } else { format!(" prefill{}", s.prefill.len()) });
    let k = s.alphabet.len();
    let mut seq: Vec<usize> = Vec::new();
    // depth-first over sequences; every sequence is executed from an empty cache
    loop {
        // execute `prefill ++ seq`, checking the last step in full (earlier steps were checked
        // when they were the last step of a shorter sequence) — prefill steps are checked once
        let check_from = if seq.is_empty() { 0 } else { s.prefill.len() + seq.len() - 1 };
        let letters: Vec<Letter> = s.prefill.iter().map(|&i| Letter::Committed(i)).chain(seq.iter().map(|&i| s.alphabet[i].clone())).collect();
        exec_letters(w, &mut r, &label, s.layout, &letters, check_from, acc, states);
        acc.count("executions", 1);
        // next sequence (DFS order: extend, else increment, else backtrack)
        if seq.len() < s.depth {
            seq.push(0);
        } else {
            loop {
                match seq.pop() {
                    None => {
                        drop(trx);
                        return;
                    }
                    Some(last) if last + 1 < k => {
                        seq.push(last + 1);
                        break;
                    }
                    Some(_) => {}
                }
            }
        }
    }
}

/// A chain of `chain` commands after init (ingested as ONE segment) with a side branch of
/// `branch` commands forked from the interior chain command at position `at` (1-based; the branch
/// is ingested afterwards, so its segment's prior lands in the middle of the chain's segment).
fn mid_fork(chain: usize, at: usize, branch: usize, descending: bool) -> World {
    use rtlib::dag::{Dag, Kind, Node};
    let (rc, rb) = if descending { (0x60, 0x20) } else { (0x20, 0x60) };
    let mut nodes = vec![Node { kind: Kind::Init, parents: vec![], rank: crate::world::RANK_INIT, prog: vec![Op::Append] }];
    for j in 0..chain {
        nodes.push(Node { kind: Kind::Basic(0), parents: vec![j], rank: rc, prog: vec![Op::Append] });
    }
    for j in 0..branch {
        let parent = if j == 0 { at } else { nodes.len() - 1 };
        nodes.push(Node { kind: Kind::Basic(0), parents: vec![parent], rank: rb, prog: vec![Op::Append] });
    }
    World::new(Dag { nodes, merge_rank: MergeRank::Low }, format!("midfork{chain}at{at}x{branch}{}", if descending { "desc" } else { "asc" }))
}

/// Merge-tree shapes over `k` branch tips (indices into the tip list).
#[derive(Clone, Debug)]
enum Tree {
    Leaf(usize),
    Join(Box<Tree>, Box<Tree>),
}

fn merge_shapes(k: usize) -> Vec<(&'static str, Tree)> {
    use Tree::*;
    let l = |i| Box::new(Leaf(i));
    let j = |a: Box<Tree>, b: Box<Tree>| Box::new(Join(a, b));
    match k {
        3 => vec![("((01)2)", *j(j(l(0), l(1)), l(2))), ("((02)1)", *j(j(l(0), l(2)), l(1))), ("((12)0)", *j(j(l(1), l(2)), l(0)))],
        4 => vec![("(((01)2)3)", *j(j(j(l(0), l(1)), l(2)), l(3))), ("((01)(23))", *j(j(l(0), l(1)), j(l(2), l(3))))],
        5 => vec![
            ("((((01)2)3)4)", *j(j(j(j(l(0), l(1)), l(2)), l(3)), l(4))),
            ("(((01)(23))4)", *j(j(j(l(0), l(1)), j(l(2), l(3))), l(4))),
            ("(((01)2)(34))", *j(j(j(l(0), l(1)), l(2)), j(l(3), l(4)))),
        ],
        _ => vec![],
    }
}

/// `k` concurrent branches of `len` commands from init, one unrelated extra branch, the branch
/// tips joined by nested merges of the given shape, and a child on top of the last merge.
struct MergeFamily {
    w: World,
    tips: Vec<usize>,
    extra: usize,
    top: usize,
    child: usize,
}

fn merge_family(k: usize, len: usize, shape_name: &str, shape: &Tree, descending: bool) -> MergeFamily {
    use rtlib::dag::{Dag, Kind, Node};
    let mut nodes = vec![Node { kind: Kind::Init, parents: vec![], rank: crate::world::RANK_INIT, prog: vec![Op::Append] }];
    let mut tips = Vec::new();
    for b in 0..k {
        let rank = if descending { 0x70 - 0x10 * b as u8 } else { 0x10 + 0x10 * b as u8 };
        for j in 0..len {
            let parent = if j == 0 { 0 } else { nodes.len() - 1 };
            nodes.push(Node { kind: Kind::Basic(0), parents: vec![parent], rank, prog: vec![Op::Append] });
        }
        tips.push(nodes.len() - 1);
    }
    nodes.push(Node { kind: Kind::Basic(0), parents: vec![0], rank: 0x80, prog: vec![Op::Append] });
    let extra = nodes.len() - 1;
    fn lay(t: &Tree, tips: &[usize], nodes: &mut Vec<rtlib::dag::Node>) -> usize {
        match t {
            Tree::Leaf(i) => tips[*i],
            Tree::Join(a, b) => {
                let (x, y) = (lay(a, tips, nodes), lay(b, tips, nodes));
                nodes.push(rtlib::dag::Node { kind: rtlib::dag::Kind::Merge, parents: vec![x.min(y), x.max(y)], rank: 0, prog: vec![] });
                nodes.len() - 1
            }
        }
    }
    let top = lay(shape, &tips, &mut nodes);
    nodes.push(Node { kind: Kind::Basic(0), parents: vec![top], rank: 0x90, prog: vec![Op::Append] });
    let child = nodes.len() - 1;
    let dag = Dag { nodes, merge_rank: MergeRank::Low };
    let w = World::new(dag, format!("merges{k}x{len}{shape_name}{}", if descending { "desc" } else { "asc" }));
    MergeFamily { w, tips, extra, top, child }
}

/// Every order of recording the branch tips, optionally one unrelated head in every position,
/// followed by the top merge, its child, or both; every step is checked in full.
fn run_merge_family(f: &MergeFamily, acc: &mut Acc, states: &mut HashSet<u64>) {
    let w = &f.w;
    for layout in [Layout::Coarse, Layout::Fine] {
        let mut r = build(w, &w.full(), layout).unwrap_or_else(|e| mcx::machinery_error(&format!("C20 merge family build {}: {e}", w.label)));
        let label = format!("{} {}", w.label, layout.tag());
        let k = f.tips.len();
        let finals: [&[usize]; 3] = [&[f.top], &[f.child], &[f.top, f.child]];
        mcx::enumerate::permutations(k, |perm| {
            for extra_pos in 0..=k + 1 {
                for fin in finals {
                    let mut seq: Vec<usize> = perm.iter().map(|&i| f.tips[i]).collect();
                    if extra_pos <= k {
                        seq.insert(extra_pos, f.extra);
                    }
                    seq.extend_from_slice(fin);
                    let letters: Vec<Letter> = seq.iter().map(|&i| Letter::Committed(i)).collect();
                    exec_letters(w, &mut r, &label, layout, &letters, 0, acc, states);
                    acc.count("executions", 1);
                    acc.count("merge_family_sequences", 1);
                }
            }
        });
    }
}

fn names(v: &[usize]) -> Vec<String> {
    v.iter().map(|&i| node_name(i)).collect()
}

fn alphabet(w: &World) -> Vec<Letter> {
    let n = w.n();
    let mut a: Vec<Letter> = (0..n).map(Letter::Committed).collect();
    a.push(Letter::Uncommitted);
    a.push(Letter::Abandoned);
    a.push(Letter::BogusId);
    a.push(Letter::BogusCut(n - 1, 1));
    if w.max_cuts[n - 1] > 0 {
        a.push(Letter::BogusCut(n - 1, -1));
    }
    a
}

pub fn run(args: &Args) {
    let flavour = args.extra.get("flavour").cloned().unwrap_or_else(|| "P".into());
    if let Some(f) = &args.replay {
        replay(args, f);
    }
    let mut rep = Report::new(args, Level::ModelChecking);
    let depth = args.tier.pick(3, 4);
    let o = UniverseOpts { n_min: 1, n_max: 5, prios: vec![0], prio_upto: 0, full_rank_perms_upto: 0, merge_ranks: vec![MergeRank::Low] };
    let mut worlds: Vec<(World, Vec<Vec<usize>>, usize)> = universes(&o).into_iter().map(|(l, d)| (World::new(d, l), vec![vec![]], depth)).collect();
    rep.set("universes", worlds.len() as u64);
    // fans with 12 branches: pre-filled caches with 9 and 10 entries so that sequences cross PEER_HEAD_MAX
    for len in [1usize, 2] {
        let w = World::new(fan(12, len), format!("fan12x{len}"));
        let first_level = |c: usize| (0..c).map(|b| fan_node(len, b, 0)).collect::<Vec<usize>>();
        let fills = vec![first_level(PEER_HEAD_MAX - 1), first_level(PEER_HEAD_MAX)];
        worlds.push((w, fills, args.tier.pick(2, 3)));
    }
    // chains ingested as one segment, forked in the middle by a branch ingested afterwards
    let mut midforks = 0u64;
    for chain in 4..=6usize {
        for at in 1..chain {
            for branch in 1..=3usize {
                for descending in [false, true] {
                    worlds.push((mid_fork(chain, at, branch, descending), vec![vec![]], depth));
                    midforks += 1;
                }
            }
        }
    }
    rep.set("mid_segment_fork_graphs", midforks);
    rep.set("max_sequence_length", depth as u64);
    rep.set("PEER_HEAD_MAX", PEER_HEAD_MAX as u64);
    let results: Vec<(Acc, u64)> = worlds
        .par_iter()
        .map(|(w, fills, depth)| {
            let mut acc = Acc::default();
            let mut states = HashSet::new();
            for layout in [Layout::Coarse, Layout::Fine] {
                for prefill in fills {
                    let s = Setup { w, layout, prefill: prefill.clone(), alphabet: alphabet(w), depth: *depth };
                    run_setup(&s, &mut acc, &mut states);
                }
            }
            (acc, states.len() as u64)
        })
        .collect();
    // nested-merge families: a recorded command with k >= 3 ancestors already in the cache
    let mut families = Vec::new();
    for k in 3..=args.tier.pick(4, 5) {
        for len in [1usize, 2] {
            for (name, shape) in merge_shapes(k) {
                for descending in [false, true] {
                    families.push(merge_family(k, len, name, &shape, descending));
                }
            }
        }
    }
    rep.set("merge_families", families.len() as u64);
    let fam_results: Vec<(Acc, u64)> = families
        .par_iter()
        .map(|f| {
            let mut acc = Acc::default();
            let mut states = HashSet::new();
            run_merge_family(f, &mut acc, &mut states);
            (acc, states.len() as u64)
        })
        .collect();
    let mut acc = Acc::default();
    let mut states = 0;
    for (a, s) in results.into_iter().chain(fam_results) {
        acc.absorb(a);
        states += s;
    }
    acc.sample(json!({"merge families": "k = 3..4 (thorough 5) concurrent branches of 1-2 commands joined by nested merges (3 labelled shapes for k=3, caterpillar and balanced for k=4, 3 shapes for k=5), a child on top, one unrelated branch; id order ascending and descending; every order of recording the k tips, the unrelated head absent or in every position, then the top merge, its child, or both"}));
    acc.sample(json!({"alphabet": "every committed address, one flushed-but-uncommitted address, one unknown id, newest command's id with max cut +1 / -1", "fans": "12 branches x {1,2} commands, caches pre-filled with 9 and 10 entries through add_command"}));
    acc.into_report(&mut rep);
    rep.set("states", states);
    let ex = rep.counter("executions");
    rep.set("traces_validated_against_impl", ex);
    rep.set("exhaustive", true);
    rep.set("flavour", flavour);
    rep.assume("memory-backed provider; the documented effect (ignore uncommitted / equal / ancestor-of-entry, else drop exactly the ancestors and append if fewer than PEER_HEAD_MAX entries remain) is the model");
    // vacuity guards apply to clean runs only: a run that found violations is not vacuous
    if rep.violations().is_empty() {
        rep.require_nonzero("steps_on_full_cache");
        rep.require_nonzero("steps_superseding_3_or_more_entries");
        rep.require_nonzero("steps_across_a_mid_segment_fork");
    }
    rep.finish()
}

fn replay(args: &Args, f: &std::path::Path) -> ! {
    let v: Value = serde_json::from_str(&std::fs::read_to_string(f).unwrap_or_else(|e| mcx::machinery_error(&format!("replay file: {e}"))))
        .unwrap_or_else(|e| mcx::machinery_error(&format!("replay file does not parse: {e}")));
    let r = v.get("replay").unwrap_or(&v);
    let dag = r.get("dag").and_then(dag_from_json).unwrap_or_else(|| mcx::machinery_error("replay: no dag"));
    let label = r.get("label").and_then(|l| l.as_str()).unwrap_or("replay").to_string();
    let w = World::new(dag, label);
    let layout = if r.get("layout").and_then(|x| x.as_str()) == Some("fine") { Layout::Fine } else { Layout::Coarse };
    let want: Vec<String> = r.get("sequence").and_then(|s| s.as_array()).map(|a| a.iter().filter_map(|x| x.as_str().map(String::from)).collect()).unwrap_or_default();
    let alpha = alphabet(&w);
    // the recorded sequence as prefill (committed letters) is not expressible in general: re-run
    // the whole setup at the recorded length and report what fails
    let depth = want.len().min(args.tier.pick(3, 4)).max(1);
    let mut acc = Acc::default();
    let mut states = HashSet::new();
    let fills: Vec<Vec<usize>> = if w.label.starts_with("fan12") {
        let len = (w.n() - 1) / 12;
        vec![(0..PEER_HEAD_MAX - 1).map(|b| fan_node(len, b, 0)).collect(), (0..PEER_HEAD_MAX).map(|b| fan_node(len, b, 0)).collect()]
    } else {
        vec![vec![]]
    };
    for prefill in fills {
        run_setup(&Setup { w: &w, layout, prefill, alphabet: alpha.clone(), depth }, &mut acc, &mut states);
    }
    for (clause, (n, c)) in &acc.faults {
        println!("VIOLATION property=C20 clause={clause} ({n} cases): {}", c.desc);
    }
    std::process::exit(if acc.faults.is_empty() { 0 } else { 1 })
}
