//! rt-sync: C16–C20 on the real sync code of aranya-runtime (requester, responder, wire decode,
//! hello heads, peer caches) with real replicas on both sides.
mod acc;
mod c16;
mod c18;
mod c19;
mod c20;
mod session;
mod wire;
mod world;

use rtlib::rt::COMMAND_RESPONSE_MAX;

/// `COMMAND_SAMPLE_MAX` / `SEGMENT_BUFFER_MAX` are private to the runtime; they are tied to the
/// public `COMMAND_RESPONSE_MAX` by the same `low-mem-usage` feature.
pub fn sample_max() -> usize {
    if COMMAND_RESPONSE_MAX == 5 { 20 } else { 100 }
}
pub fn segment_buffer_max() -> usize {
    if COMMAND_RESPONSE_MAX == 5 { 10 } else { 100 }
}

/// Flavour S must have been built with `--cfg aranya_core_verif` (which also switches on
/// `low-mem-usage`), flavour P without; anything else is a build mix-up, not a verdict.
pub fn check_flavour(f: &str) {
    let low = COMMAND_RESPONSE_MAX == 5;
    let cfg_on = cfg!(aranya_core_verif);
    if (f == "S") != low || low != cfg_on {
        mcx::machinery_error(&format!("flavour {f} but COMMAND_RESPONSE_MAX = {COMMAND_RESPONSE_MAX}, cfg(aranya_core_verif) = {cfg_on}"));
    }
}

fn main() {
    let args = mcx::parse_args();
    mcx::quiet_panics();
    match args.prop.as_str() {
        p @ ("C16" | "C17") => c16::run(&args, p),
        "C18" => c18::run(&args),
        "C19" => c19::run(&args),
        "C20" => c20::run(&args),
        p => mcx::machinery_error(&format!("rt-sync does not serve {p}")),
    }
}
