//! One sync session between two real replicas, driven exactly as the transports drive it.
//!
//! * `Mode::OneShot` mirrors `aranya-tcp-syncer` (`Syncer::sync` on the requesting side,
//!   `Syncer::dispatch` on the responding side) and `testing::dsl::{sync, dispatch}`: one
//!   `SyncRequester::poll`, one fresh `SyncResponder` that `receive`s the decoded poll and is
//!   `poll`ed once, `SyncRequester::receive`, `add_commands`, `commit`, `update_heads`.
//! * `Mode::Full` mirrors `sync::responder::tests::run_full_session` ("exactly like a production
//!   transport's poll loop"): the same responder is polled until it reports `SyncEnd`, every
//!   response goes into the same transaction, then `commit` and `update_heads`.
//!
//! Each replica keeps ONE `PeerCache` for the other side (`Syncer::remote_heads[peer]`), used as
//! the requester's cache when it polls that peer and as the response cache when that peer polls
//! it. `persistent = false` replaces both caches by fresh ones before the session.

use std::sync::atomic::{AtomicU64, Ordering};

use rtlib::{
    dag::node_name,
    replica::{CountingSpill, MemReplica},
    rt::{
        Address, ClientError, Command as _, CommandExt as _, PeerCache, SyncError, SyncIncoming, SyncRequester,
        SyncResponder, COMMAND_RESPONSE_MAX, MAX_SYNC_MESSAGE_SIZE,
    },
};

use crate::{
    wire::{dec_resp, WResp},
    world::{NodeSet, World},
};

/// Deterministic counter-mode generator (session ids). Nothing random reaches an oracle.
pub struct CtrRng {
    seed: u64,
    ctr: AtomicU64,
}

impl CtrRng {
    pub fn new(seed: u64, stream: u64) -> Self {
        CtrRng { seed: seed ^ stream.wrapping_mul(0x9e37_79b9_7f4a_7c15), ctr: AtomicU64::new(0) }
    }
}

impl aranya_crypto::Csprng for CtrRng {
    fn fill_bytes(&self, dst: &mut [u8]) {
        for chunk in dst.chunks_mut(8) {
            let c = self.ctr.fetch_add(1, Ordering::Relaxed);
            let mut z = self.seed.wrapping_add(c.wrapping_add(1).wrapping_mul(0x9e37_79b9_7f4a_7c15));
            z = (z ^ (z >> 30)).wrapping_mul(0xbf58_476d_1ce4_e5b9);
            z = (z ^ (z >> 27)).wrapping_mul(0x94d0_49bb_1331_11eb);
            z ^= z >> 31;
            chunk.copy_from_slice(&z.to_le_bytes()[..chunk.len()]);
        }
    }
}

pub struct Peer {
    pub r: MemReplica,
    pub cache: PeerCache,
}

impl Peer {
    pub fn new(r: MemReplica) -> Self {
        Peer { r, cache: PeerCache::new() }
    }
}

#[derive(Clone, Copy, Debug, PartialEq, Eq, Hash, PartialOrd, Ord)]
pub enum Mode {
    OneShot,
    Full,
}

#[derive(Clone, Copy, Debug, PartialEq, Eq, Hash, PartialOrd, Ord)]
pub struct Cfg {
    pub mode: Mode,
    pub persistent: bool,
}

impl Cfg {
    pub fn tag(&self) -> String {
        format!("{}/{}", if self.mode == Mode::OneShot { "oneshot" } else { "full" }, if self.persistent { "persistent" } else { "fresh" })
    }
}

/// Reusable message buffers (MAX_SYNC_MESSAGE_SIZE is ~200 KiB in flavour P).
pub struct Bufs {
    pub req: Vec<u8>,
    pub resp: Vec<u8>,
}

impl Bufs {
    pub fn new() -> Self {
        Bufs { req: vec![0u8; MAX_SYNC_MESSAGE_SIZE], resp: vec![0u8; MAX_SYNC_MESSAGE_SIZE] }
    }
}

#[derive(Default, Debug)]
pub struct Outcome {
    /// addresses in the request sample
    pub sample: usize,
    /// responder polls
    pub polls: u64,
    /// `SyncResponse` messages received
    pub responses: usize,
    /// delivered commands (node indices) in arrival order
    pub delivered: Vec<usize>,
    /// commands `add_commands` reported as newly added
    pub added: usize,
    /// `SyncEnd` seen
    pub ended: bool,
    /// responses carrying exactly COMMAND_RESPONSE_MAX commands that were followed by another response
    pub full_responses: usize,
    /// number of commands in each response, in order
    pub resp_sizes: Vec<usize>,
    /// the responder was still sending when the poll bound was reached: a transport polling to
    /// the end message would never leave its loop, so nothing is committed
    pub never_ended: bool,
    /// protocol steps executed (poll, decode, receive, add_commands, commit, update_heads)
    pub steps: u64,
    /// oracle clauses broken: (clause, description)
    pub faults: Vec<(String, String)>,
    /// raw response messages (kept for the buffer-size probe)
    pub messages: Vec<Vec<u8>>,
    /// the request message
    pub request: Vec<u8>,
}

/// Record a broken clause (arguments are evaluated before `o` is borrowed mutably).
macro_rules! fault {
    ($o:expr, $clause:expr, $desc:expr $(,)?) => {{
        let c: String = ($clause).to_string();
        let d: String = $desc;
        $o.faults.push((c, d));
    }};
}

fn client_err_class(e: &ClientError) -> &'static str {
    match e {
        ClientError::NoSuchParent(_) => "NoSuchParent",
        ClientError::PolicyError(_) => "PolicyError",
        ClientError::StorageError(_) => "StorageError",
        ClientError::InitError => "InitError",
        ClientError::ParallelFinalize => "ParallelFinalize",
        ClientError::ConcurrentTransaction => "ConcurrentTransaction",
        ClientError::Bug(_) => "Bug",
        _ => "other",
    }
}

pub fn sync_err_class(e: &SyncError) -> &'static str {
    match e {
        SyncError::SessionMismatch => "SessionMismatch",
        SyncError::MissingSyncResponse => "MissingSyncResponse",
        SyncError::SessionState => "SessionState",
        SyncError::NotReady => "NotReady",
        SyncError::CommandOverflow => "CommandOverflow",
        SyncError::BufferTooSmall => "BufferTooSmall",
        SyncError::MalformedResponse => "MalformedResponse",
        SyncError::UnsupportedRequest => "UnsupportedRequest",
        SyncError::Storage(_) => "Storage",
        SyncError::Serialize(_) => "Serialize",
        SyncError::Bug(_) => "Bug",
        _ => "other",
    }
}

/// `a` requests from `b`. `sb` is the responder's committed node set (for the soundness clause).
/// `keep_messages` records the raw messages for the buffer probe.
pub fn session(w: &World, a: &mut Peer, b: &mut Peer, sb: &NodeSet, cfg: Cfg, rng: &CtrRng, bufs: &mut Bufs, keep_messages: bool) -> Outcome {
    let mut o = Outcome::default();
    if !cfg.persistent {
        a.cache = PeerCache::new();
        b.cache = PeerCache::new();
    }
    let graph = w.graph;

    // --- requesting side: Syncer::sync ---
    let mut requester = SyncRequester::new(graph, rng);
    if !requester.ready() {
        fault!(o, "requester-not-ready", "a new SyncRequester is not ready".into());
    }
    o.steps += 1;
    let (len, sent) = {
        let heads = a.cache.session_heads();
        match requester.poll(&mut bufs.req, a.r.client.provider(), &heads, &mut a.r.buffers.traversal.primary) {
            Ok(x) => x,
            Err(e) => {
                fault!(o, &format!("requester-poll-error:{}", sync_err_class(&e)), format!("SyncRequester::poll failed: {e}"));
                return o;
            }
        }
    };
    o.sample = sent;
    o.request = bufs.req[..len].to_vec();

    // --- responding side: Syncer::dispatch ---
    o.steps += 1;
    let mut responder = SyncResponder::new();
    match SyncIncoming::decode(&bufs.req[..len]) {
        Ok(SyncIncoming::Poll(p)) => {
            if let Err(e) = responder.receive(p) {
                fault!(o, &format!("responder-receive-error:{}", sync_err_class(&e)), format!("SyncResponder::receive failed on a real request: {e}"));
                return o;
            }
        }
        Ok(_) => {
            fault!(o, "request-misdecoded", "a SyncRequester::poll message did not decode as a poll".into());
            return o;
        }
        Err(e) => {
            fault!(o, "request-undecodable", format!("SyncIncoming::decode failed on a real request: {e}"));
            return o;
        }
    }
    if !responder.ready() {
        fault!(o, "responder-not-ready", "responder not ready after receiving a sync request".into());
        return o;
    }

    let poll_bound = sb.count() as u64 + 2;
    let mut trx = None;
    let mut addrs: Vec<Address> = Vec::new();
    let mut last_full = false;
    loop {
        if cfg.mode == Mode::Full && !responder.ready() {
            break;
        }
        if o.polls >= poll_bound {
            fault!(o, "no-termination", format!("responder still sending after {} polls (responder holds {} commands)", o.polls, sb.count()));
            o.never_ended = true;
            break;
        }
        o.polls += 1;
        o.steps += 1;
        let rlen = match responder.poll(&mut bufs.resp, b.r.client.provider(), &mut b.cache, &mut b.r.buffers.traversal) {
            Ok(l) => l,
            Err(e) => {
                fault!(o, &format!("responder-poll-error:{}", sync_err_class(&e)), format!("SyncResponder::poll #{} failed: {e}", o.polls));
                break;
            }
        };
        if rlen == 0 {
            break; // an empty reply means "nothing to send" to the transports
        }
        let msg = &bufs.resp[..rlen];
        if keep_messages {
            o.messages.push(msg.to_vec());
        }
        // what the responder claims, read through the wire mirror
        let claimed = dec_resp(msg);
        o.steps += 1;
        let got = match requester.receive(msg) {
            Ok(g) => g,
            Err(e) => {
                fault!(o, &format!("requester-receive-error:{}", sync_err_class(&e)), format!("SyncRequester::receive rejected response #{}: {e}", o.polls));
                break;
            }
        };
        match (&claimed, &got) {
            (Ok((WResp::SyncResponse { response_index, commands, .. }, _)), Some(cmds)) => {
                if *response_index != o.responses as u64 {
                    fault!(o, "response-index", format!("response #{} carries response_index {response_index}", o.responses));
                }
                if commands.len() != cmds.len() {
                    mcx::machinery_error("wire mirror and SyncRequester::receive disagree on the command count");
                }
            }
            (Ok((WResp::SyncEnd { max_index, .. }, _)), None) => {
                if *max_index != o.responses as u64 {
                    fault!(o, "end-index", format!("SyncEnd.max_index = {max_index} after {} responses", o.responses));
                }
            }
            (Ok((m, _)), _) => {
                fault!(o, "unexpected-message", format!("responder sent {m:?} in reply to a sync request"));
                break;
            }
            (Err(e), _) => mcx::machinery_error(&format!("wire mirror cannot read a real response: {e}")),
        }
        let Some(cmds) = got else {
            o.ended = true;
            if last_full {
                // the previous response was full and was followed only by the end message
            }
            break;
        };
        if last_full {
            o.full_responses += 1;
        }
        last_full = cmds.len() == COMMAND_RESPONSE_MAX;
        o.responses += 1;
        o.resp_sizes.push(cmds.len());
        // soundness: every delivered command is one the responder has committed, verbatim
        for c in cmds.iter() {
            match w.idx_of.get(&c.id()) {
                None => fault!(o, "foreign-command", format!("delivered command {} is not in the universe", c.id())),
                Some(&i) => {
                    let u = &w.cmds[i];
                    if !sb.has(i) {
                        fault!(o, "uncommitted-command", format!("delivered command {} is not committed on the responder", node_name(i)));
                    }
                    if c.parent() != u.prior || c.priority() != u.priority || c.bytes() != &u.data[..] || c.policy() != u.policy.as_deref() {
                        fault!(o, "altered-command", format!("delivered command {} differs from the committed one", node_name(i)));
                    }
                    o.delivered.push(i);
                }
            }
        }
        // ingest, in arrival order, into the session's transaction
        let t = trx.get_or_insert_with(|| a.r.client.transaction(graph));
        o.steps += 1;
        match a.r.client.add_commands(t, &mut a.r.sink, &cmds, &mut a.r.buffers, CountingSpill::new) {
            Ok(n) => o.added += n,
            Err(e) => {
                let names: Vec<String> = o.delivered.iter().map(|&i| node_name(i)).collect();
                fault!(
                    o,
                    &format!("add-commands-error:{}", client_err_class(&e)),
                    format!("add_commands of response #{} failed: {e}; delivered so far: {}", o.responses - 1, names.join(",")),
                );
            }
        }
        addrs.extend(cmds.iter().filter_map(|c| c.address().ok()));
        if cfg.mode == Mode::OneShot {
            break;
        }
    }

    if cfg.mode == Mode::Full {
        if o.ended {
            if responder.ready() {
                fault!(o, "responder-ready-after-end", "responder still ready after SyncEnd".into());
            }
            if requester.ready() {
                fault!(o, "requester-ready-after-end", "requester wants to send after a clean SyncEnd".into());
            }
        } else if o.faults.is_empty() {
            fault!(o, "no-end-message", format!("session stopped after {} polls without a SyncEnd", o.polls));
        }
        if trx.is_none() {
            // run_full_session opens the transaction before the loop and always commits it
            trx = Some(a.r.client.transaction(graph));
        }
    }

    if o.never_ended {
        // the real poll loop never returns: the transaction is never committed
        drop(trx.take());
    }
    if let Some(t) = trx {
        o.steps += 1;
        if let Err(e) = a.r.client.commit(t, &mut a.r.sink, &mut a.r.buffers, CountingSpill::new) {
            fault!(o, &format!("commit-error:{}", client_err_class(&e)), format!("commit after the session failed: {e}"));
        }
        if o.responses > 0 {
            o.steps += 1;
            if let Err(e) = a.r.client.update_heads(graph, addrs.iter().copied(), &mut a.cache, &mut a.r.buffers.traversal.primary) {
                fault!(o, &format!("update-heads-error:{}", client_err_class(&e)), format!("update_heads after the session failed: {e}"));
            }
        }
    }
    o
}
