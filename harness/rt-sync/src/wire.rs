//! Mirror of the (crate-private) postcard wire types of `aranya-runtime::sync`, used to READ
//! what the real responder wrote (response indexes, C17) and to BUILD valid encodings of every
//! message kind (C18). The mirror is never trusted blindly: `self_check` re-encodes real messages
//! produced by `SyncRequester::poll/subscribe/unsubscribe` and `SyncResponder::poll/push`
//! through the mirror and demands byte equality, and every mirror-built message must be accepted
//! by the real `SyncIncoming::decode` / `SyncRequester::receive` with the expected content.

use core::time::Duration;

use rtlib::rt::{Address, CmdId, GraphId, Prior, Priority};
use serde::{Deserialize, Serialize};

#[derive(Serialize, Deserialize, Debug, Clone, PartialEq)]
pub enum WReq {
    SyncRequest { session_id: u128, graph_id: GraphId, max_bytes: u64, commands: Vec<Address> },
    RequestMissing { session_id: u128, indexes: Vec<u64> },
    SyncResume { session_id: u128, response_index: u64, max_bytes: u64 },
    EndSession { session_id: u128 },
}

#[derive(Serialize, Deserialize, Debug, Clone, PartialEq)]
pub struct WMeta {
    pub id: CmdId,
    pub priority: Priority,
    pub parent: Prior<Address>,
    pub policy_length: u32,
    pub length: u32,
}

#[derive(Serialize, Deserialize, Debug, Clone, PartialEq)]
pub enum WResp {
    SyncResponse { session_id: u128, response_index: u64, commands: Vec<WMeta> },
    SyncEnd { session_id: u128, max_index: u64, remaining: bool },
    Offer { session_id: u128, head: CmdId },
    EndSession { session_id: u128 },
}

#[derive(Serialize, Deserialize, Debug, Clone, PartialEq)]
pub enum WHello {
    Subscribe { graph_id: GraphId, graph_change_delay: Duration, duration: Duration, schedule_delay: Duration },
    Unsubscribe { graph_id: GraphId },
    Hello { graph_id: GraphId, head: Address },
}

#[derive(Serialize, Deserialize, Debug, Clone, PartialEq)]
pub enum WType {
    Poll { request: WReq },
    Subscribe { remain_open: u64, max_bytes: u64, commands: Vec<Address>, graph_id: GraphId },
    Unsubscribe { graph_id: GraphId },
    Push { message: WResp, graph_id: GraphId },
    Hello(WHello),
}

#[derive(Serialize, Deserialize, Debug, Clone, PartialEq)]
pub enum WSubscribeResult {
    Success,
    TooManySubscriptions,
}

pub fn enc<T: Serialize>(v: &T) -> Vec<u8> {
    postcard::to_allocvec(v).expect("postcard encode of a mirror value")
}

/// Decode a response message written by the real responder; returns the message and the
/// offset where the command payload starts.
pub fn dec_resp(bytes: &[u8]) -> Result<(WResp, usize), String> {
    let (m, rest): (WResp, &[u8]) = postcard::take_from_bytes(bytes).map_err(|e| format!("mirror decode: {e}"))?;
    Ok((m, bytes.len() - rest.len()))
}

pub fn dec_type(bytes: &[u8]) -> Result<(WType, usize), String> {
    let (m, rest): (WType, &[u8]) = postcard::take_from_bytes(bytes).map_err(|e| format!("mirror decode: {e}"))?;
    Ok((m, bytes.len() - rest.len()))
}

// ---------------------------------------------------------------------------------------------
// Span-recording encoder: the same postcard bytes as `enc`, plus where every field lies, so the
// DESIGN 4.8 field-level corruptions (length fields, boundary moves, field swaps) can be applied.
// `Spans::of` checks byte equality with the serde encoding of the same value (machinery error
// otherwise), so the hand-written layout can never drift from the real one silently.

#[derive(Clone, Copy, Debug, PartialEq, Eq)]
pub enum FieldKind {
    /// enum discriminant (varint u32)
    Tag,
    /// unsigned integer (varint)
    Varint,
    /// sequence / byte-string length (varint)
    Len,
    /// raw bytes (id bytes, bool)
    Raw,
}

#[derive(Clone, Debug)]
pub struct Field {
    pub start: usize,
    pub end: usize,
    pub kind: FieldKind,
    pub name: String,
    /// numeric value for Tag/Varint/Len fields
    pub value: u128,
}

#[derive(Clone, Debug, Default)]
pub struct Spans {
    pub bytes: Vec<u8>,
    pub fields: Vec<Field>,
}

pub fn varint_bytes(mut v: u128) -> Vec<u8> {
    let mut out = Vec::new();
    loop {
        let b = (v & 0x7f) as u8;
        v >>= 7;
        if v == 0 {
            out.push(b);
            return out;
        }
        out.push(b | 0x80);
    }
}

impl Spans {
    fn num(&mut self, kind: FieldKind, name: &str, v: u128) {
        let start = self.bytes.len();
        self.bytes.extend(varint_bytes(v));
        self.fields.push(Field { start, end: self.bytes.len(), kind, name: name.to_string(), value: v });
    }
    fn raw(&mut self, name: &str, b: &[u8]) {
        let start = self.bytes.len();
        self.bytes.extend_from_slice(b);
        self.fields.push(Field { start, end: self.bytes.len(), kind: FieldKind::Raw, name: name.to_string(), value: 0 });
    }
    fn id(&mut self, name: &str, b: &[u8]) {
        self.num(FieldKind::Len, &format!("{name}.len"), b.len() as u128);
        self.raw(name, b);
    }
    fn addr(&mut self, name: &str, a: &Address) {
        self.id(&format!("{name}.id"), a.id.as_bytes());
        self.num(FieldKind::Varint, &format!("{name}.max_cut"), a.max_cut.get() as u128);
    }
    fn addrs(&mut self, name: &str, v: &[Address]) {
        self.num(FieldKind::Len, &format!("{name}.len"), v.len() as u128);
        for (i, a) in v.iter().enumerate() {
            self.addr(&format!("{name}[{i}]"), a);
        }
    }
    fn duration(&mut self, name: &str, d: &Duration) {
        self.num(FieldKind::Varint, &format!("{name}.secs"), d.as_secs() as u128);
        self.num(FieldKind::Varint, &format!("{name}.nanos"), d.subsec_nanos() as u128);
    }
    fn req(&mut self, r: &WReq) {
        match r {
            WReq::SyncRequest { session_id, graph_id, max_bytes, commands } => {
                self.num(FieldKind::Tag, "request.tag", 0);
                self.num(FieldKind::Varint, "session_id", *session_id);
                self.id("graph_id", graph_id.as_bytes());
                self.num(FieldKind::Varint, "max_bytes", *max_bytes as u128);
                self.addrs("commands", commands);
            }
            WReq::RequestMissing { session_id, indexes } => {
                self.num(FieldKind::Tag, "request.tag", 1);
                self.num(FieldKind::Varint, "session_id", *session_id);
                self.num(FieldKind::Len, "indexes.len", indexes.len() as u128);
                for (i, x) in indexes.iter().enumerate() {
                    self.num(FieldKind::Varint, &format!("indexes[{i}]"), *x as u128);
                }
            }
            WReq::SyncResume { session_id, response_index, max_bytes } => {
                self.num(FieldKind::Tag, "request.tag", 2);
                self.num(FieldKind::Varint, "session_id", *session_id);
                self.num(FieldKind::Varint, "response_index", *response_index as u128);
                self.num(FieldKind::Varint, "max_bytes", *max_bytes as u128);
            }
            WReq::EndSession { session_id } => {
                self.num(FieldKind::Tag, "request.tag", 3);
                self.num(FieldKind::Varint, "session_id", *session_id);
            }
        }
    }
    fn resp(&mut self, r: &WResp) {
        match r {
            WResp::SyncResponse { session_id, response_index, commands } => {
                self.num(FieldKind::Tag, "response.tag", 0);
                self.num(FieldKind::Varint, "session_id", *session_id);
                self.num(FieldKind::Varint, "response_index", *response_index as u128);
                self.num(FieldKind::Len, "commands.len", commands.len() as u128);
                for (i, m) in commands.iter().enumerate() {
                    let n = format!("commands[{i}]");
                    self.id(&format!("{n}.id"), m.id.as_bytes());
                    match &m.priority {
                        Priority::Merge => self.num(FieldKind::Tag, &format!("{n}.priority.tag"), 0),
                        Priority::Basic(p) => {
                            self.num(FieldKind::Tag, &format!("{n}.priority.tag"), 1);
                            self.num(FieldKind::Varint, &format!("{n}.priority.basic"), *p as u128);
                        }
                        Priority::Finalize => self.num(FieldKind::Tag, &format!("{n}.priority.tag"), 2),
                        Priority::Init => self.num(FieldKind::Tag, &format!("{n}.priority.tag"), 3),
                    }
                    match &m.parent {
                        Prior::None => self.num(FieldKind::Tag, &format!("{n}.parent.tag"), 0),
                        Prior::Single(a) => {
                            self.num(FieldKind::Tag, &format!("{n}.parent.tag"), 1);
                            self.addr(&format!("{n}.parent"), a);
                        }
                        Prior::Merge(a, b) => {
                            self.num(FieldKind::Tag, &format!("{n}.parent.tag"), 2);
                            self.addr(&format!("{n}.parent.left"), a);
                            self.addr(&format!("{n}.parent.right"), b);
                        }
                    }
                    self.num(FieldKind::Varint, &format!("{n}.policy_length"), m.policy_length as u128);
                    self.num(FieldKind::Varint, &format!("{n}.length"), m.length as u128);
                }
            }
            WResp::SyncEnd { session_id, max_index, remaining } => {
                self.num(FieldKind::Tag, "response.tag", 1);
                self.num(FieldKind::Varint, "session_id", *session_id);
                self.num(FieldKind::Varint, "max_index", *max_index as u128);
                self.raw("remaining", &[*remaining as u8]);
            }
            WResp::Offer { session_id, head } => {
                self.num(FieldKind::Tag, "response.tag", 2);
                self.num(FieldKind::Varint, "session_id", *session_id);
                self.id("head", head.as_bytes());
            }
            WResp::EndSession { session_id } => {
                self.num(FieldKind::Tag, "response.tag", 3);
                self.num(FieldKind::Varint, "session_id", *session_id);
            }
        }
    }
    fn ty(&mut self, t: &WType) {
        match t {
            WType::Poll { request } => {
                self.num(FieldKind::Tag, "type.tag", 0);
                self.req(request);
            }
            WType::Subscribe { remain_open, max_bytes, commands, graph_id } => {
                self.num(FieldKind::Tag, "type.tag", 1);
                self.num(FieldKind::Varint, "remain_open", *remain_open as u128);
                self.num(FieldKind::Varint, "max_bytes", *max_bytes as u128);
                self.addrs("commands", commands);
                self.id("graph_id", graph_id.as_bytes());
            }
            WType::Unsubscribe { graph_id } => {
                self.num(FieldKind::Tag, "type.tag", 2);
                self.id("graph_id", graph_id.as_bytes());
            }
            WType::Push { message, graph_id } => {
                self.num(FieldKind::Tag, "type.tag", 3);
                self.resp(message);
                self.id("graph_id", graph_id.as_bytes());
            }
            WType::Hello(h) => {
                self.num(FieldKind::Tag, "type.tag", 4);
                match h {
                    WHello::Subscribe { graph_id, graph_change_delay, duration, schedule_delay } => {
                        self.num(FieldKind::Tag, "hello.tag", 0);
                        self.id("graph_id", graph_id.as_bytes());
                        self.duration("graph_change_delay", graph_change_delay);
                        self.duration("duration", duration);
                        self.duration("schedule_delay", schedule_delay);
                    }
                    WHello::Unsubscribe { graph_id } => {
                        self.num(FieldKind::Tag, "hello.tag", 1);
                        self.id("graph_id", graph_id.as_bytes());
                    }
                    WHello::Hello { graph_id, head } => {
                        self.num(FieldKind::Tag, "hello.tag", 2);
                        self.id("graph_id", graph_id.as_bytes());
                        self.addr("head", head);
                    }
                }
            }
        }
    }

    /// Spans of a top-level `SyncType` message followed by `payload` (command bytes).
    pub fn of_type(t: &WType, payload: &[u8]) -> Spans {
        let mut s = Spans::default();
        s.ty(t);
        if s.bytes != enc(t) {
            mcx::machinery_error(&format!("span encoder disagrees with postcard for {t:?}"));
        }
        s.payload(payload);
        s
    }
    /// Spans of a bare response message (what `SyncRequester::receive` reads) followed by `payload`.
    pub fn of_resp(r: &WResp, payload: &[u8]) -> Spans {
        let mut s = Spans::default();
        s.resp(r);
        if s.bytes != enc(r) {
            mcx::machinery_error(&format!("span encoder disagrees with postcard for {r:?}"));
        }
        s.payload(payload);
        s
    }
    pub fn of_subscribe_result(r: &WSubscribeResult) -> Spans {
        let mut s = Spans::default();
        s.num(FieldKind::Tag, "result.tag", matches!(r, WSubscribeResult::TooManySubscriptions) as u128);
        if s.bytes != enc(r) {
            mcx::machinery_error("span encoder disagrees with postcard for SubscribeResult");
        }
        s
    }
    fn payload(&mut self, p: &[u8]) {
        if !p.is_empty() {
            self.raw("payload", p);
        }
    }
}
