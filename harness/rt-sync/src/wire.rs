//! Mirror of the (crate-private) postcard wire types of `aranya-runtime::sync`, used to READ
//! what the real responder wrote (response indexes, C17) and to BUILD valid encodings of every
//! message kind (C18). The mirror is never trusted blindly: `self_check` re-encodes real messages
//! produced by `SyncRequester::poll/subscribe/unsubscribe` and `SyncResponder::poll/push`
//! through the mirror and demands byte equality, and every mirror-built message must be accepted
//! by the real `SyncIncoming::decode` / `SyncRequester::receive` with the expected content.

use core::time::Duration;

use rtlib::rt::{Address, CmdId, GraphId, Prior, Priority};
use serde::{Deserialize, Serialize};

#[derive(Serialize, Deserialize, Debug, Clone, PartialEq)]
pub enum WReq {
    SyncRequest { session_id: u128, graph_id: GraphId, max_bytes: u64, commands: Vec<Address> },
    RequestMissing { session_id: u128, indexes: Vec<u64> },
    SyncResume { session_id: u128, response_index: u64, max_bytes: u64 },
    EndSession { session_id: u128 },
}

#[derive(Serialize, Deserialize, Debug, Clone, PartialEq)]
pub struct WMeta {
    pub id: CmdId,
    pub priority: Priority,
    pub parent: Prior<Address>,
    pub policy_length: u32,
    pub length: u32,
}

#[derive(Serialize, Deserialize, Debug, Clone, PartialEq)]
pub enum WResp {
    SyncResponse { session_id: u128, response_index: u64, commands: Vec<WMeta> },
    SyncEnd { session_id: u128, max_index: u64, remaining: bool },
    Offer { session_id: u128, head: CmdId },
    EndSession { session_id: u128 },
}

#[derive(Serialize, Deserialize, Debug, Clone, PartialEq)]
pub enum WHello {
    Subscribe { graph_id: GraphId, graph_change_delay: Duration, duration: Duration, schedule_delay: Duration },
    Unsubscribe { graph_id: GraphId },
    Hello { graph_id: GraphId, head: Address },
}

#[derive(Serialize, Deserialize, Debug, Clone, PartialEq)]
pub enum WType {
    Poll { request: WReq },
    Subscribe { remain_open: u64, max_bytes: u64, commands: Vec<Address>, graph_id: GraphId },
    Unsubscribe { graph_id: GraphId },
    Push { message: WResp, graph_id: GraphId },
    Hello(WHello),
}

#[derive(Serialize, Deserialize, Debug, Clone, PartialEq)]
pub enum WSubscribeResult {
    Success,
    TooManySubscriptions,
}

pub fn enc<T: Serialize>(v: &T) -> Vec<u8> {
    postcard::to_allocvec(v).expect("postcard encode of a mirror value")
}

/// Decode a response message written by the real responder; returns the message and the
/// offset where the command payload starts.
pub fn dec_resp(bytes: &[u8]) -> Result<(WResp, usize), String> {
    let (m, rest): (WResp, &[u8]) = postcard::take_from_bytes(bytes).map_err(|e| format!("mirror decode: {e}"))?;
    Ok((m, bytes.len() - rest.len()))
}

pub fn dec_type(bytes: &[u8]) -> Result<(WType, usize), String> {
    let (m, rest): (WType, &[u8]) = postcard::take_from_bytes(bytes).map_err(|e| format!("mirror decode: {e}"))?;
    Ok((m, bytes.len() - rest.len()))
}
