//! Universes (DESIGN.md 4.1), node sets, structured grid families, replica builders.
//!
//! The universe enumeration is a copy of rt-graph/src/universe.rs reduced to what sync needs
//! (priorities and id ranks matter because they decide head order, sample order and the braid
//! the converged replicas are compared on; finalize commands do not matter to the protocol).

use std::collections::HashMap;

use rtlib::{
    dag::{is_canonical_shape, shapes, Cmd, Dag, Kind, MergeRank, Node, Op},
    replica::{graph_id_of, MemReplica},
    rt::{CmdId, GraphId},
};

/// Growable bit set over node indices (the grids exceed 128 nodes).
#[derive(Clone, Debug, PartialEq, Eq, Hash, PartialOrd, Ord, Default)]
pub struct NodeSet(pub Vec<u64>);

impl NodeSet {
    pub fn empty(n: usize) -> Self {
        NodeSet(vec![0; n.div_ceil(64).max(1)])
    }
    pub fn from_mask(n: usize, mask: u64) -> Self {
        let mut s = Self::empty(n);
        s.0[0] = mask;
        s
    }
    pub fn from_iter(n: usize, it: impl IntoIterator<Item = usize>) -> Self {
        let mut s = Self::empty(n);
        for i in it {
            s.insert(i);
        }
        s
    }
    pub fn insert(&mut self, i: usize) {
        self.0[i / 64] |= 1 << (i % 64);
    }
    pub fn has(&self, i: usize) -> bool {
        self.0.get(i / 64).is_some_and(|w| w >> (i % 64) & 1 == 1)
    }
    pub fn count(&self) -> usize {
        self.0.iter().map(|w| w.count_ones() as usize).sum()
    }
    pub fn is_empty(&self) -> bool {
        self.0.iter().all(|w| *w == 0)
    }
    pub fn subset_of(&self, o: &NodeSet) -> bool {
        self.0.iter().zip(&o.0).all(|(a, b)| a & !b == 0)
    }
    pub fn union(&self, o: &NodeSet) -> NodeSet {
        NodeSet(self.0.iter().zip(&o.0).map(|(a, b)| a | b).collect())
    }
    pub fn minus(&self, o: &NodeSet) -> NodeSet {
        NodeSet(self.0.iter().zip(&o.0).map(|(a, b)| a & !b).collect())
    }
    pub fn iter(&self) -> impl Iterator<Item = usize> + '_ {
        self.0.iter().enumerate().flat_map(|(w, &bits)| (0..64).filter(move |b| bits >> b & 1 == 1).map(move |b| w * 64 + b))
    }
    /// Compact rendering: node names for small universes, a count + hash for big ones.
    pub fn show(&self) -> String {
        if self.count() <= 12 {
            let v: Vec<String> = self.iter().map(rtlib::dag::node_name).collect();
            format!("{{{}}}", v.join(""))
        } else {
            format!("{{{} nodes #{:08x}}}", self.count(), mcx::fnv64(&self.0.iter().flat_map(|w| w.to_le_bytes()).collect::<Vec<u8>>()) as u32)
        }
    }
}

/// One universe with everything the checks look up repeatedly.
pub struct World {
    pub dag: Dag,
    pub cmds: Vec<Cmd>,
    pub ids: Vec<CmdId>,
    pub max_cuts: Vec<u64>,
    pub idx_of: HashMap<CmdId, usize>,
    /// strict ancestors
    pub anc: Vec<NodeSet>,
    pub graph: GraphId,
    /// short stable label used in violation keys
    pub label: String,
}

impl World {
    pub fn new(dag: Dag, label: String) -> Self {
        let cmds = dag.cmds();
        let ids = dag.ids();
        let max_cuts = dag.max_cuts();
        let idx_of = ids.iter().enumerate().map(|(i, id)| (*id, i)).collect();
        let n = dag.len();
        let mut anc: Vec<NodeSet> = Vec::with_capacity(n);
        for node in &dag.nodes {
            let mut m = NodeSet::empty(n);
            for &p in &node.parents {
                m = m.union(&anc[p]);
                m.insert(p);
            }
            anc.push(m);
        }
        let graph = graph_id_of(ids[0]);
        World { dag, cmds, ids, max_cuts, idx_of, anc, graph, label }
    }
    pub fn n(&self) -> usize {
        self.dag.len()
    }
    pub fn full(&self) -> NodeSet {
        NodeSet::from_iter(self.n(), 0..self.n())
    }
    pub fn is_down_closed(&self, s: &NodeSet) -> bool {
        s.iter().all(|i| self.anc[i].subset_of(s))
    }
    pub fn frontier(&self, s: &NodeSet) -> Vec<usize> {
        let mut covered = NodeSet::empty(self.n());
        for i in s.iter() {
            covered = covered.union(&self.anc[i]);
        }
        s.iter().filter(|&i| !covered.has(i)).collect()
    }
    pub fn comparable(&self, a: usize, b: usize) -> bool {
        a == b || self.anc[a].has(b) || self.anc[b].has(a)
    }
    /// All non-empty down-closed subsets (n ≤ 20).
    pub fn down_closed_subsets(&self) -> Vec<NodeSet> {
        let n = self.n();
        assert!(n <= 20);
        let mut out = Vec::new();
        for m in 1u64..(1 << n) {
            if m & 1 == 0 {
                continue;
            }
            let s = NodeSet::from_mask(n, m);
            if self.is_down_closed(&s) {
                out.push(s);
            }
        }
        out
    }
}

pub const RANK_INIT: u8 = 0x08;

/// Rank vectors for the `k` non-init, non-merge nodes (copy of rt-graph's scheme).
pub fn rank_vectors(k: usize, full: bool) -> Vec<Vec<u8>> {
    let base: Vec<u8> = (0..k).map(|i| 0x10 + 0x10 * i as u8).collect();
    let mut out = Vec::new();
    if full {
        mcx::enumerate::permutations(k, |p| out.push(p.iter().map(|&i| base[i]).collect()));
    } else {
        let asc: Vec<u8> = base.clone();
        let desc: Vec<u8> = base.iter().rev().copied().collect();
        let mut inter = Vec::new();
        let (mut lo, mut hi) = (0usize, k);
        while lo < hi {
            inter.push(base[lo]);
            lo += 1;
            if lo < hi {
                hi -= 1;
                inter.push(base[hi]);
            }
        }
        let mut set = std::collections::BTreeSet::new();
        for v in [asc, desc, inter] {
            set.insert(v.clone());
            for i in 0..k.saturating_sub(1) {
                let mut w = v.clone();
                w.swap(i, i + 1);
                set.insert(w);
            }
        }
        out.extend(set);
    }
    out
}

#[derive(Clone, Debug)]
pub struct UniverseOpts {
    pub n_min: usize,
    pub n_max: usize,
    /// priorities available to Basic nodes for universes with at most `prio_upto` nodes
    /// (bigger ones use priority 0 only)
    pub prios: Vec<u32>,
    pub prio_upto: usize,
    /// all rank permutations if n ≤ this, else the reduced scheme set
    pub full_rank_perms_upto: usize,
    pub merge_ranks: Vec<MergeRank>,
}

/// Every universe of the options, as `(label, dag)`.
pub fn universes(opts: &UniverseOpts) -> Vec<(String, Dag)> {
    let mut out = Vec::new();
    for n in opts.n_min..=opts.n_max {
        let mut shape_list: Vec<Vec<Vec<usize>>> = Vec::new();
        shapes(n, true, |p| {
            if is_canonical_shape(p) {
                shape_list.push(p.to_vec());
            }
        });
        for (si, parents) in shape_list.iter().enumerate() {
            let singles: Vec<usize> = (1..n).filter(|&i| parents[i].len() == 1).collect();
            let has_merge = parents.iter().any(|p| p.len() == 2);
            let prios: &[u32] = if n <= opts.prio_upto { &opts.prios } else { &opts.prios[..1] };
            let ranks = rank_vectors(singles.len(), n <= opts.full_rank_perms_upto);
            let merge_ranks: &[MergeRank] = if has_merge { &opts.merge_ranks } else { &opts.merge_ranks[..1] };
            mcx::enumerate::sequences(prios.len(), singles.len(), |ks| {
                for (ri, rv) in ranks.iter().enumerate() {
                    for &mr in merge_ranks {
                        let mut nodes = Vec::with_capacity(n);
                        let mut k = 0;
                        for (i, ps) in parents.iter().enumerate() {
                            let node = if i == 0 {
                                Node { kind: Kind::Init, parents: vec![], rank: RANK_INIT, prog: vec![Op::Append] }
                            } else if ps.len() == 2 {
                                Node { kind: Kind::Merge, parents: ps.clone(), rank: 0, prog: vec![] }
                            } else {
                                let nd = Node { kind: Kind::Basic(prios[ks[k]]), parents: ps.clone(), rank: rv[k], prog: vec![Op::Append] };
                                k += 1;
                                nd
                            };
                            nodes.push(node);
                        }
                        let label = format!("n{n}s{si}p{}r{ri}m{}", ks.iter().map(|k| k.to_string()).collect::<String>(), match mr {
                            MergeRank::Low => 'l',
                            MergeRank::High => 'h',
                            MergeRank::Hash => 'x',
                        });
                        out.push((label, Dag { nodes, merge_rank: mr }));
                    }
                }
            });
        }
    }
    out
}

/// `k` branches of length `len` hanging off the init command (k = 1: a chain). Node order is
/// branch by branch. Rank bytes make id order differ from creation order (odd branches sort
/// before even ones), so the head-set order is not the creation order.
pub fn fan(k: usize, len: usize) -> Dag {
    let mut nodes = vec![Node { kind: Kind::Init, parents: vec![], rank: RANK_INIT, prog: vec![Op::Append] }];
    for b in 0..k {
        let rank = if b % 2 == 1 { 0x20 } else { 0x60 };
        for j in 0..len {
            let parent = if j == 0 { 0 } else { nodes.len() - 1 };
            nodes.push(Node { kind: Kind::Basic((b % 2) as u32), parents: vec![parent], rank, prog: vec![Op::Append] });
        }
    }
    Dag { nodes, merge_rank: MergeRank::Low }
}

/// Node index of command `j` (0-based) on branch `b` of `fan(k, len)`.
pub fn fan_node(len: usize, b: usize, j: usize) -> usize {
    1 + b * len + j
}

/// How a replica's committed graph is laid out in segments.
#[derive(Clone, Copy, Debug, PartialEq, Eq, Hash, PartialOrd, Ord)]
pub enum Layout {
    /// one transaction, one `add_commands` call in node order (segments as long as the shape allows)
    Coarse,
    /// one transaction + commit per command (every command its own segment)
    Fine,
    /// one transaction; `flush` after every `s` commands (segments of at most `s` commands)
    Chunk(usize),
}

impl Layout {
    pub fn tag(&self) -> String {
        match self {
            Layout::Coarse => "coarse".into(),
            Layout::Fine => "fine".into(),
            Layout::Chunk(s) => format!("chunk{s}"),
        }
    }
}

/// A fresh replica whose committed graph is exactly `set` (down-closed); the empty set gives a
/// replica without the graph.
pub fn build(w: &World, set: &NodeSet, layout: Layout) -> Result<MemReplica, String> {
    let mut r = MemReplica::new_mem(w.graph);
    if set.is_empty() {
        return Ok(r);
    }
    let order: Vec<usize> = set.iter().collect();
    match layout {
        Layout::Coarse => {
            let batch: Vec<Cmd> = order.iter().map(|&i| w.cmds[i].clone()).collect();
            let mut trx = r.trx();
            r.add(&mut trx, &batch).map_err(|e| format!("build add: {e}"))?;
            r.commit(trx).map_err(|e| format!("build commit: {e}"))?;
        }
        Layout::Fine => {
            for &i in &order {
                let mut trx = r.trx();
                r.add(&mut trx, std::slice::from_ref(&w.cmds[i])).map_err(|e| format!("build add: {e}"))?;
                r.commit(trx).map_err(|e| format!("build commit: {e}"))?;
            }
        }
        Layout::Chunk(s) => {
            let mut trx = r.trx();
            for chunk in order.chunks(s.max(1)) {
                let batch: Vec<Cmd> = chunk.iter().map(|&i| w.cmds[i].clone()).collect();
                r.add(&mut trx, &batch).map_err(|e| format!("build add: {e}"))?;
                r.flush(&mut trx).map_err(|e| format!("build flush: {e}"))?;
            }
            r.commit(trx).map_err(|e| format!("build commit: {e}"))?;
        }
    }
    Ok(r)
}

/// A fresh replica built from explicit ingest batches: one transaction, `add_commands` per batch
/// followed by `flush`, one commit at the end (segment boundaries = batch boundaries and branch
/// switches inside a batch).
pub fn build_batches(w: &World, batches: &[Vec<usize>]) -> Result<MemReplica, String> {
    let mut r = MemReplica::new_mem(w.graph);
    if batches.iter().all(|b| b.is_empty()) {
        return Ok(r);
    }
    let mut trx = r.trx();
    for b in batches {
        if b.is_empty() {
            continue;
        }
        let batch: Vec<Cmd> = b.iter().map(|&i| w.cmds[i].clone()).collect();
        r.add(&mut trx, &batch).map_err(|e| format!("build add: {e}"))?;
        r.flush(&mut trx).map_err(|e| format!("build flush: {e}"))?;
    }
    r.commit(trx).map_err(|e| format!("build commit: {e}"))?;
    Ok(r)
}

/// Committed node set of a replica (empty when the graph is absent): a graph walk from the
/// committed heads through `Storage::get_segment` (no fact dump, no hello head).
pub fn committed(w: &World, r: &mut MemReplica) -> Result<NodeSet, String> {
    use rtlib::rt::{Storage as _, StorageProvider as _};
    let Ok(storage) = r.client.provider().get_storage(w.graph) else {
        return Ok(NodeSet::empty(w.n()));
    };
    let heads: Vec<_> = storage.get_heads().map_err(|e| format!("get_heads: {e}"))?.iter().map(|h| h.location()).collect();
    let cmds = rtlib::replica::walk(&*storage, heads.into_iter())?;
    let mut s = NodeSet::empty(w.n());
    for (id, sc) in &cmds {
        let Some(&i) = w.idx_of.get(id) else {
            return Err(format!("stored command {id} is not a command of the universe"));
        };
        if sc.bytes != w.cmds[i].data || sc.max_cut != w.max_cuts[i] {
            return Err(format!("stored command {} differs from the universe's command", rtlib::dag::node_name(i)));
        }
        s.insert(i);
    }
    Ok(s)
}
