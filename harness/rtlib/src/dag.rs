//! Command-DAG universes (DESIGN.md 4.1).
//!
//! Node 0 is the init command; every other node is `Basic(prio)` / `Finalize` with one earlier
//! parent, or `Merge(l, r)` of two earlier nodes. Ids are crafted: byte 0 is a scenario-chosen
//! rank so that id order (braid tie-breaks, head-set order, fold pairing) is enumerated.

use aranya_runtime::{Address, CmdId, MaxCut, Prior, Priority};

#[derive(Clone, Copy, Debug, PartialEq, Eq, Hash, PartialOrd, Ord)]
pub enum Kind {
    Init,
    Basic(u32),
    Finalize,
    Merge,
}

/// One statement of a command's tiny program (interpreted by `policy::AuditPolicy::call_rule`
/// and, identically, by `refmodel::apply`).
#[derive(Clone, Copy, Debug, PartialEq, Eq, Hash, PartialOrd, Ord)]
pub enum Op {
    /// `seq[] := seq[] ++ ":" ++ name`
    Append,
    /// `kv[k] := v`
    Put(u8, u8),
    /// delete `kv[k]`
    Del(u8),
    /// clean reject unless `kv[k]` exists
    Require(u8),
    /// clean reject if `kv[k]` exists
    RequireAbsent(u8),
    /// write `kv[0xfe] := name`, `seq` append, then fail: 0 = Rejected, 1 = Panic, 2 = InternalError
    WriteThenFail(u8),
    /// emit effect `name:e`
    Emit(u8),
    /// `kk[KEYS[i]] := v` — compound keys that are prefixes of one another
    PutK(u8, u8),
    /// delete `kk[KEYS[i]]`
    DelK(u8),
    /// Marker (no effect in the rule): the command is sent with a WRONG parent max cut (right parent
    /// id). A replica must refuse it without any trace.
    BadParentCut,
}

/// Compound-key alphabet for the `kk` fact (prefixes of one another, empty components).
pub fn key_alpha() -> Vec<Vec<Vec<u8>>> {
    vec![
        vec![],
        vec![b"".to_vec()],
        vec![b"a".to_vec()],
        vec![b"a".to_vec(), b"".to_vec()],
        vec![b"a".to_vec(), b"a".to_vec()],
        vec![b"ab".to_vec()],
        vec![b"a".to_vec(), b"ab".to_vec()],
    ]
}

impl Op {
    pub fn encode(&self, out: &mut Vec<u8>) {
        match *self {
            Op::Append => out.push(1),
            Op::Put(k, v) => out.extend([2, k, v]),
            Op::Del(k) => out.extend([3, k]),
            Op::Require(k) => out.extend([4, k]),
            Op::RequireAbsent(k) => out.extend([5, k]),
            Op::WriteThenFail(f) => out.extend([6, f]),
            Op::Emit(e) => out.extend([7, e]),
            Op::PutK(k, v) => out.extend([8, k, v]),
            Op::DelK(k) => out.extend([9, k]),
            Op::BadParentCut => out.push(10),
        }
    }
    pub fn decode_all(mut b: &[u8]) -> Option<Vec<Op>> {
        let mut v = Vec::new();
        while let Some((&t, rest)) = b.split_first() {
            let (op, n) = match t {
                1 => (Op::Append, 0),
                2 => (Op::Put(*rest.first()?, *rest.get(1)?), 2),
                3 => (Op::Del(*rest.first()?), 1),
                4 => (Op::Require(*rest.first()?), 1),
                5 => (Op::RequireAbsent(*rest.first()?), 1),
                6 => (Op::WriteThenFail(*rest.first()?), 1),
                7 => (Op::Emit(*rest.first()?), 1),
                8 => (Op::PutK(*rest.first()?, *rest.get(1)?), 2),
                9 => (Op::DelK(*rest.first()?), 1),
                10 => (Op::BadParentCut, 0),
                _ => return None,
            };
            v.push(op);
            b = &rest[n..];
        }
        Some(v)
    }
}

#[derive(Clone, Debug, PartialEq, Eq, Hash)]
pub struct Node {
    pub kind: Kind,
    /// 0, 1 or 2 indices of earlier nodes.
    pub parents: Vec<usize>,
    /// First byte of the id for non-merge nodes.
    pub rank: u8,
    pub prog: Vec<Op>,
}

#[derive(Clone, Copy, Debug, PartialEq, Eq, Hash)]
pub enum MergeRank {
    /// rank byte 0x01: merges sort before every other command id
    Low,
    /// rank byte 0xf0: merges sort after every other command id
    High,
    /// rank byte taken from a hash of the parents
    Hash,
}

#[derive(Clone, Debug, PartialEq, Eq, Hash)]
pub struct Dag {
    pub nodes: Vec<Node>,
    pub merge_rank: MergeRank,
}

/// Payload of a command: `[name_len, name…, ops…]`.
pub fn encode_payload(name: &str, prog: &[Op]) -> Vec<u8> {
    let mut v = vec![name.len() as u8];
    v.extend(name.as_bytes());
    for op in prog {
        op.encode(&mut v);
    }
    v
}
pub fn decode_payload(b: &[u8]) -> Option<(String, Vec<Op>)> {
    let (&n, rest) = b.split_first()?;
    let n = n as usize;
    if rest.len() < n {
        return None;
    }
    let name = String::from_utf8(rest[..n].to_vec()).ok()?;
    Some((name, Op::decode_all(&rest[n..])?))
}

pub fn node_name(i: usize) -> String {
    // a, b, c … then n<idx>
    if i < 26 {
        ((b'a' + i as u8) as char).to_string()
    } else {
        format!("n{i}")
    }
}

pub fn basic_id(rank: u8, idx: usize) -> CmdId {
    let mut b = [0u8; 32];
    b[0] = rank;
    b[1] = 0x11;
    b[2..10].copy_from_slice(&(idx as u64).to_be_bytes());
    CmdId::from_bytes(b)
}

/// Deterministic merge id: a function of the ordered parent ids only (what `Policy::merge` can see).
pub fn merge_id(mode: MergeRank, left: CmdId, right: CmdId) -> CmdId {
    let mut buf = Vec::with_capacity(64);
    buf.extend(left.as_bytes());
    buf.extend(right.as_bytes());
    let h1 = mcx::fnv64(&buf);
    buf.push(0x5a);
    let h2 = mcx::fnv64(&buf);
    let mut b = [0u8; 32];
    b[0] = match mode {
        MergeRank::Low => 0x01,
        MergeRank::High => 0xf0,
        MergeRank::Hash => (h1 >> 56) as u8,
    };
    b[1] = 0xee;
    b[2..10].copy_from_slice(&h1.to_be_bytes());
    b[10..18].copy_from_slice(&h2.to_be_bytes());
    CmdId::from_bytes(b)
}

/// An owned command (what travels between replicas).
#[derive(Clone, Debug, PartialEq, Eq)]
pub struct Cmd {
    pub id: CmdId,
    pub prior: Prior<Address>,
    pub priority: Priority,
    pub policy: Option<Vec<u8>>,
    pub data: Vec<u8>,
}

impl aranya_runtime::Command for Cmd {
    fn priority(&self) -> Priority {
        self.priority.clone()
    }
    fn id(&self) -> CmdId {
        self.id
    }
    fn parent(&self) -> Prior<Address> {
        self.prior
    }
    fn policy(&self) -> Option<&[u8]> {
        self.policy.as_deref()
    }
    fn bytes(&self) -> &[u8] {
        &self.data
    }
}

pub const MERGE_PAYLOAD: &[u8] = b"\x01M";

pub fn make_merge_cmd(mode: MergeRank, a: Address, b: Address) -> Cmd {
    let (l, r) = if a.id < b.id { (a, b) } else { (b, a) };
    Cmd {
        id: merge_id(mode, l.id, r.id),
        prior: Prior::Merge(l, r),
        priority: Priority::Merge,
        policy: None,
        data: MERGE_PAYLOAD.to_vec(),
    }
}

impl Dag {
    pub fn len(&self) -> usize {
        self.nodes.len()
    }
    pub fn is_empty(&self) -> bool {
        self.nodes.is_empty()
    }

    pub fn ids(&self) -> Vec<CmdId> {
        let mut ids: Vec<CmdId> = Vec::with_capacity(self.len());
        for (i, n) in self.nodes.iter().enumerate() {
            let id = match n.kind {
                Kind::Merge => {
                    let (a, b) = (ids[n.parents[0]], ids[n.parents[1]]);
                    let (l, r) = if a < b { (a, b) } else { (b, a) };
                    merge_id(self.merge_rank, l, r)
                }
                _ => basic_id(n.rank, i),
            };
            ids.push(id);
        }
        ids
    }

    pub fn max_cuts(&self) -> Vec<u64> {
        let mut mc = Vec::with_capacity(self.len());
        for n in &self.nodes {
            mc.push(n.parents.iter().map(|&p| mc[p] + 1).max().unwrap_or(0));
        }
        mc
    }

    /// Ancestor bitmasks (strict ancestors). Requires ≤ 128 nodes.
    pub fn ancestors(&self) -> Vec<u128> {
        assert!(self.len() <= 128);
        let mut a: Vec<u128> = Vec::with_capacity(self.len());
        for n in &self.nodes {
            let mut m = 0u128;
            for &p in &n.parents {
                m |= a[p] | (1u128 << p);
            }
            a.push(m);
        }
        a
    }

    /// The commands of the universe, in node order.
    pub fn cmds(&self) -> Vec<Cmd> {
        let ids = self.ids();
        let mc = self.max_cuts();
        let addr = |i: usize| Address { id: ids[i], max_cut: MaxCut::new(mc[i]) };
        self.nodes
            .iter()
            .enumerate()
            .map(|(i, n)| match n.kind {
                Kind::Init => Cmd {
                    id: ids[i],
                    prior: Prior::None,
                    priority: Priority::Init,
                    policy: Some(vec![match self.merge_rank {
                        MergeRank::Low => 0,
                        MergeRank::High => 1,
                        MergeRank::Hash => 2,
                    }]),
                    data: encode_payload(&node_name(i), &n.prog),
                },
                Kind::Basic(p) => Cmd {
                    id: ids[i],
                    prior: if n.prog.contains(&Op::BadParentCut) {
                        let a = addr(n.parents[0]);
                        Prior::Single(Address { id: a.id, max_cut: MaxCut::new(a.max_cut.get() + 5) })
                    } else {
                        Prior::Single(addr(n.parents[0]))
                    },
                    priority: Priority::Basic(p),
                    policy: None,
                    data: encode_payload(&node_name(i), &n.prog),
                },
                Kind::Finalize => Cmd {
                    id: ids[i],
                    prior: Prior::Single(addr(n.parents[0])),
                    priority: Priority::Finalize,
                    policy: None,
                    data: encode_payload(&node_name(i), &n.prog),
                },
                Kind::Merge => {
                    let c = make_merge_cmd(self.merge_rank, addr(n.parents[0]), addr(n.parents[1]));
                    debug_assert_eq!(c.id, ids[i]);
                    c
                }
            })
            .collect()
    }

    /// Maximal elements of a node set given as a mask.
    pub fn frontier(&self, set: u128) -> Vec<usize> {
        let anc = self.ancestors();
        let mut covered = 0u128;
        for i in 0..self.len() {
            if set >> i & 1 == 1 {
                covered |= anc[i];
            }
        }
        (0..self.len()).filter(|&i| set >> i & 1 == 1 && covered >> i & 1 == 0).collect()
    }

    pub fn full_mask(&self) -> u128 {
        if self.len() == 128 {
            u128::MAX
        } else {
            (1u128 << self.len()) - 1
        }
    }

    pub fn describe(&self) -> String {
        let ids = self.ids();
        let mut s = String::new();
        for (i, n) in self.nodes.iter().enumerate() {
            use std::fmt::Write;
            let ps: Vec<String> = n.parents.iter().map(|&p| node_name(p)).collect();
            let _ = write!(
                s,
                "{}{}:{:?}<{}>#{:02x}{} ",
                if i > 0 { "" } else { "" },
                node_name(i),
                n.kind,
                ps.join(","),
                ids[i].as_bytes()[0],
                if n.prog == [Op::Append] { String::new() } else { format!("{:?}", n.prog) }
            );
        }
        s.push_str(&format!("merge_rank={:?}", self.merge_rank));
        s
    }
}

/// Enumerate all creation-ordered DAG *shapes* with exactly `n` nodes: node i > 0 is either a
/// single-parent node (any earlier parent) or a merge of two incomparable earlier nodes that are
/// not already merged by an existing node with the same parents. `f` receives parent lists.
pub fn shapes(n: usize, allow_merges: bool, mut f: impl FnMut(&[Vec<usize>])) {
    fn rec(n: usize, allow_merges: bool, parents: &mut Vec<Vec<usize>>, anc: &mut Vec<u128>, f: &mut dyn FnMut(&[Vec<usize>])) {
        let i = parents.len();
        if i == n {
            f(parents);
            return;
        }
        for p in 0..i {
            // a merge command has exactly one kind of child like any other; single-parent child:
            parents.push(vec![p]);
            anc.push(anc[p] | 1 << p);
            rec(n, allow_merges, parents, anc, f);
            parents.pop();
            anc.pop();
        }
        if allow_merges {
            for l in 0..i {
                for r in l + 1..i {
                    let comparable = anc[r] >> l & 1 == 1 || anc[l] >> r & 1 == 1;
                    if comparable {
                        continue;
                    }
                    if parents.iter().any(|ps| ps.len() == 2 && ps[0] == l && ps[1] == r) {
                        continue; // the merge of (l, r) is a deterministic command: exists once
                    }
                    parents.push(vec![l, r]);
                    anc.push(anc[l] | anc[r] | 1 << l | 1 << r);
                    rec(n, allow_merges, parents, anc, f);
                    parents.pop();
                    anc.pop();
                }
            }
        }
    }
    if n == 0 {
        return;
    }
    let mut parents = vec![vec![]];
    let mut anc = vec![0u128];
    rec(n, allow_merges, &mut parents, &mut anc, &mut f);
}

/// Is `parents` (a shape) canonical under relabelling of creation order? Two creation orders of
/// the same abstract DAG are both linear extensions; we keep the shape only if its parent-list
/// sequence is the lexicographically least among all linear extensions. Cheap for n ≤ 8.
pub fn is_canonical_shape(parents: &[Vec<usize>]) -> bool {
    let n = parents.len();
    let mut least = true;
    let me: Vec<Vec<usize>> = parents.to_vec();
    mcx::enumerate::linear_extensions(parents, |order| {
        if !least {
            return;
        }
        // relabel: new index of old node order[k] is k
        let mut new_of = vec![0usize; n];
        for (k, &o) in order.iter().enumerate() {
            new_of[o] = k;
        }
        let relabeled: Vec<Vec<usize>> = order
            .iter()
            .map(|&o| {
                let mut ps: Vec<usize> = parents[o].iter().map(|&p| new_of[p]).collect();
                ps.sort();
                ps
            })
            .collect();
        if relabeled < me {
            least = false;
        }
    });
    least
}
