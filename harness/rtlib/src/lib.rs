//! rtlib — shared pieces for the aranya-runtime checkers (DESIGN.md 4.1–4.4):
//! command-DAG universes, the AuditPolicy instrument, the storage-independent reference model,
//! and a replica driver with canonical observations.

pub mod dag;
pub mod policy;
pub mod refmodel;
pub mod replica;

pub use aranya_runtime as rt;
