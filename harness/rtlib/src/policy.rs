//! AuditPolicy — the instrument (DESIGN.md 4.2). A `Policy`/`PolicyStore` implemented in the
//! harness; command payloads are tiny programs over the fact API; every rule application is
//! logged so that application order, multiplicity and base state are observable.

use std::{cell::RefCell, rc::Rc};

use aranya_runtime::{
    ActionPlacement, Address, Command, CommandPlacement, FactPerspective, Keys, MaxCut, MergeIds, Perspective, Policy,
    PolicyError, PolicyId, PolicyStore, Prior, Priority, Sink,
};

use crate::dag::{basic_id, decode_payload, encode_payload, make_merge_cmd, Cmd, MergeRank, Op};

#[derive(Clone, Copy, Debug, PartialEq, Eq, Hash, PartialOrd, Ord)]
pub enum Place {
    Origin,
    Braid,
    OffGraph,
}

#[derive(Clone, Debug, PartialEq, Eq)]
pub struct RuleCall {
    pub name: String,
    pub place: Place,
    pub is_merge: bool,
    /// 0 ok, 1 rejected, 2 panic, 3 internal
    pub outcome: u8,
}

pub type FactDump = Vec<(String, Vec<Vec<u8>>, Vec<u8>)>;

#[derive(Default, Debug)]
pub struct AuditLog {
    pub rule_calls: Vec<RuleCall>,
    /// fact views recorded at the start of each `call_action`
    pub action_views: Vec<FactDump>,
    /// parent address seen by each `call_action`
    pub action_parents: Vec<Option<Address>>,
    /// rich views (all exact/prefix queries) recorded at the start of each `call_action`
    pub rich_views: Vec<Vec<(String, String)>>,
    pub merge_calls: u64,
}

/// One command to publish from an action.
#[derive(Clone, Debug, PartialEq, Eq, Hash)]
pub struct Publish {
    pub rank: u8,
    pub idx: usize,
    pub name: String,
    pub finalize: bool,
    pub prio: u32,
    pub prog: Vec<Op>,
}

#[derive(Clone, Debug, Default, PartialEq, Eq, Hash)]
pub struct ActionScript {
    pub publish: Vec<Publish>,
    /// After publishing this many commands, fail with kind (0 = Rejected, 1 = Panic, 2 = InternalError).
    pub fail_after: Option<(usize, u8)>,
    /// Writes performed directly by the action before publishing (sessions use this).
    pub direct: Vec<Op>,
    /// record a rich view (every exact and prefix query) at the start
    pub probe: bool,
}

pub struct AuditPolicy {
    pub merge_rank: MergeRank,
    pub log: Rc<RefCell<AuditLog>>,
}

/// The log is shared with the harness (`ClientState` does not expose its policy store).
pub struct AuditStore {
    pub policies: Vec<AuditPolicy>,
    pub log: Rc<RefCell<AuditLog>>,
}

impl AuditStore {
    pub fn new() -> Self {
        AuditStore { policies: Vec::new(), log: Rc::default() }
    }
    pub fn shared_log(&self) -> Rc<RefCell<AuditLog>> {
        self.log.clone()
    }
}

impl Default for AuditStore {
    fn default() -> Self {
        Self::new()
    }
}

impl PolicyStore for AuditStore {
    type Policy = AuditPolicy;
    type Effect = String;

    fn add_policy(&mut self, policy: &[u8]) -> Result<PolicyId, PolicyError> {
        let merge_rank = match policy.first() {
            Some(0) => MergeRank::Low,
            Some(1) => MergeRank::High,
            Some(2) => MergeRank::Hash,
            _ => return Err(PolicyError::Read),
        };
        if self.policies.is_empty() {
            self.policies.push(AuditPolicy { merge_rank, log: self.log.clone() });
        }
        Ok(PolicyId::new(0))
    }

    fn get_policy(&self, _id: PolicyId) -> Result<&Self::Policy, PolicyError> {
        self.policies.first().ok_or(PolicyError::Read)
    }
}

fn kv_key(k: u8) -> Keys {
    Keys::from_iter([vec![k].into_boxed_slice()])
}

/// Sorted dump of every fact of the names the AuditPolicy uses.
pub fn dump_facts(q: &impl aranya_runtime::Query) -> Result<FactDump, aranya_runtime::StorageError> {
    let mut out = Vec::new();
    for name in ["kk", "kv", "seq"] {
        for f in q.query_prefix(name, &[])? {
            let f = f?;
            out.push((name.to_string(), f.key.iter().map(|k| k.to_vec()).collect(), f.value.to_vec()));
        }
    }
    Ok(out)
}

fn fail_kind(k: u8) -> PolicyError {
    match k {
        0 => PolicyError::Rejected,
        1 => PolicyError::Panic,
        _ => PolicyError::InternalError,
    }
}

/// The rule interpreter. `refmodel::apply` mirrors this over a `BTreeMap`.
pub fn run_prog(
    name: &str,
    prog: &[Op],
    facts: &mut impl FactPerspective,
    sink: &mut impl Sink<String>,
) -> Result<(), PolicyError> {
    for op in prog {
        match *op {
            Op::Append => {
                let cur = facts.query("seq", &[]).map_err(|_| PolicyError::Read)?;
                let v = match cur {
                    Some(s) => [&s[..], b":", name.as_bytes()].concat(),
                    None => name.as_bytes().to_vec(),
                };
                facts.insert("seq".into(), Keys::default(), v.into()).map_err(|_| PolicyError::Write)?;
            }
            Op::Put(k, v) => {
                facts.insert("kv".into(), kv_key(k), vec![v].into()).map_err(|_| PolicyError::Write)?;
            }
            Op::Del(k) => {
                facts.delete("kv".into(), kv_key(k)).map_err(|_| PolicyError::Write)?;
            }
            Op::Require(k) => {
                if facts.query("kv", &kv_key(k)).map_err(|_| PolicyError::Read)?.is_none() {
                    return Err(PolicyError::Rejected);
                }
            }
            Op::RequireAbsent(k) => {
                if facts.query("kv", &kv_key(k)).map_err(|_| PolicyError::Read)?.is_some() {
                    return Err(PolicyError::Rejected);
                }
            }
            Op::WriteThenFail(kind) => {
                facts
                    .insert("kv".into(), kv_key(0xfe), name.as_bytes().into())
                    .map_err(|_| PolicyError::Write)?;
                facts.delete("kv".into(), kv_key(1)).map_err(|_| PolicyError::Write)?;
                let cur = facts.query("seq", &[]).map_err(|_| PolicyError::Read)?;
                let v = match cur {
                    Some(s) => [&s[..], b":!", name.as_bytes()].concat(),
                    None => [b"!", name.as_bytes()].concat(),
                };
                facts.insert("seq".into(), Keys::default(), v.into()).map_err(|_| PolicyError::Write)?;
                sink.consume(format!("{name}:poison"));
                return Err(fail_kind(kind));
            }
            Op::Emit(e) => sink.consume(format!("{name}:{e}")),
            Op::BadParentCut => {}
            Op::PutK(k, v) => {
                let key = Keys::from_iter(crate::dag::key_alpha()[k as usize].iter().map(|c| c.clone().into_boxed_slice()));
                facts.insert("kk".into(), key, vec![v].into()).map_err(|_| PolicyError::Write)?;
            }
            Op::DelK(k) => {
                let key = Keys::from_iter(crate::dag::key_alpha()[k as usize].iter().map(|c| c.clone().into_boxed_slice()));
                facts.delete("kk".into(), key).map_err(|_| PolicyError::Write)?;
            }
        }
    }
    Ok(())
}

/// Every exact and prefix query over the `kk` key alphabet, plus the plain dump: what a policy can observe.
pub fn rich_view(q: &impl aranya_runtime::Query) -> Result<Vec<(String, String)>, aranya_runtime::StorageError> {
    let mut out = Vec::new();
    for (n, k, v) in dump_facts(q)? {
        out.push((format!("dump {n}{k:?}"), format!("{v:?}")));
    }
    let alpha = crate::dag::key_alpha();
    for (i, key) in alpha.iter().enumerate() {
        let keys: Vec<Box<[u8]>> = key.iter().map(|c| c.clone().into_boxed_slice()).collect();
        let exact = q.query("kk", &keys)?;
        out.push((format!("query kk#{i}"), format!("{:?}", exact.map(|b| b.to_vec()))));
        let mut res = Vec::new();
        for f in q.query_prefix("kk", &keys)? {
            let f = f?;
            res.push((f.key.iter().map(|k| k.to_vec()).collect::<Vec<_>>(), f.value.to_vec()));
        }
        out.push((format!("prefix kk#{i}"), format!("{res:?}")));
    }
    Ok(out)
}

impl Policy for AuditPolicy {
    type Action<'a> = &'a ActionScript;
    type Effect = String;
    type Command<'a> = Cmd;

    fn serial(&self) -> u32 {
        0
    }

    fn call_rule(
        &self,
        command: &impl Command,
        facts: &mut impl FactPerspective,
        sink: &mut impl Sink<String>,
        placement: CommandPlacement,
    ) -> Result<(), PolicyError> {
        let is_merge = matches!(command.parent(), Prior::Merge(..)) || command.priority() == Priority::Merge;
        let place = match placement {
            CommandPlacement::OnGraphAtOrigin => Place::Origin,
            CommandPlacement::OnGraphInBraid => Place::Braid,
            CommandPlacement::OffGraph => Place::OffGraph,
        };
        let (name, prog) = decode_payload(command.bytes()).ok_or(PolicyError::Read)?;
        let res = if is_merge { Ok(()) } else { run_prog(&name, &prog, facts, sink) };
        let outcome = match &res {
            Ok(()) => 0,
            Err(PolicyError::Rejected) => 1,
            Err(PolicyError::Panic) => 2,
            Err(_) => 3,
        };
        self.log.borrow_mut().rule_calls.push(RuleCall { name, place, is_merge, outcome });
        res
    }

    fn call_action(
        &self,
        action: Self::Action<'_>,
        facts: &mut impl Perspective,
        sink: &mut impl Sink<String>,
        placement: ActionPlacement,
    ) -> Result<(), PolicyError> {
        let view = dump_facts(facts).map_err(|_| PolicyError::Read)?;
        if action.probe {
            let rv = rich_view(facts).map_err(|_| PolicyError::Read)?;
            self.log.borrow_mut().rich_views.push(rv);
        }
        let parent0 = match facts.head_address()? {
            Prior::None => None,
            Prior::Single(a) => Some(a),
            Prior::Merge(..) => return Err(PolicyError::InternalError),
        };
        {
            let mut log = self.log.borrow_mut();
            log.action_views.push(view);
            log.action_parents.push(parent0);
        }
        if !action.direct.is_empty() {
            run_prog("act", &action.direct, facts, sink)?;
        }
        let cp = match placement {
            ActionPlacement::OnGraph => CommandPlacement::OnGraphAtOrigin,
            ActionPlacement::OffGraph => CommandPlacement::OffGraph,
        };
        let mut parent = parent0;
        for (j, p) in action.publish.iter().enumerate() {
            if let Some((after, kind)) = action.fail_after {
                if after == j {
                    return Err(fail_kind(kind));
                }
            }
            let prior = match parent {
                Some(a) => Prior::Single(a),
                None => Prior::None,
            };
            let max_cut = match parent {
                Some(a) => MaxCut::new(a.max_cut.get() + 1),
                None => MaxCut::new(0),
            };
            let cmd = Cmd {
                id: basic_id(p.rank, p.idx),
                prior,
                priority: if parent.is_none() {
                    Priority::Init
                } else if p.finalize {
                    Priority::Finalize
                } else {
                    Priority::Basic(p.prio)
                },
                policy: if parent.is_none() {
                    Some(vec![match self.merge_rank {
                        MergeRank::Low => 0,
                        MergeRank::High => 1,
                        MergeRank::Hash => 2,
                    }])
                } else {
                    None
                },
                data: encode_payload(&p.name, &p.prog),
            };
            self.call_rule(&cmd, facts, sink, cp)?;
            facts.add_command(&cmd).map_err(|_| PolicyError::Write)?;
            if matches!(placement, ActionPlacement::OnGraph) {
                // session commands all name the same fake parent
                parent = Some(Address { id: cmd.id, max_cut });
            }
        }
        if let Some((after, kind)) = action.fail_after {
            if after >= action.publish.len() {
                return Err(fail_kind(kind));
            }
        }
        Ok(())
    }

    fn merge<'a>(&self, _target: &'a mut [u8], ids: MergeIds) -> Result<Cmd, PolicyError> {
        self.log.borrow_mut().merge_calls += 1;
        let (l, r): (Address, Address) = ids.into();
        Ok(make_merge_cmd(self.merge_rank, l, r))
    }
}
