//! Storage-independent reference semantics of the graph (DESIGN.md 4.3). Pure functions on a
//! `Dag`; no `Location`, segment, skip list, max-cut shortcut or spill appears here.

use std::collections::BTreeMap;

use crate::dag::{node_name, Dag, Kind, Op};

pub type Facts = BTreeMap<(String, Vec<Vec<u8>>), Vec<u8>>;

/// Growable bitset (graphs of any size).
#[derive(Clone, Debug, Default, PartialEq, Eq)]
pub struct Bits(pub Vec<u64>);
impl Bits {
    pub fn new(n: usize) -> Self {
        Bits(vec![0; n.div_ceil(64)])
    }
    pub fn set(&mut self, i: usize) {
        self.0[i / 64] |= 1 << (i % 64);
    }
    pub fn get(&self, i: usize) -> bool {
        self.0.get(i / 64).map(|w| w >> (i % 64) & 1 == 1).unwrap_or(false)
    }
    pub fn or_with(&mut self, o: &Bits) {
        for (a, b) in self.0.iter_mut().zip(&o.0) {
            *a |= *b;
        }
    }
}

#[derive(Clone, Copy, Debug, PartialEq, Eq)]
pub enum Fail {
    Rejected,
    Panic,
    Internal,
}

/// Mirror of `policy::run_prog` over a plain map. Returns effects emitted.
pub fn apply(name: &str, prog: &[Op], facts: &mut Facts, effects: &mut Vec<String>) -> Result<(), Fail> {
    let kv = |k: u8| ("kv".to_string(), vec![vec![k]]);
    let seq = ("seq".to_string(), vec![]);
    for op in prog {
        match *op {
            Op::Append => {
                let v = match facts.get(&seq) {
                    Some(s) => [&s[..], b":", name.as_bytes()].concat(),
                    None => name.as_bytes().to_vec(),
                };
                facts.insert(seq.clone(), v);
            }
            Op::Put(k, v) => {
                facts.insert(kv(k), vec![v]);
            }
            Op::Del(k) => {
                facts.remove(&kv(k));
            }
            Op::Require(k) => {
                if !facts.contains_key(&kv(k)) {
                    return Err(Fail::Rejected);
                }
            }
            Op::RequireAbsent(k) => {
                if facts.contains_key(&kv(k)) {
                    return Err(Fail::Rejected);
                }
            }
            Op::WriteThenFail(kind) => {
                // the reference never keeps writes of a failing rule: callers discard `facts`
                return Err(match kind {
                    0 => Fail::Rejected,
                    1 => Fail::Panic,
                    _ => Fail::Internal,
                });
            }
            Op::Emit(e) => effects.push(format!("{name}:{e}")),
            // a command with a wrong parent address is refused by every replica: it does not exist
            Op::BadParentCut => return Err(Fail::Internal),
            Op::PutK(k, v) => {
                facts.insert(("kk".to_string(), crate::dag::key_alpha()[k as usize].clone()), vec![v]);
            }
            Op::DelK(k) => {
                facts.remove(&("kk".to_string(), crate::dag::key_alpha()[k as usize].clone()));
            }
        }
    }
    Ok(())
}

pub fn dump(f: &Facts) -> crate::policy::FactDump {
    f.iter().map(|((n, k), v)| (n.clone(), k.clone(), v.clone())).collect()
}

#[derive(Clone, Debug, PartialEq, Eq)]
pub enum BraidError {
    ParallelFinalize,
    /// a braided command failed with something other than `Rejected`
    Fatal(usize),
}

/// (priority class, basic priority, id) — the strand key. Merge < Basic(n) < Finalize < Init.
fn key(dag: &Dag, ids: &[aranya_runtime::CmdId], i: usize) -> (u8, u32, aranya_runtime::CmdId) {
    match dag.nodes[i].kind {
        Kind::Merge => (0, 0, ids[i]),
        Kind::Basic(p) => (1, p, ids[i]),
        Kind::Finalize => (2, 0, ids[i]),
        Kind::Init => (3, 0, ids[i]),
    }
}

pub struct Ref<'a> {
    pub dag: &'a Dag,
    pub ids: Vec<aranya_runtime::CmdId>,
    pub anc: Vec<Bits>,
    /// children lists
    pub children: Vec<Vec<usize>>,
    state: Vec<Option<Result<Facts, BraidError>>>,
}

impl<'a> Ref<'a> {
    pub fn new(dag: &'a Dag) -> Self {
        let mut children = vec![vec![]; dag.len()];
        for (i, n) in dag.nodes.iter().enumerate() {
            for &p in &n.parents {
                children[p].push(i);
            }
        }
        let n = dag.len();
        let mut anc: Vec<Bits> = Vec::with_capacity(n);
        for node in &dag.nodes {
            let mut m = Bits::new(n);
            for &p in &node.parents {
                m.or_with(&anc[p]);
                m.set(p);
            }
            anc.push(m);
        }
        Ref { dag, ids: dag.ids(), anc, children, state: vec![None; n] }
    }

    pub fn is_ancestor(&self, a: usize, b: usize) -> bool {
        self.anc[b].get(a)
    }

    /// Reverse-Kahn braid of a set of pairwise-incomparable heads. Returns `(base, order)`:
    /// `base` is the lone remaining strand; `order` lists the non-merge commands above it in
    /// application order.
    pub fn braid(&self, heads: &[usize]) -> Result<(usize, Vec<usize>), BraidError> {
        assert!(!heads.is_empty());
        if heads.len() == 1 {
            return Ok((heads[0], vec![]));
        }
        // region = ancestors-or-self of heads
        let mut region = Bits::new(self.dag.len());
        for &h in heads {
            region.or_with(&self.anc[h]);
            region.set(h);
        }
        // remaining in-region children not yet popped
        let mut pending: Vec<usize> = (0..self.dag.len())
            .map(|i| self.children[i].iter().filter(|&&c| region.get(c)).count())
            .collect();
        let mut strands: Vec<usize> = heads.to_vec();
        let fin = |s: &[usize]| s.iter().filter(|&&i| self.dag.nodes[i].kind == Kind::Finalize).count();
        if fin(&strands) > 1 {
            return Err(BraidError::ParallelFinalize);
        }
        let mut emitted = Vec::new();
        loop {
            // pop least key
            let (pos, _) = strands
                .iter()
                .enumerate()
                .min_by_key(|(_, &i)| key(self.dag, &self.ids, i))
                .expect("non-empty");
            let s = strands.swap_remove(pos);
            if self.dag.nodes[s].kind != Kind::Merge {
                emitted.push(s);
            }
            for &p in &self.dag.nodes[s].parents {
                pending[p] -= 1;
                if pending[p] == 0 {
                    strands.push(p);
                    if fin(&strands) > 1 {
                        return Err(BraidError::ParallelFinalize);
                    }
                }
            }
            if strands.len() == 1 {
                emitted.reverse();
                return Ok((strands[0], emitted));
            }
            assert!(!strands.is_empty(), "braid ran out of strands");
        }
    }

    /// Facts stored at node `x`.
    pub fn state(&mut self, x: usize) -> Result<Facts, BraidError> {
        if let Some(s) = &self.state[x] {
            return s.clone();
        }
        let node = &self.dag.nodes[x];
        let res = match node.kind {
            Kind::Init => {
                let mut f = Facts::new();
                let mut e = vec![];
                // init rejected at origin => no graph; callers never ask
                let _ = apply(&node_name(x), &node.prog, &mut f, &mut e);
                Ok(f)
            }
            Kind::Basic(_) | Kind::Finalize => match self.state(node.parents[0]) {
                Err(e) => Err(e),
                Ok(base) => {
                    let mut f = base.clone();
                    let mut e = vec![];
                    match apply(&node_name(x), &node.prog, &mut f, &mut e) {
                        Ok(()) => Ok(f),
                        // rejected at origin: the command does not exist; its "state" is the parent's
                        Err(_) => Ok(base),
                    }
                }
            },
            Kind::Merge => self.facts(&[node.parents[0], node.parents[1]]).map(|(f, _)| f),
        };
        self.state[x] = Some(res.clone());
        res
    }

    /// Facts (and effects emitted while braiding) of a head set.
    pub fn facts(&mut self, heads: &[usize]) -> Result<(Facts, Vec<String>), BraidError> {
        let (base, order) = self.braid(heads)?;
        let mut f = self.state(base)?;
        let mut effects = vec![];
        for x in order {
            let node = &self.dag.nodes[x];
            let mut g = f.clone();
            let mut e = vec![];
            match apply(&node_name(x), &node.prog, &mut g, &mut e) {
                Ok(()) => {
                    f = g;
                    effects.extend(e);
                }
                Err(Fail::Rejected) => {}
                Err(_) => return Err(BraidError::Fatal(x)),
            }
        }
        Ok((f, effects))
    }

    /// Would node `x` be accepted when evaluated at origin (on `state(parent)`)?
    pub fn accepted_at_origin(&mut self, x: usize) -> Result<bool, BraidError> {
        let node = &self.dag.nodes[x];
        match node.kind {
            Kind::Init => Ok(true),
            Kind::Merge => Ok(true),
            _ => {
                let mut f = self.state(node.parents[0])?;
                let mut e = vec![];
                Ok(apply(&node_name(x), &node.prog, &mut f, &mut e).is_ok())
            }
        }
    }

    /// The address of the virtual merge a head set collapses to: pairwise front-to-back fold over
    /// heads sorted by id (C04/C19). Returns (id, max_cut).
    pub fn merge_fold(&self, heads: &[usize]) -> (aranya_runtime::CmdId, u64) {
        let mc = self.dag.max_cuts();
        let mut q: std::collections::VecDeque<(aranya_runtime::CmdId, u64)> = {
            let mut v: Vec<_> = heads.iter().map(|&h| (self.ids[h], mc[h])).collect();
            v.sort();
            v.into()
        };
        loop {
            let l = q.pop_front().expect("non-empty");
            let Some(r) = q.pop_front() else { return l };
            let (a, b) = if l.0 < r.0 { (l, r) } else { (r, l) };
            q.push_back((crate::dag::merge_id(self.dag.merge_rank, a.0, b.0), a.1.max(b.1) + 1));
        }
    }
}

/// Model of `policy::rich_view` over a plain map.
pub fn rich_view_model(f: &Facts) -> Vec<(String, String)> {
    let mut out = Vec::new();
    for (n, k, v) in dump(f) {
        out.push((format!("dump {n}{k:?}"), format!("{v:?}")));
    }
    let alpha = crate::dag::key_alpha();
    for (i, key) in alpha.iter().enumerate() {
        let exact = f.get(&("kk".to_string(), key.clone())).cloned();
        out.push((format!("query kk#{i}"), format!("{:?}", exact)));
        let res: Vec<(Vec<Vec<u8>>, Vec<u8>)> = f
            .iter()
            .filter(|((n, k), _)| n == "kk" && k.len() >= key.len() && k[..key.len()] == key[..])
            .map(|((_, k), v)| (k.clone(), v.clone()))
            .collect();
        out.push((format!("prefix kk#{i}"), format!("{res:?}")));
    }
    out
}
