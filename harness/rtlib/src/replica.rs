//! Replica driver and canonical observation (DESIGN.md 4.4).

use std::{cell::RefCell, collections::BTreeMap, rc::Rc};

use aranya_runtime::{
    storage::linear::testing::MemStorageProvider, Address, ClientError, ClientState, CmdId, Command, GraphId, Location,
    MaxCut, Prior, Priority, RuntimeBuffers, Segment, Sink, Spill, Storage, StorageError, StorageProvider, Transaction,
};

use crate::{
    dag::Cmd,
    policy::{dump_facts, ActionScript, AuditLog, AuditStore, FactDump},
};

#[derive(Clone, Debug, PartialEq, Eq, Hash)]
pub enum SinkEv {
    Begin,
    Consume(String),
    Rollback,
    Commit,
}

#[derive(Default, Debug)]
pub struct RecSink {
    pub events: Vec<SinkEv>,
}

impl Sink<String> for RecSink {
    fn begin(&mut self) {
        self.events.push(SinkEv::Begin)
    }
    fn consume(&mut self, e: String) {
        self.events.push(SinkEv::Consume(e))
    }
    fn rollback(&mut self) {
        self.events.push(SinkEv::Rollback)
    }
    fn commit(&mut self) {
        self.events.push(SinkEv::Commit)
    }
}

impl RecSink {
    /// Effects that were committed (consumed between a begin and its commit, honouring rollbacks).
    pub fn committed_effects(&self) -> Vec<String> {
        let mut out = Vec::new();
        let mut pending: Vec<String> = Vec::new();
        for e in &self.events {
            match e {
                SinkEv::Begin => pending.clear(),
                SinkEv::Consume(s) => pending.push(s.clone()),
                SinkEv::Rollback => pending.clear(),
                SinkEv::Commit => out.append(&mut pending),
            }
        }
        out
    }
}

thread_local! {
    /// Number of bytes written to spill backends on this thread (vacuity guard for C02).
    pub static SPILL_WRITES: std::cell::Cell<u64> = const { std::cell::Cell::new(0) };
    pub static SPILL_READS: std::cell::Cell<u64> = const { std::cell::Cell::new(0) };
}

/// Upper bound for one spill area (the largest legitimate use in the checks is far below 1 MiB).
pub const SPILL_CAP_BYTES: usize = 32 << 20;
thread_local! {
    pub static SPILL_CAP_HITS: std::cell::Cell<u64> = const { std::cell::Cell::new(0) };
}

/// In-memory spill that counts traffic.
pub struct CountingSpill {
    buf: Vec<u8>,
}

impl CountingSpill {
    pub fn new() -> Result<Self, StorageError> {
        Ok(CountingSpill { buf: Vec::new() })
    }
}

impl Spill for CountingSpill {
    fn write_at(&mut self, offset: usize, data: &[u8]) -> Result<(), StorageError> {
        let end = offset.checked_add(data.len()).ok_or(StorageError::IoError)?;
        // A spill area that keeps growing means the subject is thrashing without bound: fail the
        // operation (the checks report the error) instead of exhausting memory.
        if end > SPILL_CAP_BYTES {
            SPILL_CAP_HITS.with(|c| c.set(c.get() + 1));
            return Err(StorageError::IoError);
        }
        if end > self.buf.len() {
            self.buf.resize(end, 0);
        }
        self.buf[offset..end].copy_from_slice(data);
        SPILL_WRITES.with(|c| c.set(c.get() + 1));
        Ok(())
    }
    fn read_at(&mut self, offset: usize, data: &mut [u8]) -> Result<(), StorageError> {
        let end = offset.checked_add(data.len()).ok_or(StorageError::IoError)?;
        let src = self.buf.get(offset..end).ok_or(StorageError::IoError)?;
        data.copy_from_slice(src);
        SPILL_READS.with(|c| c.set(c.get() + 1));
        Ok(())
    }
}

#[derive(Clone, Debug, PartialEq, Eq, Hash, PartialOrd, Ord)]
pub struct StoredCmd {
    pub parents: Vec<(CmdId, u64)>,
    /// 0 merge, 1 basic(prio), 2 finalize, 3 init
    pub prio: (u8, u32),
    pub bytes: Vec<u8>,
    pub max_cut: u64,
}

/// What a replica shows through the public API. Its hash is the canonical state.
#[derive(Clone, Debug, PartialEq, Eq, Hash)]
pub struct Obs {
    /// head ids in stored order
    pub heads: Vec<(CmdId, u64)>,
    pub facts: FactDump,
    pub hello: Result<(CmdId, u64), String>,
    /// every command reachable from the heads
    pub cmds: BTreeMap<CmdId, StoredCmd>,
}

impl Obs {
    pub fn canon(&self) -> u64 {
        mcx::fnv64(format!("{self:?}").as_bytes())
    }
    /// The part C01 compares (heads, every fact, hello head) plus the command set.
    pub fn short(&self) -> String {
        let hs: Vec<String> = self.heads.iter().map(|(id, mc)| format!("{:02x}..@{mc}", id.as_bytes()[0])).collect();
        let seq = self
            .facts
            .iter()
            .find(|(n, _, _)| n == "seq")
            .map(|(_, _, v)| String::from_utf8_lossy(v).into_owned())
            .unwrap_or_default();
        let kv: Vec<String> = self
            .facts
            .iter()
            .filter(|(n, _, _)| n == "kv")
            .map(|(_, k, v)| format!("{:?}={:?}", k, v))
            .collect();
        format!("heads=[{}] seq={seq} kv=[{}] hello={:?} ncmds={}", hs.join(","), kv.join(","), self.hello.as_ref().map(|(i, m)| format!("{:02x}..@{m}", i.as_bytes()[0])), self.cmds.len())
    }
}

pub fn prio_code(p: &Priority) -> (u8, u32) {
    match p {
        Priority::Merge => (0, 0),
        Priority::Basic(n) => (1, *n),
        Priority::Finalize => (2, 0),
        Priority::Init => (3, 0),
    }
}

pub struct Replica<SP: StorageProvider> {
    pub client: ClientState<AuditStore, SP>,
    pub buffers: RuntimeBuffers<SP::Segment>,
    pub graph: GraphId,
    pub sink: RecSink,
    pub log: Rc<RefCell<AuditLog>>,
    /// keeps backing resources (a scratch directory) alive
    pub guard: Option<Box<dyn std::any::Any>>,
}

pub type FileProvider = aranya_runtime::storage::linear::LinearStorageProvider<aranya_runtime::storage::linear::libc::FileManager>;
pub type FileReplica = Replica<FileProvider>;

impl FileReplica {
    /// A replica on the libc file backend in a fresh scratch directory (removed with the replica).
    pub fn new_file(graph: GraphId) -> Self {
        let scratch = mcx::Scratch::new("rtfile");
        let fm = aranya_runtime::storage::linear::libc::FileManager::new(scratch.path()).expect("FileManager::new");
        let mut r = Replica::new(aranya_runtime::storage::linear::LinearStorageProvider::new(fm), graph);
        r.guard = Some(Box::new(scratch));
        r
    }
}

pub type MemReplica = Replica<MemStorageProvider>;

pub fn graph_id_of(init: CmdId) -> GraphId {
    GraphId::transmute(init)
}

impl MemReplica {
    pub fn new_mem(graph: GraphId) -> Self {
        Replica::new(MemStorageProvider::default(), graph)
    }
}

impl<SP: StorageProvider> Replica<SP> {
    pub fn new(provider: SP, graph: GraphId) -> Self {
        let store = AuditStore::new();
        let log = store.shared_log();
        Replica { client: ClientState::new(store, provider), buffers: RuntimeBuffers::new(), graph, sink: RecSink::default(), log, guard: None }
    }

    pub fn trx(&mut self) -> Transaction<SP, AuditStore> {
        self.client.transaction(self.graph)
    }

    pub fn add(&mut self, trx: &mut Transaction<SP, AuditStore>, cmds: &[Cmd]) -> Result<usize, ClientError> {
        self.client.add_commands(trx, &mut self.sink, cmds, &mut self.buffers, CountingSpill::new)
    }

    pub fn flush(&mut self, trx: &mut Transaction<SP, AuditStore>) -> Result<(), ClientError> {
        let storage = self.client.provider().get_storage(self.graph)?;
        trx.flush(storage)
    }

    pub fn commit(&mut self, trx: Transaction<SP, AuditStore>) -> Result<bool, ClientError> {
        self.client.commit(trx, &mut self.sink, &mut self.buffers, CountingSpill::new)
    }

    pub fn action(&mut self, script: &ActionScript) -> Result<(), ClientError> {
        self.client.action(self.graph, &mut self.sink, script, &mut self.buffers, CountingSpill::new)
    }

    pub fn has_graph(&mut self) -> bool {
        self.client.provider().get_storage(self.graph).is_ok()
    }

    pub fn heads(&mut self) -> Result<Vec<(CmdId, u64)>, String> {
        let storage = self.client.provider().get_storage(self.graph).map_err(|e| format!("get_storage: {e}"))?;
        Ok(storage.get_heads().map_err(|e| format!("get_heads: {e}"))?.iter().map(|h| (h.id, h.max_cut.get())).collect())
    }

    /// Observation through the public API. Any read error is returned as `Err`.
    pub fn observe(&mut self) -> Result<Obs, String> {
        let graph = self.graph;
        let hello = self.client.hello_head(graph).map(|a| (a.id, a.max_cut.get())).map_err(|e| format!("{e}"));
        let storage = self.client.provider().get_storage(graph).map_err(|e| format!("get_storage: {e}"))?;
        let head_locs: Vec<_> = storage.get_heads().map_err(|e| format!("get_heads: {e}"))?.iter().collect();
        let heads = head_locs.iter().map(|h| (h.id, h.max_cut.get())).collect();
        let fc = storage.fact_cache().map_err(|e| format!("fact_cache: {e}"))?;
        let facts = dump_facts(&fc).map_err(|e| format!("fact dump: {e}"))?;
        let cmds = walk(storage, head_locs.iter().map(|h| h.location()))?;
        Ok(Obs { heads, facts, hello, cmds })
    }
}

/// Every command reachable from the given locations, read through `Storage::get_segment`.
pub fn walk<S: Storage>(storage: &S, starts: impl Iterator<Item = Location>) -> Result<BTreeMap<CmdId, StoredCmd>, String> {
    let mut out = BTreeMap::new();
    // per segment: highest max_cut already covered
    let mut covered: BTreeMap<u64, u64> = BTreeMap::new();
    let mut stack: Vec<Location> = starts.collect();
    while let Some(loc) = stack.pop() {
        let seg = storage.get_segment(loc).map_err(|e| format!("get_segment({loc}): {e}"))?;
        let first = seg.first_location();
        if loc.max_cut < first.max_cut {
            return Err(format!("location {loc} below its segment's first {first}"));
        }
        let idx = seg.index().get();
        let from = match covered.get(&idx) {
            Some(&c) if c >= loc.max_cut.get() => continue,
            Some(&c) => c + 1,
            None => first.max_cut.get(),
        };
        for mc in from..=loc.max_cut.get() {
            let l = Location::new(seg.index(), MaxCut::new(mc));
            let cmd = seg.get_command(l).ok_or_else(|| format!("segment {idx} has no command at max_cut {mc}"))?;
            let parents: Vec<(CmdId, u64)> = match cmd.parent() {
                Prior::None => vec![],
                Prior::Single(a) => vec![(a.id, a.max_cut.get())],
                Prior::Merge(a, b) => vec![(a.id, a.max_cut.get()), (b.id, b.max_cut.get())],
            };
            out.insert(cmd.id(), StoredCmd { parents, prio: prio_code(&cmd.priority()), bytes: cmd.bytes().to_vec(), max_cut: mc });
        }
        if covered.get(&idx).is_none() {
            for p in seg.prior() {
                stack.push(p);
            }
        }
        covered.insert(idx, loc.max_cut.get());
    }
    Ok(out)
}

pub fn addr(id: CmdId, mc: u64) -> Address {
    Address { id, max_cut: MaxCut::new(mc) }
}

// ---------------------------------------------------------------------------------------------
// Fault injection: a memory-backed IoManager whose `Write::commit` can be armed to fail once.

use aranya_runtime::storage::linear::{io as lio, testing as ltest, LinearStorageProvider};

/// Shared countdown: `n > 0` means "the n-th backend commit from now fails once"; 0 = disarmed.
#[derive(Clone, Default)]
pub struct CommitFault(pub Rc<std::cell::Cell<u32>>);

impl CommitFault {
    pub fn arm(&self, nth: u32) {
        self.0.set(nth);
    }
    pub fn armed(&self) -> bool {
        self.0.get() > 0
    }
    fn tick(&self) -> bool {
        match self.0.get() {
            0 => false,
            1 => {
                self.0.set(0);
                true
            }
            n => {
                self.0.set(n - 1);
                false
            }
        }
    }
}

#[derive(Default)]
pub struct FaultyManager {
    inner: ltest::Manager,
    pub fault: CommitFault,
}

pub struct FaultyWriter {
    inner: ltest::Writer,
    fault: CommitFault,
}

impl lio::IoManager for FaultyManager {
    type Writer = FaultyWriter;
    fn create(&mut self, id: GraphId) -> Result<Self::Writer, StorageError> {
        Ok(FaultyWriter { inner: self.inner.create(id)?, fault: self.fault.clone() })
    }
    fn open(&mut self, id: GraphId) -> Result<Option<Self::Writer>, StorageError> {
        Ok(self.inner.open(id)?.map(|w| FaultyWriter { inner: w, fault: self.fault.clone() }))
    }
    fn remove(&mut self, id: GraphId) -> Result<(), StorageError> {
        self.inner.remove(id)
    }
    fn list(&mut self) -> Result<impl Iterator<Item = Result<GraphId, StorageError>>, StorageError> {
        self.inner.list()
    }
}

impl lio::Write for FaultyWriter {
    type ReadOnly = <ltest::Writer as lio::Write>::ReadOnly;
    fn readonly(&self) -> Self::ReadOnly {
        self.inner.readonly()
    }
    fn heads(&self) -> Result<aranya_runtime::storage::HeadSet, StorageError> {
        self.inner.heads()
    }
    fn heads_offset(&self) -> Result<aranya_runtime::storage::HeadSetOffset, StorageError> {
        self.inner.heads_offset()
    }
    fn fact_cache(&self) -> Result<lio::FactCacheOffset, StorageError> {
        self.inner.fact_cache()
    }
    fn append<F, T>(&mut self, builder: F) -> Result<T, StorageError>
    where
        F: FnOnce(u64) -> T,
        T: serde::Serialize,
    {
        self.inner.append(builder)
    }
    fn commit(&mut self, heads: &aranya_runtime::storage::HeadSet, fact_cache: lio::FactCacheOffset) -> Result<(), StorageError> {
        if self.fault.tick() {
            return Err(StorageError::IoError);
        }
        self.inner.commit(heads, fact_cache)
    }
}

pub type FaultProvider = LinearStorageProvider<FaultyManager>;
pub type FaultReplica = Replica<FaultProvider>;

impl FaultReplica {
    /// Memory-backed replica whose backend commit can be armed to fail (handle kept in `guard`).
    pub fn new_faulty(graph: GraphId) -> Self {
        let fm = FaultyManager::default();
        let fault = fm.fault.clone();
        let mut r = Replica::new(LinearStorageProvider::new(fm), graph);
        r.guard = Some(Box::new(fault));
        r
    }
}

impl<SP: StorageProvider> Replica<SP> {
    /// The commit-fault handle, if this replica was built with `new_faulty`.
    pub fn commit_fault(&self) -> Option<CommitFault> {
        self.guard.as_ref().and_then(|g| g.downcast_ref::<CommitFault>()).cloned()
    }
}
