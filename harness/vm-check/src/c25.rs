//! C25 — the VM never panics on any bytecode.
//!
//! Spaces (all enumerated completely, in child processes):
//!  * `seq`     every instruction sequence of length ≤ L over the alphabet × every environment
//!              (initial stack × CommandContext × MachineIO answer script);
//!  * `seq3`    (quick only) every length-3 sequence × a 3-environment slice;
//!  * `codemap` every sequence of length ≤ 2 × hand-built code maps × 2 stacks;
//!  * `subst`   every alphabet instruction substituted at every executed pc of every corpus
//!              program (compiled from policy text by the real compiler);
//!  * `args`    every corpus entry point called with every argument tuple of a boundary alphabet;
//!  * `modtrunc` corpus modules: every byte-truncation of their postcard / cbor / rkyv encodings
//!              is decoded (must not panic), every structural truncation of every section is
//!              loaded with `Machine::from_module` and every entry point is run.
//! Oracle: no unwind, no abort/signal. Step horizon 256 (reaching it is "no verdict", counted).

use std::{
    collections::{BTreeMap, BTreeSet},
    num::NonZeroUsize,
    sync::atomic::Ordering,
};

use aranya_crypto::{policy::CmdId, BaseId, DeviceId};
use aranya_policy_ast::{ident, text, Identifier, Span};
use aranya_policy_module::{
    CodeMap, CommandDef, ConstStruct, ConstValue, EnumDef, ExitReason, FactDef, Field, Instruction as I, Label,
    LabelType, Meta, Module, ModuleData, Persistence, StructDef, Target, TypeKind, WrapType,
};
use aranya_policy_vm::{
    ActionContext, CommandContext, Fact, FactKey, FactKeyList, FactValue, FactValueList, HashableValue, KVPair,
    Machine, MachineError, MachineErrorType, MachineIO, MachineIOError, MachineStack, MachineStatus, OpenContext,
    PolicyContext, SealContext, Stack, Struct, Value,
};
use mcx::{json, Args, Level, Report, Value as J};

use crate::{
    common::{self, Acc, Space, CUR_AUX, CUR_CASE},
    corpus,
};

pub const HORIZON: usize = 256;

fn x() -> Identifier {
    ident!("x")
}
fn y() -> Identifier {
    ident!("y")
}

// ---------------------------------------------------------------------------------------------
// alphabet

pub fn alphabet() -> Vec<I> {
    let mut a = Vec::new();
    let sx_full = ConstStruct {
        name: x(),
        fields: BTreeMap::from([(x(), ConstValue::Int(1)), (y(), ConstValue::Bool(true))]),
    };
    for c in [
        ConstValue::Unit,
        ConstValue::Int(0),
        ConstValue::Int(1),
        ConstValue::Int(i64::MAX),
        ConstValue::Int(i64::MIN),
        ConstValue::Bool(true),
        ConstValue::Bool(false),
        ConstValue::String(text!("a")),
        ConstValue::Struct(sx_full),
        ConstValue::Struct(ConstStruct::empty(x())),
        ConstValue::Enum(y(), 1),
        ConstValue::Enum(y(), 9),
        ConstValue::Option(None),
        ConstValue::Option(Some(Box::new(ConstValue::Int(1)))),
        ConstValue::Result(Ok(Box::new(ConstValue::Int(1)))),
        ConstValue::Result(Err(Box::new(ConstValue::Bool(true)))),
    ] {
        a.push(I::Const(c));
    }
    for id in [x(), y()] {
        a.push(I::Identifier(id.clone()));
        a.push(I::Def(id.clone()));
        a.push(I::Get(id));
    }
    a.extend([I::Dup, I::Pop, I::Block, I::End]);
    let targets = || {
        let mut t: Vec<Target> = (0..=3usize).map(Target::Resolved).collect();
        t.push(Target::Resolved(usize::MAX));
        t.push(Target::Unresolved(Label::new(x(), LabelType::Temporary)));
        t
    };
    for t in targets() {
        a.push(I::Jump(t));
    }
    for t in targets() {
        a.push(I::Branch(t));
    }
    for t in targets() {
        a.push(I::Call(t));
    }
    for t in targets() {
        a.push(I::Recall(t));
    }
    a.extend([I::Next, I::Last]);
    for (m, p) in [(0, 0), (0, 1), (0, 9), (9, 0), (usize::MAX, usize::MAX)] {
        a.push(I::ExtCall(m, p));
    }
    a.push(I::Return);
    for r in [ExitReason::Normal, ExitReason::Yield, ExitReason::Check, ExitReason::Panic] {
        a.push(I::Exit(r));
    }
    a.extend([I::Add, I::Sub, I::SaturatingAdd, I::SaturatingSub, I::Not, I::Gt, I::Lt, I::Eq]);
    for id in [x(), y()] {
        a.push(I::FactNew(id.clone()));
        a.push(I::FactKeySet(id.clone()));
        a.push(I::FactValueSet(id.clone()));
        a.push(I::StructNew(id.clone()));
        a.push(I::StructSet(id.clone()));
        a.push(I::StructGet(id.clone()));
        a.push(I::Cast(id.clone()));
        a.push(I::QueryNext(id));
    }
    for n in [1usize, 2, usize::MAX] {
        a.push(I::MStructSet(NonZeroUsize::new(n).unwrap()));
        a.push(I::MStructGet(NonZeroUsize::new(n).unwrap()));
    }
    for w in [WrapType::Ok, WrapType::Err, WrapType::Some] {
        a.push(I::Wrap(w));
        a.push(I::Is(w));
        a.push(I::Unwrap(w));
    }
    a.extend([I::Publish, I::Create, I::Delete, I::Update, I::Emit, I::Query, I::QueryStart]);
    for n in [-1, 0, 1, i64::MAX] {
        a.push(I::FactCount(n));
    }
    a.extend([I::Serialize, I::Deserialize, I::SaveSP, I::RestoreSP]);
    a.push(I::Meta(Meta::Finish(true)));
    a.push(I::Meta(Meta::FFI(x(), y())));
    a
}

/// Alphabets of the `frames` space (cursors and call frames): wide, medium, core.
pub fn frames_alphabets() -> (Vec<I>, Vec<I>, Vec<I>) {
    let r = Target::Resolved;
    let core = vec![
        I::FactNew(x()),
        I::QueryStart,
        I::QueryNext(x()),
        I::Return,
        I::Exit(ExitReason::Normal),
        I::Call(r(2)),
        I::Call(r(3)),
        I::Call(r(4)),
    ];
    let mut medium = core.clone();
    medium.extend([I::Pop, I::Recall(r(3)), I::Branch(r(0)), I::Block]);
    let mut wide = medium.clone();
    wide.extend([
        I::QueryNext(y()),
        I::Dup,
        I::End,
        I::SaveSP,
        I::RestoreSP,
        I::Const(ConstValue::Bool(true)),
        I::Call(r(0)),
        I::Call(r(1)),
        I::Recall(r(2)),
        I::Jump(r(0)),
        I::Jump(r(3)),
        I::Branch(r(3)),
    ]);
    (wide, medium, core)
}

/// Instructions whose failure mode is expected to kill the process rather than unwind
/// (allocation of an attacker-chosen size); enumerated only as singles so that the
/// enumeration of longer sequences is not dominated by child restarts.
pub fn fatal_probe_alphabet() -> Vec<I> {
    vec![
        I::MStructSet(NonZeroUsize::new(1 << 40).unwrap()),
        I::MStructGet(NonZeroUsize::new(1 << 40).unwrap()),
        I::MStructSet(NonZeroUsize::new(1 << 24).unwrap()),
    ]
}

pub fn kind(i: &I) -> String {
    let s = format!("{i:?}");
    s.split(|c: char| !(c.is_ascii_alphanumeric())).next().unwrap_or("?").to_string()
}

/// Every instruction kind of the enum must be present (compile-time exhaustive match so a new
/// kind added to the repo breaks the build of the checker instead of silently escaping).
fn kind_index(i: &I) -> usize {
    match i {
        I::Const(_) => 0,
        I::Identifier(_) => 1,
        I::Def(_) => 2,
        I::Get(_) => 3,
        I::Dup => 4,
        I::Pop => 5,
        I::Block => 6,
        I::End => 7,
        I::Jump(_) => 8,
        I::Branch(_) => 9,
        I::Next => 10,
        I::Last => 11,
        I::Call(_) => 12,
        I::Recall(_) => 13,
        I::ExtCall(_, _) => 14,
        I::Return => 15,
        I::Exit(_) => 16,
        I::Add => 17,
        I::Sub => 18,
        I::SaturatingAdd => 19,
        I::SaturatingSub => 20,
        I::Not => 21,
        I::Gt => 22,
        I::Lt => 23,
        I::Eq => 24,
        I::FactNew(_) => 25,
        I::FactKeySet(_) => 26,
        I::FactValueSet(_) => 27,
        I::StructNew(_) => 28,
        I::StructSet(_) => 29,
        I::StructGet(_) => 30,
        I::MStructSet(_) => 31,
        I::MStructGet(_) => 32,
        I::Cast(_) => 33,
        I::Wrap(_) => 34,
        I::Is(_) => 35,
        I::Unwrap(_) => 36,
        I::Publish => 37,
        I::Create => 38,
        I::Delete => 39,
        I::Update => 40,
        I::Emit => 41,
        I::Query => 42,
        I::FactCount(_) => 43,
        I::QueryStart => 44,
        I::QueryNext(_) => 45,
        I::Serialize => 46,
        I::Deserialize => 47,
        I::SaveSP => 48,
        I::RestoreSP => 49,
        I::Meta(_) => 50,
    }
}
const KINDS: usize = 51;

// ---------------------------------------------------------------------------------------------
// environment

fn struct_x_full() -> Struct {
    Struct::new(x(), [(x(), Value::Int(1)), (y(), Value::Bool(true))])
}
fn fact_x(v: bool) -> Fact {
    Fact {
        name: x(),
        keys: vec![FactKey::new(x(), HashableValue::Int(1))],
        values: vec![FactValue::new(y(), Value::Bool(v))],
    }
}

pub fn stacks() -> Vec<(&'static str, Vec<Value>)> {
    vec![
        ("empty", vec![]),
        ("int_max,int_1", vec![Value::Int(i64::MAX), Value::Int(1)]),
        ("bool", vec![Value::Bool(true)]),
        ("struct", vec![Value::Struct(struct_x_full())]),
        ("fact,fact", vec![Value::Fact(fact_x(true)), Value::Fact(fact_x(false))]),
        ("some_int", vec![Value::Option(Some(Box::new(Value::Int(1))))]),
        ("struct_empty,ident_x,int", vec![Value::Struct(Struct::new(x(), Vec::<(Identifier, Value)>::new())), Value::Identifier(x()), Value::Int(1)]),
        ("struct,ident_y,ident_x", vec![Value::Struct(struct_x_full()), Value::Identifier(y()), Value::Identifier(x())]),
        // valid encoding of struct x {x:1,y:true}; as struct y {x string} it claims 2 bytes and has 1
        ("bytes", vec![Value::Bytes(vec![2, 1])]),
        ("err_bool,string,id", vec![Value::Result(Err(Box::new(Value::Bool(true)))), Value::String(text!("a")), Value::Id(BaseId::default())]),
        ("full_100_ints", (0..100).map(Value::Int).collect()),
    ]
}

pub fn contexts() -> Vec<(&'static str, CommandContext)> {
    let pc = PolicyContext { name: x(), id: CmdId::default(), author: DeviceId::default(), version: BaseId::default() };
    vec![
        ("action", CommandContext::Action(ActionContext { name: x(), head_id: CmdId::default() })),
        ("seal", CommandContext::Seal(SealContext { name: x(), head_id: CmdId::default() })),
        ("open", CommandContext::Open(OpenContext { name: x() })),
        ("open_y", CommandContext::Open(OpenContext { name: y() })),
        ("policy", CommandContext::Policy(pc.clone())),
        ("recall", CommandContext::Recall(pc)),
    ]
}

pub const SCRIPTS: [&str; 6] = ["ok_two_items", "internal", "not_found", "item_then_error", "empty", "one_item"];
/// The full environment product of the `seq` space uses the first five scripts; `one_item`
/// (a query that is exhausted after exactly one fact) is used by the `frames` space.
pub const PRODUCT_SCRIPTS: usize = 5;

/// Scripted MachineIO: answers are a function of the script only.
pub struct ScriptIO {
    pub script: usize,
    pub calls: u64,
    /// facts stored by name for the corpus runs (script 0 keeps a real little store)
    pub store: BTreeMap<(Identifier, FactKeyList), FactValueList>,
    pub use_store: bool,
}

impl ScriptIO {
    pub fn new(script: usize) -> Self {
        ScriptIO { script, calls: 0, store: BTreeMap::new(), use_store: false }
    }
    pub fn with_store(script: usize) -> Self {
        ScriptIO { script, calls: 0, store: BTreeMap::new(), use_store: true }
    }
}

type QIter = std::vec::IntoIter<Result<(FactKeyList, FactValueList), MachineIOError>>;

impl MachineIO<MachineStack> for ScriptIO {
    type QueryIterator = QIter;

    fn fact_insert(
        &mut self,
        name: Identifier,
        key: impl IntoIterator<Item = FactKey>,
        value: impl IntoIterator<Item = FactValue>,
    ) -> Result<(), MachineIOError> {
        self.calls += 1;
        match self.script {
            1 => Err(MachineIOError::Internal),
            2 => Err(MachineIOError::FactExists),
            _ => {
                if self.use_store {
                    let k: Vec<_> = key.into_iter().collect();
                    if self.store.contains_key(&(name.clone(), k.clone())) {
                        return Err(MachineIOError::FactExists);
                    }
                    self.store.insert((name, k), value.into_iter().collect());
                }
                Ok(())
            }
        }
    }

    fn fact_delete(&mut self, name: Identifier, key: impl IntoIterator<Item = FactKey>) -> Result<(), MachineIOError> {
        self.calls += 1;
        match self.script {
            1 => Err(MachineIOError::Internal),
            2 => Err(MachineIOError::FactNotFound),
            _ => {
                if self.use_store {
                    let k: Vec<_> = key.into_iter().collect();
                    if self.store.remove(&(name, k)).is_none() {
                        return Err(MachineIOError::FactNotFound);
                    }
                }
                Ok(())
            }
        }
    }

    fn fact_query(&self, name: Identifier, key: impl IntoIterator<Item = FactKey>) -> Result<Self::QueryIterator, MachineIOError> {
        let item = |k: i64, v: bool| {
            Ok((vec![FactKey::new(x(), HashableValue::Int(k))], vec![FactValue::new(y(), Value::Bool(v))]))
        };
        match self.script {
            1 => Err(MachineIOError::Internal),
            2 => Err(MachineIOError::FactNotFound),
            3 => Ok(vec![item(1, true), Err(MachineIOError::Internal)].into_iter()),
            4 => Ok(vec![].into_iter()),
            5 => Ok(vec![item(1, true)].into_iter()),
            _ => {
                if self.use_store {
                    let k: Vec<_> = key.into_iter().collect();
                    let v: Vec<_> = self
                        .store
                        .iter()
                        .filter(|((n, fk), _)| *n == name && fk.starts_with(&k))
                        .map(|((_, fk), fv)| Ok((fk.clone(), fv.clone())))
                        .collect();
                    Ok(v.into_iter())
                } else {
                    Ok(vec![item(1, true), item(2, false)].into_iter())
                }
            }
        }
    }

    fn effect(&mut self, _name: Identifier, fields: impl IntoIterator<Item = KVPair>, _command: CmdId, _recalled: bool) {
        self.calls += 1;
        let _ = fields.into_iter().count();
    }

    fn call(&self, module: usize, procedure: usize, stack: &mut MachineStack, _ctx: &CommandContext) -> Result<(), MachineError> {
        match (module, procedure) {
            (0, 0) => {
                let v: i64 = stack.pop().map_err(MachineError::new)?;
                stack.push(v.wrapping_add(1)).map_err(MachineError::new)?;
                Ok(())
            }
            (0, 1) => {
                stack.push(true).map_err(MachineError::new)?;
                Ok(())
            }
            (0, p) => Err(MachineError::new(MachineErrorType::FfiProcedureNotDefined(x(), p))),
            (m, _) => Err(MachineError::new(MachineErrorType::FfiModuleNotDefined(m))),
        }
    }
}

/// The fixed static data of the hand-built machines: struct/fact/enum/command `x`/`y`, a global.
pub fn template() -> Machine {
    let mut m = Machine::new([]);
    let fx = Field { name: x(), ty: TypeKind::Int };
    let fy = Field { name: y(), ty: TypeKind::Bool };
    m.struct_defs.insert(StructDef { name: x(), items: vec![fx.clone(), fy.clone()] });
    m.struct_defs.insert(StructDef { name: y(), items: vec![Field { name: x(), ty: TypeKind::String }] });
    m.fact_defs.insert(FactDef { name: x(), key: vec![fx.clone()], value: vec![fy.clone()], immutable: false });
    m.enum_defs.insert(EnumDef { name: y(), variants: vec![(x(), 0), (y(), 1)] });
    m.command_defs.insert(CommandDef { name: x(), persistence: Persistence::Persistent, attributes: vec![], fields: vec![fx, fy] });
    m.globals.insert(y(), ConstValue::Int(7));
    for lt in [LabelType::Action, LabelType::CommandPolicy, LabelType::CommandRecall, LabelType::CommandSeal, LabelType::CommandOpen, LabelType::Function] {
        m.labels.insert(Label::new(x(), lt), 0);
    }
    m
}

// ---------------------------------------------------------------------------------------------
// executing one case

#[derive(Debug, Clone, PartialEq, Eq)]
pub struct Outcome {
    pub class: String,
    pub steps: usize,
    pub sig: u64,
}

fn err_class(e: &MachineError) -> String {
    let s = format!("{:?}", e.err_type);
    let name: String = s.chars().take_while(|c| c.is_ascii_alphanumeric()).collect();
    format!("err:{name}")
}

/// Run with the step horizon, then (when it terminated) once more through `RunState::run`,
/// which is the entry point the statement names (it adds the error-position lookup).
/// `setup` prepares the run state (initial stack or a `setup_*` call); a setup error is an outcome.
pub fn exec<F>(machine: &Machine, ctx: &CommandContext, io_factory: &dyn Fn() -> ScriptIO, setup: F) -> Outcome
where
    F: Fn(&mut aranya_policy_vm::RunState<'_, ScriptIO>) -> Result<(), MachineError>,
{
    let mut io = io_factory();
    let mut steps = 0usize;
    let mut yields = 0usize;
    let class;
    let depth;
    let pc_end;
    {
        let mut rs = machine.create_run_state(&mut io, ctx.clone());
        match setup(&mut rs) {
            Err(e) => {
                class = format!("setup-{}", err_class(&e));
                depth = rs.stack.len();
                pc_end = rs.pc();
            }
            Ok(()) => {
                let c;
                loop {
                    if steps >= HORIZON {
                        c = "horizon".to_string();
                        break;
                    }
                    CUR_AUX.store(rs.pc() as u64, Ordering::Relaxed);
                    match rs.step() {
                        Ok(MachineStatus::Executing) => steps += 1,
                        Ok(MachineStatus::Exited(ExitReason::Yield)) => {
                            steps += 1;
                            yields += 1;
                        }
                        Ok(MachineStatus::Exited(r)) => {
                            steps += 1;
                            c = format!("exit:{r}");
                            break;
                        }
                        Err(e) => {
                            c = err_class(&e);
                            break;
                        }
                    }
                }
                class = c;
                depth = rs.stack.len();
                pc_end = rs.pc();
            }
        }
    }
    let calls = io.calls;
    if class != "horizon" && !class.starts_with("setup-") {
        // second execution through run()
        let mut io2 = io_factory();
        let mut rs = machine.create_run_state(&mut io2, ctx.clone());
        if setup(&mut rs).is_ok() {
            let mut y = 0usize;
            let c2 = loop {
                match rs.run() {
                    Ok(ExitReason::Yield) => {
                        y += 1;
                        if y > yields {
                            break "exit:yield-extra".to_string();
                        }
                    }
                    Ok(r) => break format!("exit:{r}"),
                    Err(e) => break err_class(&e),
                }
            };
            if c2 != class {
                // deterministic subject ⇒ must agree; disagreement is reported as its own class
                return Outcome { class: format!("MISMATCH step={class} run={c2}"), steps, sig: 0 };
            }
        }
    }
    let sig = mcx::fnv64(format!("{class}|{steps}|{depth}|{calls}|{pc_end}|{yields}").as_bytes());
    let _ = depth;
    Outcome { class, steps, sig }
}

fn panic_key(prefix: &str, loc: &str, msg: &str, instr: Option<&I>) -> String {
    let site = common::panic_site(loc);
    let class = common::panic_class(msg);
    let with_instr = site.ends_with("aranya-policy-vm/src/machine.rs") || !site.starts_with("crates/");
    match (with_instr, instr) {
        (true, Some(i)) => format!("{prefix}instr={} panic={site}: {class}", kind(i)),
        _ => format!("{prefix}panic={site}: {class}"),
    }
}

// ---------------------------------------------------------------------------------------------
// space: seq

pub struct SeqSpace {
    name: String,
    /// (length, number of sequences of that length, first unit index)
    lens: Vec<(usize, u64, u64)>,
    /// alphabet per entry of `lens` (the spaces over the full alphabet use `alpha` for all)
    alphas: Vec<Vec<I>>,
    extra_singles: Vec<I>,
    envs: Vec<(usize, usize, usize)>,
    stacks: Vec<(&'static str, Vec<Value>)>,
    ctxs: Vec<(&'static str, CommandContext)>,
    codemaps: Vec<(&'static str, Option<CodeMap>)>,
    template: Machine,
}

fn codemap_variants() -> Vec<(&'static str, Option<CodeMap>)> {
    let mk = |text: &str, spans: &[(usize, usize, usize)]| {
        let mut c = CodeMap::new(text);
        for (i, a, b) in spans {
            let _ = c.map_instruction(*i, Span::new(*a, *b));
        }
        Some(c)
    };
    vec![
        ("text=ab span0=0..2", mk("ab", &[(0, 0, 2)])),
        ("text=ab span0=0..1 span1=1..2", mk("ab", &[(0, 0, 1), (1, 1, 2)])),
        ("text=ab span0=2..2", mk("ab", &[(0, 2, 2)])),
        ("text=empty span0=0..0", mk("", &[(0, 0, 0)])),
        ("text=ab span0=1..5", mk("ab", &[(0, 1, 5)])),
        ("text=é span0=1..2", mk("é", &[(0, 1, 2)])),
        ("text=ab no spans", mk("ab", &[])),
        ("text=ab span1=0..2", mk("ab", &[(1, 0, 2)])),
    ]
}

impl SeqSpace {
    pub fn new(name: &str, lens: &[usize], env_slice: Option<&[(usize, usize, usize)]>, with_probes: bool, codemaps: bool) -> Self {
        let alpha = alphabet();
        let stacks = stacks();
        let ctxs = contexts();
        let mut envs = Vec::new();
        match env_slice {
            Some(s) => envs.extend_from_slice(s),
            None => {
                for s in 0..stacks.len() {
                    for c in 0..ctxs.len() {
                        for io in 0..PRODUCT_SCRIPTS {
                            envs.push((s, c, io));
                        }
                    }
                }
            }
        }
        let mut l = Vec::new();
        let mut first = 0u64;
        for &len in lens {
            let n = (alpha.len() as u64).pow(len as u32);
            l.push((len, n, first));
            first += n;
        }
        SeqSpace {
            name: name.to_string(),
            alphas: l.iter().map(|_| alpha.clone()).collect(),
            lens: l,
            extra_singles: if with_probes { fatal_probe_alphabet() } else { vec![] },
            envs,
            stacks,
            ctxs,
            codemaps: if codemaps { codemap_variants() } else { vec![("none", None)] },
            template: template(),
        }
    }

    fn seq_units(&self) -> u64 {
        self.lens.iter().map(|l| l.1).sum()
    }

    /// A space with its own alphabet per sequence length and an explicit environment list.
    pub fn with_alphabets(name: &str, specs: Vec<(usize, Vec<I>)>, envs: &[(usize, usize, usize)]) -> Self {
        let mut sp = SeqSpace::new(name, &[], Some(envs), false, false);
        let mut first = 0u64;
        for (len, alpha) in specs {
            let n = (alpha.len() as u64).pow(len as u32);
            sp.lens.push((len, n, first));
            sp.alphas.push(alpha);
            first += n;
        }
        sp
    }

    pub fn sequence(&self, u: u64) -> Vec<I> {
        let su = self.seq_units();
        if u >= su {
            return vec![self.extra_singles[(u - su) as usize].clone()];
        }
        for (li, &(len, n, first)) in self.lens.iter().enumerate() {
            if u < first + n {
                let mut r = u - first;
                let alpha = &self.alphas[li];
                let k = alpha.len() as u64;
                let mut idx = vec![0usize; len];
                for i in (0..len).rev() {
                    idx[i] = (r % k) as usize;
                    r /= k;
                }
                return idx.into_iter().map(|i| alpha[i].clone()).collect();
            }
        }
        unreachable!()
    }

    fn cases(&self) -> u64 {
        (self.envs.len() * self.codemaps.len()) as u64
    }

    fn case_parts(&self, c: u64) -> ((usize, usize, usize), usize) {
        let e = (c as usize) % self.envs.len();
        let cm = (c as usize) / self.envs.len();
        (self.envs[e], cm)
    }

    fn replay_json(&self, seq: &[I], c: u64) -> J {
        let ((s, cx, io), cm) = self.case_parts(c);
        json!({
            "instructions": seq.iter().map(|i| format!("{i:?}")).collect::<Vec<_>>(),
            "initial_stack": self.stacks[s].0,
            "context": self.ctxs[cx].0,
            "io_script": SCRIPTS[io],
            "codemap": self.codemaps[cm].0,
        })
    }
}

impl Space for SeqSpace {
    fn name(&self) -> &str {
        &self.name
    }
    fn units(&self) -> u64 {
        self.seq_units() + self.extra_singles.len() as u64
    }
    fn run_unit(&self, u: u64, only: Option<u64>, skip: &BTreeSet<u64>, acc: &mut Acc) {
        let seq = self.sequence(u);
        let mut machines: Vec<Machine> = Vec::with_capacity(self.codemaps.len());
        for (_, cm) in &self.codemaps {
            let mut m = self.template.clone();
            m.progmem = seq.clone();
            m.codemap = cm.clone();
            machines.push(m);
        }
        let mut sigs: BTreeSet<u64> = BTreeSet::new();
        for c in 0..self.cases() {
            if only.is_some_and(|o| o != c) || skip.contains(&c) {
                continue;
            }
            CUR_CASE.store(c, Ordering::Relaxed);
            CUR_AUX.store(u64::MAX, Ordering::Relaxed);
            let ((s, cx, io), cm) = self.case_parts(c);
            let stack = &self.stacks[s].1;
            let res = mcx::catch(|| {
                exec(&machines[cm], &self.ctxs[cx].1, &|| ScriptIO::new(io), |rs| {
                    for v in stack {
                        rs.stack.push_value(v.clone()).map_err(MachineError::new)?;
                    }
                    Ok(())
                })
            });
            acc.count("evaluations", 1);
            match res {
                Ok(o) => {
                    if o.class.starts_with("MISMATCH") {
                        acc.count("step_run_mismatch", 1);
                    }
                    if o.class == "horizon" {
                        acc.count("horizon_reached", 1);
                    }
                    if o.steps >= 2 {
                        sigs.insert(o.sig);
                    }
                    acc.outcome(&o.class);
                    if o.steps >= 2 && u % 997 == 0 {
                        acc.sample(|| {
                            let mut j = self.replay_json(&seq, c);
                            j["outcome"] = json!(o.class);
                            j["steps"] = json!(o.steps);
                            j
                        });
                    }
                }
                Err(msg) => {
                    acc.outcome("PANIC");
                    let loc = mcx::last_panic_location();
                    let pc = CUR_AUX.load(Ordering::Relaxed);
                    let at = seq.get(pc as usize);
                    let key = panic_key("", &loc, &msg, at);
                    let desc = format!(
                        "host panic `{msg}` at {loc} while executing pc {pc} of {:?} (stack {}, context {}, io {}, codemap {})",
                        seq, self.stacks[s].0, self.ctxs[cx].0, SCRIPTS[io], self.codemaps[cm].0
                    );
                    acc.violation(u, c, key, desc, self.replay_json(&seq, c));
                }
            }
        }
        acc.count("distinct_nontrivial", sigs.len() as u64);
        acc.count("sequences", 1);
        for i in &seq {
            acc.count(&format!("tally:kind_{:02}_{}", kind_index(i), kind(i)), 1);
        }
    }
    fn describe_fatal(&self, u: u64, c: u64, aux: u64, how: &str) -> (String, String, J) {
        let seq = self.sequence(u);
        let at = seq.get(aux as usize);
        let k = at.map(kind).unwrap_or_else(|| "?".into());
        (
            format!("instr={k} process killed ({how})"),
            format!("process killed by {how} while executing pc {aux} of {seq:?}"),
            self.replay_json(&seq, c),
        )
    }
}

// ---------------------------------------------------------------------------------------------
// corpus programs

pub struct Program {
    pub module_idx: usize,
    pub name: String,
    pub machine: Machine,
    pub ctx: CommandContext,
    pub entry: Entry,
}

#[derive(Clone)]
pub enum Entry {
    Action(Identifier, Vec<Value>),
    Policy(Struct, Struct),
    Seal(Struct),
    Open(Struct, Vec<u8>, Struct),
    Function(Identifier, Vec<Value>),
}

fn envelope_struct() -> Struct {
    Struct::new(
        ident!("Envelope"),
        [
            (ident!("parent_id"), Value::Id(BaseId::default())),
            (ident!("author_id"), Value::Id(BaseId::default())),
            (ident!("command_id"), Value::Id(BaseId::default())),
            (ident!("payload"), Value::Bytes(vec![])),
            (ident!("signature"), Value::Bytes(vec![])),
        ],
    )
}

fn default_value(machine: &Machine, t: &TypeKind, variant: usize) -> Value {
    match t {
        TypeKind::Unit => Value::Unit,
        TypeKind::String => Value::String(if variant == 0 { text!("a") } else { text!("") }),
        TypeKind::Bytes => Value::Bytes(if variant == 0 { vec![1, 2, 3] } else { vec![] }),
        TypeKind::Int => Value::Int([3, 0, i64::MAX, i64::MIN, -1][variant % 5]),
        TypeKind::Bool => Value::Bool(variant % 2 == 0),
        TypeKind::Id => Value::Id(BaseId::default()),
        TypeKind::Struct(n) => {
            let mut fields = Vec::new();
            if let Some(d) = machine.struct_defs.get(n) {
                for f in &d.items {
                    fields.push((f.name.clone(), default_value(machine, &f.ty, variant)));
                }
            }
            Value::Struct(Struct::new(n.clone(), fields))
        }
        TypeKind::Enum(n) => {
            let v = machine.enum_defs.get(n).and_then(|d| d.variants.get(variant % d.variants.len().max(1)).map(|x| x.1)).unwrap_or(0);
            Value::Enum(n.clone(), v)
        }
        TypeKind::Optional(inner) => {
            if variant % 2 == 0 {
                Value::Option(Some(Box::new(default_value(machine, inner, variant / 2))))
            } else {
                Value::NONE
            }
        }
        TypeKind::Result(r) => {
            if variant % 2 == 0 {
                Value::Result(Ok(Box::new(default_value(machine, &r.ok, variant / 2))))
            } else {
                Value::Result(Err(Box::new(default_value(machine, &r.err, variant / 2))))
            }
        }
        TypeKind::Never => Value::Unit,
    }
}

/// Compile the corpus and list every entry point with conforming default arguments.
pub fn programs() -> (Vec<Module>, Vec<Program>) {
    let mut modules = Vec::new();
    let mut progs = Vec::new();
    for (mi, (name, src)) in corpus::vm_corpus().iter().enumerate() {
        let (ast, module) = corpus::parse_compile(src).unwrap_or_else(|e| mcx::machinery_error(&format!("corpus policy {name} does not compile: {e}")));
        let machine = Machine::from_module(module.clone()).unwrap_or_else(|_| mcx::machinery_error("corpus module version"));
        modules.push(module);
        let pctx = |n: &Identifier| PolicyContext { name: n.clone(), id: CmdId::default(), author: DeviceId::default(), version: BaseId::default() };
        for (label, _) in machine.labels.clone() {
            let n = label.name.clone();
            let (ctx, entry) = match label.ltype {
                LabelType::Action => {
                    let Some(def) = machine.action_defs.get(&n) else { continue };
                    let args = def.params.iter().map(|p| default_value(&machine, &p.ty, 0)).collect();
                    (CommandContext::Action(ActionContext { name: n.clone(), head_id: CmdId::default() }), Entry::Action(n.clone(), args))
                }
                LabelType::CommandPolicy | LabelType::CommandRecall | LabelType::CommandSeal | LabelType::CommandOpen => {
                    let Some(def) = machine.command_defs.get(&n) else { continue };
                    let this = Struct::new(n.clone(), def.fields.iter().map(|f| (f.name.clone(), default_value(&machine, &f.ty, 0))).collect::<Vec<_>>());
                    match label.ltype {
                        LabelType::CommandPolicy => (CommandContext::Policy(pctx(&n)), Entry::Policy(this, envelope_struct())),
                        LabelType::CommandSeal => (CommandContext::Seal(SealContext { name: n.clone(), head_id: CmdId::default() }), Entry::Seal(this)),
                        LabelType::CommandOpen => {
                            let bytes = machine.serialize_struct(&this).unwrap_or_default();
                            let mut env = envelope_struct();
                            env.fields.insert(ident!("payload"), Value::Bytes(bytes.clone()));
                            (CommandContext::Open(OpenContext { name: n.clone() }), Entry::Open(this, bytes, env))
                        }
                        _ => continue, // recall blocks are reached through the policy entry
                    }
                }
                LabelType::Function => {
                    let Some(def) = ast.functions.iter().find(|f| f.identifier.inner == n) else { continue };
                    let args: Vec<Value> = def.arguments.iter().map(|p| default_value(&machine, &TypeKind::from(p.ty.inner.clone()), 0)).collect();
                    (CommandContext::Policy(pctx(&ident!("f"))), Entry::Function(n.clone(), args))
                }
                LabelType::Temporary => continue,
            };
            progs.push(Program { module_idx: mi, name: format!("{name}:{}", label), machine: machine.clone(), ctx, entry });
        }
    }
    (modules, progs)
}

pub fn setup_entry(rs: &mut aranya_policy_vm::RunState<'_, ScriptIO>, e: &Entry) -> Result<(), MachineError> {
    match e {
        Entry::Action(n, args) => rs.setup_action(n.clone(), args.iter().cloned()),
        Entry::Policy(this, env) => {
            rs.setup_command(Label::new(this.name.clone(), LabelType::CommandPolicy), this.clone())?;
            rs.stack.push_value(Value::Struct(env.clone())).map_err(MachineError::new)
        }
        Entry::Seal(this) => {
            rs.set_pc_by_label(&Label::new(this.name.clone(), LabelType::CommandSeal))?;
            rs.stack.push_value(Value::Struct(this.clone())).map_err(MachineError::new)?;
            rs.stack.push_value(Value::Bytes(vec![])).map_err(MachineError::new)
        }
        Entry::Open(this, payload, env) => {
            rs.set_pc_by_label(&Label::new(this.name.clone(), LabelType::CommandOpen))?;
            rs.stack.push_value(Value::Struct(this.clone())).map_err(MachineError::new)?;
            rs.stack.push_value(Value::Bytes(payload.clone())).map_err(MachineError::new)?;
            rs.stack.push_value(Value::Struct(env.clone())).map_err(MachineError::new)
        }
        Entry::Function(n, args) => {
            rs.set_pc_by_label(&Label::new(n.clone(), LabelType::Function))?;
            for a in args {
                rs.stack.push_value(a.clone()).map_err(MachineError::new)?;
            }
            Ok(())
        }
    }
}

/// pcs executed by the unmodified program (in order of first execution).
fn baseline_trace(p: &Program) -> (Vec<usize>, String) {
    let mut io = ScriptIO::with_store(0);
    let mut rs = p.machine.create_run_state(&mut io, p.ctx.clone());
    let mut seen = BTreeSet::new();
    let mut order = Vec::new();
    if let Err(e) = setup_entry(&mut rs, &p.entry) {
        return (order, format!("setup-{}", err_class(&e)));
    }
    for _ in 0..4 * HORIZON {
        let pc = rs.pc();
        if seen.insert(pc) {
            order.push(pc);
        }
        match rs.step() {
            Ok(MachineStatus::Executing) | Ok(MachineStatus::Exited(ExitReason::Yield)) => {}
            Ok(MachineStatus::Exited(r)) => return (order, format!("exit:{r}")),
            Err(e) => return (order, err_class(&e)),
        }
    }
    (order, "horizon".into())
}

// ---------------------------------------------------------------------------------------------
// space: subst

pub struct SubstSpace {
    progs: Vec<Program>,
    /// (program index, pc)
    units: Vec<(usize, usize)>,
    pub baselines: Vec<String>,
}

impl SubstSpace {
    pub fn new() -> Self {
        let (_, progs) = programs();
        let mut units = Vec::new();
        let mut baselines = Vec::new();
        for (i, p) in progs.iter().enumerate() {
            let (trace, outcome) = baseline_trace(p);
            baselines.push(format!("{} -> {} ({} pcs)", p.name, outcome, trace.len()));
            for pc in trace {
                units.push((i, pc));
            }
        }
        SubstSpace { progs, units, baselines }
    }
    /// Alphabet at a pc: the fixed alphabet plus control-flow targets around the pc.
    fn alpha_at(&self, p: &Program, pc: usize) -> Vec<I> {
        let mut a = alphabet();
        a.extend(fatal_probe_alphabet().into_iter().skip(2));
        let len = p.machine.progmem.len();
        for t in [pc, pc + 1, pc.saturating_sub(1), len - 1, len] {
            a.push(I::Jump(Target::Resolved(t)));
            a.push(I::Branch(Target::Resolved(t)));
            a.push(I::Call(Target::Resolved(t)));
            a.push(I::Recall(Target::Resolved(t)));
        }
        // the other instructions of the same program (their operands are the meaningful ones here)
        let mut seen = BTreeSet::new();
        for i in &p.machine.progmem {
            let k = format!("{i:?}");
            if seen.insert(k) && seen.len() <= 400 {
                a.push(i.clone());
            }
        }
        a
    }
}

impl Space for SubstSpace {
    fn name(&self) -> &str {
        "subst"
    }
    fn units(&self) -> u64 {
        self.units.len() as u64
    }
    fn run_unit(&self, u: u64, only: Option<u64>, skip: &BTreeSet<u64>, acc: &mut Acc) {
        let (pi, pc) = self.units[u as usize];
        let p = &self.progs[pi];
        let alpha = self.alpha_at(p, pc);
        let mut m = p.machine.clone();
        let mut sigs = BTreeSet::new();
        for (c, ins) in alpha.iter().enumerate() {
            let c = c as u64;
            if only.is_some_and(|o| o != c) || skip.contains(&c) {
                continue;
            }
            if *ins == p.machine.progmem[pc] {
                continue;
            }
            CUR_CASE.store(c, Ordering::Relaxed);
            m.progmem[pc] = ins.clone();
            let res = mcx::catch(|| exec(&m, &p.ctx, &|| ScriptIO::with_store(0), |rs| setup_entry(rs, &p.entry)));
            acc.count("evaluations", 1);
            let replay = || json!({"program": p.name, "pc": pc, "original": format!("{:?}", p.machine.progmem[pc]), "substituted": format!("{ins:?}")});
            match res {
                Ok(o) => {
                    if o.class.starts_with("MISMATCH") {
                        acc.count("step_run_mismatch", 1);
                    }
                    if o.class == "horizon" {
                        acc.count("horizon_reached", 1);
                    }
                    if o.steps >= 2 {
                        sigs.insert((o.sig, c));
                    }
                    acc.outcome(&o.class);
                    if c == 40 && u % 37 == 0 {
                        acc.sample(|| {
                            let mut j = replay();
                            j["outcome"] = json!(o.class);
                            j
                        });
                    }
                }
                Err(msg) => {
                    acc.outcome("PANIC");
                    let loc = mcx::last_panic_location();
                    let at = CUR_AUX.load(Ordering::Relaxed) as usize;
                    let key = panic_key("", &loc, &msg, m.progmem.get(at));
                    acc.violation(u, c, key, format!("host panic `{msg}` at {loc}: program {} with pc {pc} replaced by {ins:?} (executing pc {at})", p.name), replay());
                }
            }
        }
        acc.count("distinct_nontrivial", sigs.len() as u64);
        acc.count("substitution_sites", 1);
    }
    fn describe_fatal(&self, u: u64, c: u64, aux: u64, how: &str) -> (String, String, J) {
        let (pi, pc) = self.units[u as usize];
        let p = &self.progs[pi];
        let alpha = self.alpha_at(p, pc);
        let ins = &alpha[c as usize];
        let mut m = p.machine.progmem.clone();
        m[pc] = ins.clone();
        let k = m.get(aux as usize).map(kind).unwrap_or_else(|| "?".into());
        (
            format!("instr={k} process killed ({how})"),
            format!("process killed by {how}: program {} with pc {pc} replaced by {ins:?}, executing pc {aux}", p.name),
            json!({"program": p.name, "pc": pc, "substituted": format!("{ins:?}")}),
        )
    }
}

// ---------------------------------------------------------------------------------------------
// space: args — entry points × argument tuples (arity 0..=n+1 over a value alphabet)

pub struct ArgsSpace {
    progs: Vec<Program>,
}

fn arg_alphabet(m: &Machine) -> Vec<Value> {
    let mut v = vec![
        Value::Unit,
        Value::Int(0),
        Value::Int(i64::MAX),
        Value::Int(i64::MIN),
        Value::Bool(true),
        Value::String(text!("")),
        Value::Bytes(vec![]),
        Value::Bytes(vec![0xff; 40]),
        Value::Id(BaseId::default()),
        Value::NONE,
        Value::Option(Some(Box::new(Value::Int(1)))),
        Value::Result(Ok(Box::new(Value::Int(1)))),
        Value::Result(Err(Box::new(Value::NONE))),
        Value::Identifier(x()),
        Value::Fact(fact_x(true)),
        Value::Enum(x(), 77),
        Value::Struct(Struct::new(ident!("Nope"), Vec::<(Identifier, Value)>::new())),
    ];
    for d in m.struct_defs.iter().take(6) {
        v.push(default_value(m, &TypeKind::Struct(d.name.clone()), 0));
        v.push(Value::Struct(Struct::new(d.name.clone(), Vec::<(Identifier, Value)>::new())));
    }
    v
}

impl ArgsSpace {
    pub fn new() -> Self {
        ArgsSpace { progs: programs().1 }
    }
    fn tuples(&self, p: &Program) -> Vec<Entry> {
        let alpha = arg_alphabet(&p.machine);
        let mut out = Vec::new();
        match &p.entry {
            Entry::Action(n, args) | Entry::Function(n, args) => {
                let is_action = matches!(p.entry, Entry::Action(..));
                let mk = |a: Vec<Value>| if is_action { Entry::Action(n.clone(), a) } else { Entry::Function(n.clone(), a) };
                // wrong arity
                out.push(mk(vec![]));
                let mut more = args.clone();
                more.push(Value::Int(1));
                out.push(mk(more));
                // every single argument replaced by every alphabet value
                for i in 0..args.len() {
                    for v in &alpha {
                        let mut a = args.clone();
                        a[i] = v.clone();
                        out.push(mk(a));
                    }
                }
                // every pair of values for the first two arguments
                if args.len() >= 2 {
                    for v in &alpha {
                        for w in &alpha {
                            let mut a = args.clone();
                            a[0] = v.clone();
                            a[1] = w.clone();
                            out.push(mk(a));
                        }
                    }
                }
            }
            Entry::Policy(this, env) => {
                for v in &alpha {
                    if let Value::Struct(s) = v {
                        out.push(Entry::Policy(s.clone(), env.clone()));
                        out.push(Entry::Policy(this.clone(), s.clone()));
                    }
                }
                for f in this.fields.keys() {
                    for v in &alpha {
                        let mut t = this.clone();
                        t.fields.insert(f.clone(), v.clone());
                        out.push(Entry::Policy(t, env.clone()));
                    }
                    let mut t = this.clone();
                    t.fields.remove(f);
                    out.push(Entry::Policy(t, env.clone()));
                }
                for f in env.fields.keys() {
                    for v in &alpha {
                        let mut e = env.clone();
                        e.fields.insert(f.clone(), v.clone());
                        out.push(Entry::Policy(this.clone(), e));
                    }
                }
            }
            Entry::Seal(this) => {
                for f in this.fields.keys() {
                    for v in &alpha {
                        let mut t = this.clone();
                        t.fields.insert(f.clone(), v.clone());
                        out.push(Entry::Seal(t));
                    }
                    let mut t = this.clone();
                    t.fields.remove(f);
                    out.push(Entry::Seal(t));
                }
                let mut t = this.clone();
                t.fields.insert(ident!("zzz"), Value::Int(1));
                out.push(Entry::Seal(t));
            }
            Entry::Open(this, payload, env) => {
                for cut in 0..=payload.len() {
                    let mut e = env.clone();
                    e.fields.insert(ident!("payload"), Value::Bytes(payload[..cut].to_vec()));
                    out.push(Entry::Open(this.clone(), payload[..cut].to_vec(), e));
                }
                for b in [0u8, 1, 2, 0x7f, 0x80, 0xff] {
                    for pos in 0..payload.len() {
                        let mut pl = payload.clone();
                        pl[pos] = b;
                        let mut e = env.clone();
                        e.fields.insert(ident!("payload"), Value::Bytes(pl.clone()));
                        out.push(Entry::Open(this.clone(), pl, e));
                    }
                }
                for f in env.fields.keys() {
                    for v in &alpha {
                        let mut e = env.clone();
                        e.fields.insert(f.clone(), v.clone());
                        out.push(Entry::Open(this.clone(), payload.clone(), e));
                    }
                }
            }
        }
        out
    }
}

/// The public call_* wrappers (context checks, argument validation) rather than setup_* only.
fn call_entry(machine: &Machine, ctx: &CommandContext, e: &Entry, io: &mut ScriptIO) -> String {
    let mut rs = machine.create_run_state(io, ctx.clone());
    // The call_* entry points run to completion; loops in corpus programs are bounded by
    // construction (compiler output), so no horizon is needed here.
    let r = match e {
        Entry::Action(n, args) => rs.call_action(n.clone(), args.iter().cloned()),
        Entry::Policy(this, env) => rs.call_command_policy(this.clone(), env.clone()),
        Entry::Seal(this) => rs.call_seal(this.clone(), vec![]),
        Entry::Open(this, payload, env) => rs.call_open(this.clone(), payload.clone(), env.clone()),
        Entry::Function(n, args) => (|| {
            rs.set_pc_by_label(&Label::new(n.clone(), LabelType::Function))?;
            for a in args {
                rs.stack.push_value(a.clone()).map_err(MachineError::new)?;
            }
            rs.run()
        })(),
    };
    match r {
        Ok(mut reason) => {
            let mut n = 0;
            while reason == ExitReason::Yield && n < 16 {
                n += 1;
                match rs.run() {
                    Ok(r2) => reason = r2,
                    Err(e) => return err_class(&e),
                }
            }
            format!("exit:{reason}")
        }
        Err(e) => err_class(&e),
    }
}

impl Space for ArgsSpace {
    fn name(&self) -> &str {
        "args"
    }
    fn units(&self) -> u64 {
        self.progs.len() as u64
    }
    fn run_unit(&self, u: u64, only: Option<u64>, skip: &BTreeSet<u64>, acc: &mut Acc) {
        let p = &self.progs[u as usize];
        let tuples = self.tuples(p);
        let mut classes = BTreeSet::new();
        for (c, e) in tuples.iter().enumerate() {
            let c = c as u64;
            if only.is_some_and(|o| o != c) || skip.contains(&c) {
                continue;
            }
            CUR_CASE.store(c, Ordering::Relaxed);
            let res = mcx::catch(|| {
                let mut io = ScriptIO::with_store(0);
                call_entry(&p.machine, &p.ctx, e, &mut io)
            });
            acc.count("evaluations", 1);
            match res {
                Ok(class) => {
                    acc.outcome(&class);
                    if !class.ends_with("Unknown") && !class.ends_with("InvalidType") && !class.ends_with("ContextMismatch") {
                        classes.insert((c, class));
                    }
                }
                Err(msg) => {
                    acc.outcome("PANIC");
                    let loc = mcx::last_panic_location();
                    let key = panic_key("args: ", &loc, &msg, None);
                    acc.violation(u, c, key, format!("host panic `{msg}` at {loc}: entry {} called with tuple #{c}", p.name), json!({"program": p.name, "tuple": c}));
                }
            }
        }
        acc.count("distinct_nontrivial", classes.len() as u64);
    }
    fn describe_fatal(&self, u: u64, c: u64, _aux: u64, how: &str) -> (String, String, J) {
        let p = &self.progs[u as usize];
        (format!("args: process killed ({how}) entry={}", p.name), format!("process killed by {how}: entry {} tuple #{c}", p.name), json!({"program": p.name, "tuple": c}))
    }
}

// ---------------------------------------------------------------------------------------------
// space: modtrunc

pub struct ModTruncSpace {
    modules: Vec<Module>,
    progs: Vec<Program>,
    /// (module, kind) kind: 0 postcard bytes, 1 cbor bytes, 2 rkyv bytes, 3.. structural sections
    units: Vec<(usize, usize)>,
    enc: Vec<[Vec<u8>; 3]>,
    byte_stride: usize,
}

const SECTIONS: [&str; 9] = ["progmem", "labels", "action_defs", "command_defs", "fact_defs", "struct_defs", "enum_defs", "codemap", "globals"];

impl ModTruncSpace {
    pub fn new(thorough: bool) -> Self {
        let (modules, progs) = programs();
        let mut units = Vec::new();
        let mut enc = Vec::new();
        for (i, m) in modules.iter().enumerate() {
            let pc = postcard::to_allocvec(m).unwrap_or_else(|e| mcx::machinery_error(&format!("postcard encode: {e}")));
            let mut cb = Vec::new();
            ciborium::into_writer(m, &mut cb).unwrap_or_else(|e| mcx::machinery_error(&format!("cbor encode: {e}")));
            let rk = rkyv::to_bytes::<rkyv::rancor::Error>(m).unwrap_or_else(|e| mcx::machinery_error(&format!("rkyv encode: {e}"))).to_vec();
            enc.push([pc, cb, rk]);
            for k in 0..3 + SECTIONS.len() {
                units.push((i, k));
            }
        }
        ModTruncSpace { modules, progs, units, enc, byte_stride: if thorough { 1 } else { 3 } }
    }

    fn decode(kind: usize, bytes: &[u8]) -> Option<Module> {
        match kind {
            0 => postcard::from_bytes::<Module>(bytes).ok(),
            1 => ciborium::from_reader::<Module, _>(bytes).ok(),
            _ => {
                let mut al = rkyv::util::AlignedVec::<16>::new();
                al.extend_from_slice(bytes);
                rkyv::from_bytes::<Module, rkyv::rancor::Error>(&al).ok()
            }
        }
    }

    fn run_module(&self, mi: usize, module: Module) -> Vec<String> {
        let mut out = Vec::new();
        let Ok(machine) = Machine::from_module(module) else { return vec!["unsupported".into()] };
        for p in self.progs.iter().filter(|p| p.module_idx == mi) {
            let o = exec(&machine, &p.ctx, &|| ScriptIO::with_store(0), |rs| setup_entry(rs, &p.entry));
            out.push(o.class);
        }
        out
    }

    fn structural(&self, mi: usize, section: usize, c: u64) -> Option<Module> {
        let mut m = self.modules[mi].clone();
        let ModuleData::V0(ref mut v) = m.data;
        let c = c as usize;
        macro_rules! trunc_vec {
            ($f:expr) => {{
                if c >= $f.len() {
                    return None;
                }
                $f.truncate(c);
            }};
        }
        macro_rules! drop_map {
            ($f:expr) => {{
                if c >= $f.len() {
                    return None;
                }
                let k = $f.keys().nth(c).cloned().unwrap();
                $f.remove(&k);
            }};
        }
        match section {
            0 => {
                if c >= v.progmem.len() {
                    return None;
                }
                let mut pm = v.progmem.to_vec();
                pm.truncate(c);
                v.progmem = pm.into_boxed_slice();
            }
            1 => drop_map!(v.labels),
            2 => trunc_vec!(v.action_defs),
            3 => trunc_vec!(v.command_defs),
            4 => trunc_vec!(v.fact_defs),
            5 => trunc_vec!(v.struct_defs),
            6 => trunc_vec!(v.enum_defs),
            7 => {
                // code map: dropped, or text truncated at every char boundary / spans kept
                let cm = v.codemap.as_ref()?;
                let text = cm.text().to_string();
                if c == 0 {
                    v.codemap = None;
                } else {
                    // rebuild with truncated text through the serde form (fields are private)
                    let cut = c - 1;
                    if cut > text.len() || !text.is_char_boundary(cut) {
                        return if cut > text.len() { None } else { Some(m.clone()) };
                    }
                    let mut js = mcx::serde_json::to_value(cm).ok()?;
                    js["text"] = json!(&text[..cut]);
                    v.codemap = Some(mcx::serde_json::from_value(js).ok()?);
                }
            }
            _ => drop_map!(v.globals),
        }
        Some(m)
    }

    fn n_cases(&self, mi: usize, kind: usize) -> u64 {
        if kind < 3 {
            (self.enc[mi][kind].len() / self.byte_stride + 1) as u64
        } else {
            let ModuleData::V0(ref v) = self.modules[mi].data;
            (match kind - 3 {
                0 => v.progmem.len(),
                1 => v.labels.len(),
                2 => v.action_defs.len(),
                3 => v.command_defs.len(),
                4 => v.fact_defs.len(),
                5 => v.struct_defs.len(),
                6 => v.enum_defs.len(),
                7 => v.codemap.as_ref().map(|c| c.text().len() + 2).unwrap_or(0),
                _ => v.globals.len(),
            }) as u64
        }
    }
}

impl Space for ModTruncSpace {
    fn name(&self) -> &str {
        "modtrunc"
    }
    fn units(&self) -> u64 {
        self.units.len() as u64
    }
    fn run_unit(&self, u: u64, only: Option<u64>, skip: &BTreeSet<u64>, acc: &mut Acc) {
        let (mi, kind) = self.units[u as usize];
        let mut distinct = BTreeSet::new();
        for c in 0..self.n_cases(mi, kind) {
            if only.is_some_and(|o| o != c) || skip.contains(&c) {
                continue;
            }
            CUR_CASE.store(c, Ordering::Relaxed);
            let what = if kind < 3 { format!("{} encoding cut to {} bytes", ["postcard", "cbor", "rkyv"][kind], c as usize * self.byte_stride) } else { format!("section {} truncated/dropped at {c}", SECTIONS[kind - 3]) };
            let res = mcx::catch(|| {
                let module = if kind < 3 {
                    let b = &self.enc[mi][kind];
                    let cut = (c as usize * self.byte_stride).min(b.len());
                    Self::decode(kind, &b[..cut])
                } else {
                    self.structural(mi, kind - 3, c)
                };
                match module {
                    None => vec!["rejected".to_string()],
                    Some(m) => self.run_module(mi, m),
                }
            });
            acc.count("evaluations", 1);
            match res {
                Ok(classes) => {
                    for cl in &classes {
                        acc.outcome(&format!("mod:{cl}"));
                    }
                    if classes != ["rejected"] {
                        acc.count("modules_loaded_and_run", 1);
                        distinct.insert((c, classes.join(",")));
                    }
                    if c == 3 {
                        acc.sample(|| json!({"module": mi, "mutation": what, "entry_outcomes": classes}));
                    }
                }
                Err(msg) => {
                    acc.outcome("PANIC");
                    let loc = mcx::last_panic_location();
                    let prefix = if kind < 3 { format!("decode {}: ", ["postcard", "cbor", "rkyv"][kind]) } else { "module: ".to_string() };
                    let key = panic_key(&prefix, &loc, &msg, None);
                    acc.violation(u, c, key, format!("host panic `{msg}` at {loc}: corpus module {mi}, {what}"), json!({"module": mi, "mutation": what}));
                }
            }
        }
        acc.count("distinct_nontrivial", distinct.len() as u64);
    }
    fn describe_fatal(&self, u: u64, c: u64, _aux: u64, how: &str) -> (String, String, J) {
        let (mi, kind) = self.units[u as usize];
        (format!("module: process killed ({how}) kind={kind}"), format!("process killed by {how}: module {mi} kind {kind} case {c}"), json!({"module": mi, "kind": kind}))
    }
}

// ---------------------------------------------------------------------------------------------

pub fn space_by_name(name: &str, args: &Args) -> Box<dyn Space> {
    let thorough = args.tier == mcx::Tier::Thorough;
    match name {
        "seq" => Box::new(SeqSpace::new("seq", if thorough { &[1, 2, 3] } else { &[1, 2] }, None, false, false)),
        "probe" => Box::new(SeqSpace::new("probe", &[], Some(&[(0, 4, 0), (6, 0, 1), (3, 2, 3)]), true, false)),
        "seq3" => Box::new(SeqSpace::new("seq3", &[3], Some(&[(0, 4, 0), (6, 2, 3), (8, 3, 0)]), false, false)),
        "codemap" => Box::new(SeqSpace::new("codemap", &[1, 2], Some(&[(0, 4, 0), (1, 4, 0)]), false, true)),
        "frames" => {
            // cursors opened in one call frame and consumed / disposed of in another:
            // stacks {empty, two facts} × policy context × queries yielding 2, 1+error, 0, 1 facts
            let (wide, medium, core) = frames_alphabets();
            let envs: Vec<(usize, usize, usize)> = [0usize, 4].iter().flat_map(|s| [0usize, 3, 4, 5].into_iter().map(move |io| (*s, 4usize, io))).collect();
            let specs = if thorough { vec![(4, wide.clone()), (5, wide), (6, medium), (7, core)] } else { vec![(4, wide), (5, medium), (6, core)] };
            Box::new(SeqSpace::with_alphabets("frames", specs, &envs))
        }
        "subst" => Box::new(SubstSpace::new()),
        "args" => Box::new(ArgsSpace::new()),
        "modtrunc" => Box::new(ModTruncSpace::new(thorough)),
        n => mcx::machinery_error(&format!("C25: unknown space {n}")),
    }
}

pub fn run(args: &Args) {
    if let Some(name) = args.extra.get("child") {
        let sp = space_by_name(name, args);
        common::child_main(sp.as_ref(), args);
    }
    if args.replay.is_some() {
        common::replay_main(args, &|n| space_by_name(n, args));
    }
    let mut rep = Report::new(args, Level::Exploration);
    let thorough = args.tier == mcx::Tier::Thorough;
    let names: &[&str] = if thorough { &["seq", "frames", "probe", "codemap", "subst", "args", "modtrunc"] } else { &["seq", "seq3", "frames", "probe", "codemap", "subst", "args", "modtrunc"] };
    let mut exhaustive = true;
    let spaces: Vec<Box<dyn Space>> = names.iter().map(|n| space_by_name(n, args)).collect();
    let refs: Vec<&dyn Space> = spaces.iter().map(|b| b.as_ref()).collect();
    let results = common::run_spaces(&refs, args, 32);
    for ((n, sp), (acc, complete)) in names.iter().zip(spaces.iter()).zip(results) {
        exhaustive &= complete;
        rep.set(&format!("{n}.units"), sp.units());
        common::fold(&mut rep, n, acc);
    }
    // every kind must have been executed
    let kinds = rep.coverage.get("tallies").and_then(|t| t.as_object()).map(|t| t.keys().filter(|k| k.starts_with("kind_")).count()).unwrap_or(0);
    rep.set("instruction_kinds_covered", kinds as u64);
    if kinds != KINDS {
        mcx::machinery_error(&format!("C25: only {kinds}/{KINDS} instruction kinds were enumerated"));
    }
    if rep.counter("step_run_mismatch") > 0 {
        mcx::machinery_error("C25: step()/run() executions of the same case disagreed (non-determinism in the harness)");
    }
    let sub = SubstSpace::new();
    rep.set("corpus_programs", sub.baselines.clone());
    rep.set("alphabet_size", alphabet().len() as u64);
    rep.set("environments", (stacks().len() * contexts().len() * PRODUCT_SCRIPTS) as u64);
    rep.set("step_horizon", HORIZON as u64);
    rep.set(
        "rule",
        format!(
            "all instruction sequences of length ≤{} over a {}-instruction alphabet covering all {} kinds × {} initial stacks × {} contexts × {} MachineIO scripts{}; sequences ≤2 × 8 hand-built code maps; call-frame / query-cursor sequences (`frames`: length 4 over 24, 5 over 12, 6 over 8 instructions — thorough 4–5 over 24, 6 over 12, 7 over 8 — × {{empty, two-fact}} stacks × queries yielding 2 / 1-then-error / 0 / 1 facts); every alphabet instruction substituted at every executed pc of the corpus programs; every entry point × boundary argument tuples; every truncation of the corpus modules (bytes of 3 encodings, 9 sections). non-trivial = distinct (sequence/site, behaviour signature) with ≥2 instructions executed (behaviour signature = outcome class, steps, final stack depth, io calls, final pc)",
            if thorough { 3 } else { 2 },
            alphabet().len(),
            KINDS,
            stacks().len(),
            contexts().len(),
            PRODUCT_SCRIPTS,
            if thorough { "" } else { "; all length-3 sequences × 3 environments" }
        ),
    );
    rep.set("exhaustive", exhaustive);
    if !exhaustive {
        rep.set("cap_hit", "a shard hit the child-restart cap or a child timed out");
    }
    // drop the per-kind helper counters from the evidence noise: keep them, they are cheap
    rep.require_nonzero("evaluations");
    rep.require_nonzero("horizon_reached");
    rep.require_nonzero("modules_loaded_and_run");
    rep.assume("a panic is an unwind caught by catch_unwind or a fatal signal of the child process; non-termination beyond 256 steps is not judged");
    rep.assume("MachineIO is the harness's scripted implementation; FFI modules are two trivial procedures");
    rep.finish()
}
