//! C26 — command struct serialization round-trips and rejects bad input.
//!
//! Space: every struct schema with ≤ 2 fields over a 52-type alphabet (9 base types incl. field-less structs, option /
//! result nested ≤ 2), compiled from generated policy text by the real compiler (so the
//! `struct_defs` / `enum_defs` are the compiler's) × every conforming value tuple from boundary
//! alphabets × the corruption alphabet of DESIGN 4.8 over each encoding × raw byte strings.
//! Oracle (the statement): deserialize(serialize(v)) == v; truncations, trailing data, option /
//! result tags ≥ 2, enum values outside the definition, invalid UTF-8, embedded NUL and id
//! lengths ≠ 32 are rejected; nothing panics.

use std::{collections::BTreeSet, sync::atomic::Ordering};

use aranya_crypto::{policy::CmdId, BaseId};
use aranya_policy_ast::{ident, Identifier, Text};
use aranya_policy_module::Instruction as I;
use aranya_policy_vm::{CommandContext, Machine, MachineStatus, OpenContext, SealContext, Stack, Struct, Value};
use mcx::{json, Args, Level, Report, Value as J};

use crate::{
    c25::ScriptIO,
    common::{self, Acc, Space, CUR_CASE},
};

#[derive(Clone, Debug, PartialEq, Eq)]
pub enum Ty {
    Int,
    Bool,
    Str,
    Bytes,
    Id,
    Enum,
    Inner,
    /// `struct Marker {}` — zero bytes on the wire
    Marker,
    /// `struct Wrap { m struct Marker }` — still zero bytes
    Wrap,
    /// `struct Twin { a struct Marker, w struct Wrap }`
    Twin,
    Opt(Box<Ty>),
    Res(Box<Ty>, Box<Ty>),
}

impl Ty {
    fn src(&self) -> String {
        match self {
            Ty::Int => "int".into(),
            Ty::Bool => "bool".into(),
            Ty::Str => "string".into(),
            Ty::Bytes => "bytes".into(),
            Ty::Id => "id".into(),
            Ty::Enum => "enum Kind".into(),
            Ty::Inner => "struct Inner".into(),
            Ty::Marker => "struct Marker".into(),
            Ty::Wrap => "struct Wrap".into(),
            Ty::Twin => "struct Twin".into(),
            Ty::Opt(t) => format!("option[{}]", t.src()),
            Ty::Res(a, b) => format!("result[{}, {}]", a.src(), b.src()),
        }
    }
}

pub fn types() -> Vec<Ty> {
    let base = vec![Ty::Int, Ty::Bool, Ty::Str, Ty::Bytes, Ty::Id, Ty::Enum, Ty::Inner, Ty::Marker, Ty::Wrap];
    let mut l1 = Vec::new();
    for b in &base {
        l1.push(Ty::Opt(Box::new(b.clone())));
    }
    let rb = [Ty::Int, Ty::Str, Ty::Inner];
    for a in &rb {
        for b in &rb {
            l1.push(Ty::Res(Box::new(a.clone()), Box::new(b.clone())));
        }
    }
    let mut l2 = Vec::new();
    for t in &l1 {
        l2.push(Ty::Opt(Box::new(t.clone())));
    }
    let ra = [Ty::Opt(Box::new(Ty::Int)), Ty::Opt(Box::new(Ty::Str)), Ty::Res(Box::new(Ty::Int), Box::new(Ty::Str))];
    let rc = [Ty::Int, Ty::Opt(Box::new(Ty::Bool))];
    for a in &ra {
        for b in &rc {
            l2.push(Ty::Res(Box::new(a.clone()), Box::new(b.clone())));
        }
    }
    let mut all = base;
    all.extend(l1);
    all.extend(l2);
    all.push(Ty::Twin);
    all
}

fn long_text(n: usize) -> Text {
    "b".repeat(n).parse().unwrap()
}

fn inner(n: i64, f: bool) -> Value {
    Value::Struct(Struct::new(ident!("Inner"), [(ident!("n"), Value::Int(n)), (ident!("f"), Value::Bool(f))]))
}

fn marker() -> Value {
    Value::Struct(Struct::new(ident!("Marker"), Vec::<(Identifier, Value)>::new()))
}
fn wrap() -> Value {
    Value::Struct(Struct::new(ident!("Wrap"), [(ident!("m"), marker())]))
}

pub fn values(t: &Ty) -> Vec<Value> {
    match t {
        Ty::Int => [0, -1, 1, 63, 64, -64, -65, i64::MAX, i64::MIN].iter().map(|n| Value::Int(*n)).collect(),
        Ty::Bool => vec![Value::Bool(false), Value::Bool(true)],
        Ty::Str => vec![
            Value::String("".parse().unwrap()),
            Value::String("a".parse().unwrap()),
            Value::String("é€".parse().unwrap()),
            Value::String(long_text(127)),
            Value::String(long_text(128)),
        ],
        Ty::Bytes => vec![Value::Bytes(vec![]), Value::Bytes(vec![0]), Value::Bytes(vec![0xff, 0x80, 0x00]), Value::Bytes(vec![7; 128])],
        Ty::Id => vec![
            Value::Id(BaseId::from_bytes([0; 32])),
            Value::Id(BaseId::from_bytes(core::array::from_fn(|i| i as u8))),
            Value::Id(BaseId::from_bytes([0xff; 32])),
        ],
        Ty::Enum => (0..3).map(|v| Value::Enum(ident!("Kind"), v)).collect(),
        Ty::Inner => vec![inner(0, false), inner(-1, true), inner(i64::MAX, false), inner(64, true)],
        Ty::Marker => vec![marker()],
        Ty::Wrap => vec![wrap()],
        Ty::Twin => vec![Value::Struct(Struct::new(ident!("Twin"), [(ident!("a"), marker()), (ident!("w"), wrap())]))],
        Ty::Opt(t) => {
            let mut v = vec![Value::NONE];
            v.extend(values(t).into_iter().map(|x| Value::Option(Some(Box::new(x)))));
            v
        }
        Ty::Res(a, b) => {
            let mut v: Vec<Value> = values(a).into_iter().map(|x| Value::Result(Ok(Box::new(x)))).collect();
            v.extend(values(b).into_iter().map(|x| Value::Result(Err(Box::new(x)))));
            v
        }
    }
}

// ---------------------------------------------------------------------------------------------
// reference encoder with field marks (positions of the bytes the statement talks about)

#[derive(Clone, Copy, Debug, PartialEq, Eq)]
pub enum Mark {
    OptTag,
    ResTag,
    /// enum value varint of this many bytes
    Enum(usize),
    /// string content of this many bytes starts here
    StrBody(usize),
    IdLen,
}

fn varint(mut n: u64, out: &mut Vec<u8>) {
    loop {
        let b = (n & 0x7f) as u8;
        n >>= 7;
        if n == 0 {
            out.push(b);
            return;
        }
        out.push(b | 0x80);
    }
}
fn zigzag(n: i64) -> u64 {
    ((n << 1) ^ (n >> 63)) as u64
}

pub fn ref_encode(v: &Value, defs_inner: &[&str], out: &mut Vec<u8>, marks: &mut Vec<(usize, Mark)>) {
    match v {
        Value::Unit => {}
        Value::Int(n) => varint(zigzag(*n), out),
        Value::Bool(b) => out.push(*b as u8),
        Value::String(s) => {
            varint(s.as_str().len() as u64, out);
            marks.push((out.len(), Mark::StrBody(s.as_str().len())));
            out.extend_from_slice(s.as_str().as_bytes());
        }
        Value::Bytes(b) => {
            varint(b.len() as u64, out);
            out.extend_from_slice(b);
        }
        Value::Id(id) => {
            marks.push((out.len(), Mark::IdLen));
            out.push(32);
            out.extend_from_slice(id.as_bytes());
        }
        Value::Enum(_, n) => {
            let p = out.len();
            varint(zigzag(*n), out);
            marks.push((p, Mark::Enum(out.len() - p)));
        }
        Value::Struct(s) => {
            let order: &[&str] = match s.name.as_str() {
                "Marker" => &[],
                "Wrap" => &["m"],
                "Twin" => &["a", "w"],
                _ => defs_inner,
            };
            for f in order {
                ref_encode(&s.fields[*f], defs_inner, out, marks);
            }
        }
        Value::Option(o) => {
            marks.push((out.len(), Mark::OptTag));
            match o {
                None => out.push(0),
                Some(x) => {
                    out.push(1);
                    ref_encode(x, defs_inner, out, marks);
                }
            }
        }
        Value::Result(r) => {
            marks.push((out.len(), Mark::ResTag));
            match r {
                Ok(x) => {
                    out.push(0);
                    ref_encode(x, defs_inner, out, marks);
                }
                Err(x) => {
                    out.push(1);
                    ref_encode(x, defs_inner, out, marks);
                }
            }
        }
        Value::Fact(_) | Value::Identifier(_) => {}
    }
}

// ---------------------------------------------------------------------------------------------

pub struct SerSpace {
    types: Vec<Ty>,
    /// schema = list of field types; field names are `zb`, `a` (declaration order ≠ name order)
    schemas: Vec<Vec<usize>>,
    machines: Vec<Machine>,
    per_machine: usize,
    thorough: bool,
}

const FIELD_NAMES: [&str; 3] = ["zb", "a", "m"];

impl SerSpace {
    pub fn new(thorough: bool) -> Self {
        let types = types();
        let mut schemas: Vec<Vec<usize>> = Vec::new();
        for i in 0..types.len() {
            schemas.push(vec![i]);
        }
        for i in 0..types.len() {
            for j in 0..types.len() {
                schemas.push(vec![i, j]);
            }
        }
        if thorough {
            // three-field schemas over 12 types (value alphabets cut to ≤4 per field)
            let idx: Vec<usize> = types
                .iter()
                .enumerate()
                .filter(|(i, t)| {
                    *i < 9
                        || matches!(t, Ty::Opt(b) if matches!(**b, Ty::Int | Ty::Str | Ty::Inner))
                        || **t == Ty::Res(Box::new(Ty::Int), Box::new(Ty::Str))
                        || **t == Ty::Opt(Box::new(Ty::Opt(Box::new(Ty::Int))))
                })
                .map(|(i, _)| i)
                .collect();
            for &i in &idx {
                for &j in &idx {
                    for &k in &idx {
                        schemas.push(vec![i, j, k]);
                    }
                }
            }
        }
        let per_machine = 300;
        let mut machines = Vec::new();
        for chunk in schemas.chunks(per_machine).enumerate() {
            let (ci, chunk) = chunk;
            let mut src = String::from("enum Kind { A, B, C }\nstruct Inner { n int, f bool }\nstruct Marker {}\nstruct Wrap { m struct Marker }\nstruct Twin { a struct Marker, w struct Wrap }\n");
            for (k, sch) in chunk.iter().enumerate() {
                let idx = ci * per_machine + k;
                let fields: Vec<String> = sch.iter().enumerate().map(|(fi, t)| format!("{} {}", FIELD_NAMES[fi], types[*t].src())).collect();
                src.push_str(&format!("struct S{idx} {{ {} }}\n", fields.join(", ")));
            }
            let (_, module) = crate::corpus::parse_compile(&src).unwrap_or_else(|e| mcx::machinery_error(&format!("C26 schema policy does not compile: {e}")));
            machines.push(Machine::from_module(module).unwrap_or_else(|_| mcx::machinery_error("module version")));
        }
        SerSpace { types, schemas, machines, per_machine, thorough }
    }

    fn name_of(u: u64) -> Identifier {
        format!("S{u}").parse().unwrap()
    }

    fn schema_src(&self, u: u64) -> String {
        self.schemas[u as usize].iter().map(|t| self.types[*t].src()).collect::<Vec<_>>().join(", ")
    }

    fn tuples(&self, u: u64) -> Vec<Vec<Value>> {
        let sch = &self.schemas[u as usize];
        let vals: Vec<Vec<Value>> = sch.iter().map(|t| values(&self.types[*t])).collect();
        let mut out = Vec::new();
        if sch.len() == 1 {
            for v in &vals[0] {
                out.push(vec![v.clone()]);
            }
        } else if sch.len() == 3 {
            let small = |v: &Vec<Value>| -> Vec<Value> {
                if v.len() <= 4 {
                    v.clone()
                } else {
                    vec![v[0].clone(), v[1].clone(), v[v.len() - 2].clone(), v[v.len() - 1].clone()]
                }
            };
            let (a, b, c) = (small(&vals[0]), small(&vals[1]), small(&vals[2]));
            for x in &a {
                for y in &b {
                    for z in &c {
                        out.push(vec![x.clone(), y.clone(), z.clone()]);
                    }
                }
            }
        } else {
            for v in &vals[0] {
                for w in &vals[1] {
                    out.push(vec![v.clone(), w.clone()]);
                }
            }
        }
        out
    }

    /// Raw byte strings tried against a schema, in blocks (one block = one case id).
    fn raw_blocks(&self, u: u64) -> u64 {
        let one_field = self.schemas[u as usize].len() == 1;
        if self.schemas[u as usize].len() == 3 {
            return 1;
        }
        if one_field || self.thorough {
            // block 0: len 0 and 1; blocks 1..=256: len 2 by first byte; block 257: len 3–4 over 16 values (one-field only)
            if one_field {
                258
            } else {
                257
            }
        } else {
            1
        }
    }

    fn check_value(&self, m: &Machine, u: u64, c: u64, tuple: &[Value], acc: &mut Acc) {
        let name = Self::name_of(u);
        let sch = &self.schemas[u as usize];
        let s = Struct::new(name.clone(), tuple.iter().enumerate().map(|(i, v)| (FIELD_NAMES[i].parse::<Identifier>().unwrap(), v.clone())).collect::<Vec<_>>());
        let replay = |what: &str| json!({"schema": self.schema_src(u), "value": format!("{s}"), "what": what});
        acc.count("evaluations", 1);
        let bytes = match m.serialize_struct(&s) {
            Ok(b) => b,
            Err(e) => {
                acc.violation(u, c, format!("roundtrip: serialize fails for a conforming value: {e:?}"), format!("serialize_struct({s}) = Err({e:?}) for schema ({})", self.schema_src(u)), replay("serialize"));
                return;
            }
        };
        match m.deserialize_struct(name.clone(), &bytes) {
            Ok(back) if back == s => {
                acc.outcome("roundtrip_ok");
                acc.count("roundtrips", 1);
            }
            Ok(back) => {
                acc.violation(u, c, format!("roundtrip: value changed ({})", self.schema_src(u)), format!("deserialize(serialize({s})) = {back}"), replay("roundtrip"));
                return;
            }
            Err(e) => {
                acc.violation(u, c, format!("roundtrip: deserialize fails: {e:?}"), format!("deserialize(serialize({s})) = Err({e:?}); bytes {}", mcx::hex(&bytes)), replay("roundtrip"));
                return;
            }
        }
        // the instruction path (Serialize in a seal context, Deserialize in an open context)
        if sch.len() == 1 || c % 7 == 0 {
            let mut mm = m.clone();
            mm.progmem = vec![I::Serialize];
            let mut io = ScriptIO::new(0);
            let mut rs = mm.create_run_state(&mut io, CommandContext::Seal(SealContext { name: name.clone(), head_id: CmdId::default() }));
            let _ = rs.stack.push_value(Value::Struct(s.clone()));
            let r = rs.step();
            let top = rs.stack.pop_value();
            match (r, top) {
                (Ok(MachineStatus::Executing), Ok(Value::Bytes(b))) if b == bytes => {}
                (r, t) => {
                    acc.violation(u, c, "roundtrip: Serialize instruction disagrees with serialize_struct".to_string(), format!("Serialize on {s}: {r:?} top {t:?}, serialize_struct gave {}", mcx::hex(&bytes)), replay("Serialize instruction"));
                }
            }
            drop(rs);
            let mut mm = m.clone();
            mm.progmem = vec![I::Deserialize];
            let mut io = ScriptIO::new(0);
            let mut rs = mm.create_run_state(&mut io, CommandContext::Open(OpenContext { name: name.clone() }));
            let _ = rs.stack.push_value(Value::Bytes(bytes.clone()));
            let r = rs.step();
            let top = rs.stack.pop_value();
            match (r, top) {
                (Ok(MachineStatus::Executing), Ok(Value::Struct(b))) if b == s => {
                    acc.count("instruction_roundtrips", 1);
                }
                (r, t) => {
                    acc.violation(u, c, "roundtrip: Deserialize instruction disagrees with deserialize_struct".to_string(), format!("Deserialize of {}: {r:?} top {t:?}", mcx::hex(&bytes)), replay("Deserialize instruction"));
                }
            }
        }
        // reference encoding with marks
        let mut refb = Vec::new();
        let mut marks = Vec::new();
        for v in tuple {
            ref_encode(v, &["n", "f"], &mut refb, &mut marks);
        }
        if refb != bytes {
            acc.count("reference_encoder_disagrees", 1);
            acc.note("reference encoder disagrees with serialize_struct (corruption marks skipped)", || format!("{s}: real {} ref {}", mcx::hex(&bytes), mcx::hex(&refb)));
            return;
        }
        let must_fail = |acc: &mut Acc, data: &[u8], clause: &str, detail: String| {
            acc.count("evaluations", 1);
            acc.count("corruptions", 1);
            match m.deserialize_struct(name.clone(), data) {
                Err(_) => {
                    acc.outcome(&format!("rejected:{clause}"));
                }
                Ok(v) => {
                    acc.outcome(&format!("ACCEPTED:{clause}"));
                    acc.violation(u, c, format!("{clause} accepted"), format!("schema ({}): {detail}: input {} (from {} = {s}) deserialized to {v}", self.schema_src(u), mcx::hex(data), mcx::hex(&bytes)), json!({"schema": self.schema_src(u), "value": format!("{s}"), "input_hex": mcx::hex(data), "clause": clause}));
                }
            }
        };
        // truncations
        for i in 0..bytes.len() {
            must_fail(acc, &bytes[..i], "truncation", format!("cut to {i} bytes"));
        }
        // trailing data
        for b in [0u8, 1, 0x80, 0xff] {
            let mut d = bytes.clone();
            d.push(b);
            must_fail(acc, &d, "trailing-data", format!("extra byte {b:#x}"));
        }
        // marked fields
        for (pos, mark) in &marks {
            match mark {
                Mark::OptTag | Mark::ResTag => {
                    let all_tags = (self.thorough && sch.len() < 3) || sch.len() == 1;
                    for t in (2..=255u8).filter(|t| all_tags || [2, 3, 0x7f, 0x80, 0xff].contains(t)) {
                        let mut d = bytes.clone();
                        d[*pos] = t;
                        must_fail(acc, &d, if *mark == Mark::OptTag { "option-tag" } else { "result-tag" }, format!("tag at {pos} set to {t}"));
                    }
                }
                Mark::Enum(len) => {
                    for bad in [3i64, -1, 64, i64::MAX, i64::MIN] {
                        let mut d = bytes[..*pos].to_vec();
                        varint(zigzag(bad), &mut d);
                        d.extend_from_slice(&bytes[pos + len..]);
                        must_fail(acc, &d, "enum-out-of-range", format!("enum value at {pos} set to {bad}"));
                    }
                }
                Mark::StrBody(len) => {
                    for k in 0..(*len).min(4) {
                        for (b, clause) in [(0xffu8, "invalid-utf8"), (0xc0, "invalid-utf8"), (0x80, "invalid-utf8"), (0x00, "embedded-nul")] {
                            let mut d = bytes.clone();
                            // replacing one byte of a multi-byte char by NUL also breaks UTF-8: still must fail
                            d[pos + k] = b;
                            // the harness decides with std whether the corrupted body really is bad text
                            let body = &d[*pos..pos + len];
                            let bad = if clause == "embedded-nul" { true } else { std::str::from_utf8(body).is_err() };
                            if !bad {
                                continue;
                            }
                            must_fail(acc, &d, clause, format!("string byte at {} set to {b:#x}", pos + k));
                        }
                    }
                    if *len >= 2 && bytes[*pos] >= 0xc0 {
                        // drop the continuation byte of a 2-byte char by shortening the length
                        let mut d = bytes.clone();
                        d[pos - 1] = 1; // only reached for short strings (single-byte length)
                        d.drain(pos + 1..pos + len);
                        must_fail(acc, &d, "invalid-utf8", "string cut inside a character".to_string());
                    }
                }
                Mark::IdLen => {
                    for l in [0u8, 1, 31, 33, 64, 255] {
                        let mut d = bytes.clone();
                        d[*pos] = l;
                        must_fail(acc, &d, "id-length", format!("id length at {pos} set to {l}"));
                        // also with the body adjusted to the claimed length
                        let mut d2 = bytes[..*pos].to_vec();
                        d2.push(l);
                        d2.extend(std::iter::repeat(0xabu8).take(l as usize));
                        d2.extend_from_slice(&bytes[pos + 33..]);
                        must_fail(acc, &d2, "id-length", format!("id at {pos} re-encoded with {l} bytes"));
                    }
                }
            }
        }
        // generic single-position corruptions (4.8): only "no panic" is demanded
        let huge32: [u8; 5] = [0xff, 0xff, 0xff, 0xff, 0x0f];
        let huge64: [u8; 10] = [0xff, 0xff, 0xff, 0xff, 0xff, 0xff, 0xff, 0xff, 0xff, 0x01];
        let lim = bytes.len().min(48);
        for i in 0..lim {
            for b in [0x00, 0x01, 0x7f, 0x80, 0xff, bytes[i] ^ 1, bytes[i] ^ 0x80, bytes[i].wrapping_add(1), bytes[i].wrapping_sub(1)] {
                let mut d = bytes.clone();
                d[i] = b;
                acc.count("evaluations", 1);
                match m.deserialize_struct(name.clone(), &d) {
                    Ok(_) => acc.outcome("corrupt:accepted-as-other-value"),
                    Err(e) => acc.outcome(&format!("corrupt:{e:?}")),
                }
            }
            for h in [&huge32[..], &huge64[..]] {
                let mut d = bytes[..i].to_vec();
                d.extend_from_slice(h);
                d.extend_from_slice(&bytes[i + 1..]);
                acc.count("evaluations", 1);
                match m.deserialize_struct(name.clone(), &d) {
                    Ok(_) => acc.outcome("corrupt:accepted-as-other-value"),
                    Err(e) => acc.outcome(&format!("corrupt:{e:?}")),
                }
            }
            // move one byte across the boundary i|i+1 (swap of adjacent bytes)
            if i + 1 < bytes.len() {
                let mut d = bytes.clone();
                d.swap(i, i + 1);
                acc.count("evaluations", 1);
                let _ = m.deserialize_struct(name.clone(), &d);
            }
        }
    }

    fn check_raw(&self, m: &Machine, u: u64, case: u64, block: u64, acc: &mut Acc) {
        let name = Self::name_of(u);
        let run = |acc: &mut Acc, d: &[u8]| {
            acc.count("evaluations", 1);
            acc.count("raw_strings", 1);
            match m.deserialize_struct(name.clone(), d) {
                Ok(v) => {
                    acc.count("raw_accepted", 1);
                    // what is accepted must serialize again and come back equal
                    match m.serialize_struct(&v).ok().and_then(|b| m.deserialize_struct(name.clone(), &b).ok()) {
                        Some(v2) if v2 == v => {}
                        _ => acc.violation(u, case, "roundtrip: value accepted from raw bytes does not round-trip".to_string(), format!("schema ({}): bytes {} gave {v}", self.schema_src(u), mcx::hex(d)), json!({"schema": self.schema_src(u), "input_hex": mcx::hex(d)})),
                    }
                }
                Err(_) => {}
            }
        };
        match block {
            0 => {
                run(acc, &[]);
                for a in 0..=255u8 {
                    run(acc, &[a]);
                }
            }
            1..=256 => {
                let a = (block - 1) as u8;
                for b in 0..=255u8 {
                    run(acc, &[a, b]);
                }
            }
            _ => {
                const AL: [u8; 16] = [0x00, 0x01, 0x02, 0x03, 0x04, 0x1f, 0x20, 0x21, 0x40, 0x41, 0x7f, 0x80, 0x81, 0xc3, 0xfe, 0xff];
                for a in AL {
                    for b in AL {
                        for c in AL {
                            run(acc, &[a, b, c]);
                            for d in AL {
                                run(acc, &[a, b, c, d]);
                            }
                        }
                    }
                }
            }
        }
    }
}

impl Space for SerSpace {
    fn name(&self) -> &str {
        "ser"
    }
    fn units(&self) -> u64 {
        self.schemas.len() as u64
    }
    fn run_unit(&self, u: u64, only: Option<u64>, skip: &BTreeSet<u64>, acc: &mut Acc) {
        let m = &self.machines[u as usize / self.per_machine];
        let tuples = self.tuples(u);
        let nv = tuples.len() as u64;
        let total = nv + self.raw_blocks(u);
        let before = acc.counters.get("roundtrips").copied().unwrap_or(0);
        for c in 0..total {
            if only.is_some_and(|o| o != c) || skip.contains(&c) {
                continue;
            }
            CUR_CASE.store(c, Ordering::Relaxed);
            let res = mcx::catch(|| {
                let mut a = Acc::default();
                if c < nv {
                    self.check_value(m, u, c, &tuples[c as usize], &mut a);
                } else {
                    self.check_raw(m, u, c, c - nv, &mut a);
                }
                a
            });
            match res {
                Ok(a) => acc.absorb(a),
                Err(msg) => {
                    let loc = mcx::last_panic_location();
                    let key = format!("panic={}: {}", common::panic_site(&loc), common::panic_class(&msg));
                    let what = if c < nv { format!("value tuple #{c} and its corruptions") } else { format!("raw byte strings block {}", c - nv) };
                    acc.violation(u, c, key, format!("panic `{msg}` at {loc}: schema ({}), {what}", self.schema_src(u)), json!({"schema": self.schema_src(u), "what": what}));
                    acc.outcome("PANIC");
                }
            }
        }
        // distinct non-trivial = value tuples of this schema that made it through the full round trip
        let after = acc.counters.get("roundtrips").copied().unwrap_or(0);
        acc.count("distinct_nontrivial", after - before);
        acc.count("schemas", 1);
        if u % 211 == 0 {
            acc.sample(|| json!({"schema": self.schema_src(u), "value_tuples": nv, "first_value": tuples.last().map(|t| t.iter().map(|v| format!("{v}")).collect::<Vec<_>>())}));
        }
    }
    fn describe_fatal(&self, u: u64, c: u64, _aux: u64, how: &str) -> (String, String, J) {
        (format!("process killed ({how})"), format!("process killed by {how}: schema ({}) case {c}", self.schema_src(u)), json!({"schema": self.schema_src(u)}))
    }
}

pub fn space_by_name(name: &str, args: &Args) -> Box<dyn Space> {
    match name {
        "ser" => Box::new(SerSpace::new(args.tier == mcx::Tier::Thorough)),
        n => mcx::machinery_error(&format!("C26: unknown space {n}")),
    }
}

pub fn run(args: &Args) {
    if let Some(name) = args.extra.get("child") {
        let sp = space_by_name(name, args);
        common::child_main(sp.as_ref(), args);
    }
    if args.replay.is_some() {
        common::replay_main(args, &|n| space_by_name(n, args));
    }
    let mut rep = Report::new(args, Level::Exploration);
    let sp = space_by_name("ser", args);
    let (acc, complete) = common::run_space(sp.as_ref(), args, 32);
    rep.set("schemas_total", sp.units());
    rep.set("type_alphabet", types().iter().map(|t| t.src()).collect::<Vec<_>>());
    common::fold(&mut rep, "ser", acc);
    rep.set(
        "rule",
        "all struct schemas with ≤2 fields over 52 types (thorough: plus all three-field schemas over 14 of them, ≤4 values per field) (int,bool,string,bytes,id,enum,struct Inner, the field-less struct Marker and structs made only of it — zero bytes on the wire; option/result nested ≤2), compiled by the real compiler × all tuples of boundary values (cross product) → serialize/deserialize through Machine::{serialize,deserialize}_struct and the Serialize/Deserialize instructions; per encoding: every truncation, 4 trailing bytes, every option/result tag 2..=255 (quick, two-field schemas: tags 2,3,0x7f,0x80,0xff), enum values outside, UTF-8 / NUL corruptions of string bodies, id lengths ≠32, 9 byte values + 2 huge varints + adjacent swap at every position (≤48); raw byte strings: all of length ≤2 (one-field schemas; thorough: all schemas), length 3–4 over 16 values (one-field schemas), length ≤1 otherwise. non-trivial = distinct (schema, value tuple) that completed the full round trip",
    );
    rep.set("exhaustive", complete);
    if rep.counter("reference_encoder_disagrees") > 0 {
        mcx::machinery_error("C26: the harness's reference encoder disagrees with serialize_struct; corruption marks cannot be placed (see observations)");
    }
    for c in ["roundtrips", "instruction_roundtrips", "corruptions", "raw_strings", "raw_accepted"] {
        rep.require_nonzero(c);
    }
    rep.assume("schemas come from the real compiler; values are built by the harness to conform to the schema");
    rep.assume("rejection oracles for truncation/trailing data rely on the decoder being a deterministic streaming decoder (a strict prefix / extension of a fully consumed encoding cannot itself be fully consumed)");
    rep.finish()
}
