//! C27 — policy front ends are total.
//!
//! Every text below is parsed with the real parser (`parse_policy_document`, `parse_policy_str`,
//! `parse_expression`); every AST the parser returns is compiled with the real compiler (debug
//! on and off; documents also with the real FFI schemas and with `stub_ffi`).
//! Oracle: `Ok` or `Err` comes back — no unwind, no abort, no stack exhaustion.
//! Spaces:
//!  * `tok-*`   all token strings of length ≤ L over a per-context vocabulary, placed in a context
//!              template (bare expression, statement in function / action / policy / finish, top
//!              level, type position);
//!  * `md`      all documents of ≤ N lines over a vocabulary of Markdown / front-matter lines;
//!  * `docmut`  every policy document found in the repository: every single-token deletion,
//!              duplication, adjacent swap, and every byte truncation (at char boundaries);
//!  * `ladder`  nesting ladders of every depth ≤ D for every nesting construct;
//!  * `wide`    struct / enum types whose number of values is around 2^64, as match scrutinees;
//!  * `rectype` recursive and mutually recursive type definitions and their uses.

use std::{
    collections::BTreeSet,
    path::{Path, PathBuf},
    sync::atomic::Ordering,
};

use aranya_crypto::keystore::memstore::MemStore;
use aranya_crypto_ffi::Ffi as CryptoFfi;
use aranya_device_ffi::FfiDevice as DeviceFfi;
use aranya_envelope_ffi::Ffi as EnvelopeFfi;
use aranya_idam_ffi::Ffi as IdamFfi;
use aranya_perspective_ffi::FfiPerspective as PerspectiveFfi;
use aranya_policy_ast::{Policy, Version};
use aranya_policy_compiler::Compiler;
use aranya_policy_lang::lang::{parse_expression, parse_policy_document, parse_policy_str, ParseError};
use aranya_policy_module::ffi::ModuleSchema;
use aranya_policy_vm::ffi::FfiModule as _;
use mcx::{json, Args, Level, Report, Tier, Value as J};

use crate::common::{self, Acc, Space, CUR_AUX, CUR_CASE};

fn real_ffi() -> [ModuleSchema<'static>; 5] {
    [CryptoFfi::<MemStore>::SCHEMA, DeviceFfi::SCHEMA, EnvelopeFfi::SCHEMA, IdamFfi::<MemStore>::SCHEMA, PerspectiveFfi::SCHEMA]
}

#[derive(Clone, Copy, PartialEq, Eq, Debug)]
pub enum Entry {
    Expr,
    Str,
    Doc,
}

/// Stage markers for the fatal handler (CUR_AUX): 1 parse, 2.. compile variants, 9 display.
fn stage(n: u64) {
    CUR_AUX.store(n, Ordering::Relaxed);
}
fn stage_name(n: u64) -> &'static str {
    match n {
        1 => "parse",
        2 => "compile(debug)",
        3 => "compile(release)",
        4 => "compile(real ffi)",
        5 => "compile(stub ffi)",
        9 => "error display",
        _ => "?",
    }
}

fn parse_class(e: &ParseError) -> String {
    let s = format!("{:?}", e.kind);
    let n: String = s.chars().take_while(|c| c.is_ascii_alphanumeric()).collect();
    format!("parse-err:{n}")
}

struct OneResult {
    /// outcome classes recorded for this text
    classes: Vec<String>,
    past_grammar: bool,
    parsed: bool,
    compiled: bool,
}

/// The subject: parse, then compile whatever parsed. Panics propagate to the caller's catch.
fn front_end(entry: Entry, text: &str, with_ffi: bool, notes: &mut Vec<(String, String)>) -> OneResult {
    let mut r = OneResult { classes: Vec::new(), past_grammar: false, parsed: false, compiled: false };
    stage(1);
    let parsed: Result<Option<Policy>, ParseError> = match entry {
        Entry::Expr => parse_expression(text).map(|_| None),
        Entry::Str => parse_policy_str(text, Version::V2).map(Some),
        Entry::Doc => parse_policy_document(text).map(Some),
    };
    match parsed {
        Err(e) => {
            let c = parse_class(&e);
            r.past_grammar = c != "parse-err:Syntax" && c != "parse-err:FrontMatter";
            r.classes.push(c);
            // rendering the error is outside the statement: observed, never a verdict
            // (sampled for plain syntax errors: it costs ~10× the parse itself)
            if r.past_grammar || mcx::fnv64(text.as_bytes()) % 16 == 0 {
                stage(9);
                if let Err(p) = mcx::catch(|| e.to_string()) {
                    notes.push((format!("ParseError Display panics: {}", common::panic_class(&p)), text.chars().take(200).collect()));
                }
            }
        }
        Ok(None) => {
            r.past_grammar = true;
            r.parsed = true;
            r.classes.push("parse-ok:expression".into());
        }
        Ok(Some(ast)) => {
            r.past_grammar = true;
            r.parsed = true;
            r.classes.push("parse-ok".into());
            let ffi = real_ffi();
            let mut variants: Vec<(u64, Compiler<'_>)> = vec![(2, Compiler::new(&ast).debug(true)), (3, Compiler::new(&ast).debug(false))];
            if with_ffi {
                // documents: the plain compilers stop at the first `use`, so they are only kept
                // for documents without FFI imports
                if !ast.ffi_imports.is_empty() {
                    variants.clear();
                }
                variants.push((4, Compiler::new(&ast).ffi_modules(&ffi).debug(true)));
                variants.push((5, Compiler::new(&ast).stub_ffi(true).debug(true)));
            }
            for (st, c) in variants {
                stage(st);
                match c.compile() {
                    Ok(_) => {
                        r.compiled = true;
                        r.classes.push("compile-ok".into());
                    }
                    Err(e) => {
                        stage(9);
                        match mcx::catch(|| e.to_string()) {
                            Ok(s) => {
                                let first = s.lines().next().unwrap_or("");
                                let cls: String = first.trim_start_matches("error: ").chars().take_while(|c| *c != ':' && *c != '`' && *c != '[').take(48).collect();
                                r.classes.push(format!("compile-err:{cls}"));
                            }
                            Err(p) => {
                                r.classes.push("compile-err:(display panicked)".into());
                                notes.push((format!("CompileError Display panics: {}", common::panic_class(&p)), text.chars().take(200).collect()));
                            }
                        }
                    }
                }
            }
        }
    }
    r
}

/// Run one text, fold the result.
fn run_text(space: &str, u: u64, c: u64, entry: Entry, text: &str, with_ffi: bool, acc: &mut Acc, accepted: &mut BTreeSet<u64>, describe: &dyn Fn() -> J) -> bool {
    CUR_CASE.store(c, Ordering::Relaxed);
    let mut notes = Vec::new();
    let res = mcx::catch(|| front_end(entry, text, with_ffi, &mut notes));
    acc.count("evaluations", 1);
    for (k, ex) in notes {
        acc.note(&k, || ex);
    }
    let mut parsed = false;
    match res {
        Ok(r) => {
            parsed = r.parsed;
            for cl in &r.classes {
                acc.outcome(cl);
            }
            if r.past_grammar {
                accepted.insert(mcx::fnv64(text.as_bytes()));
            }
            if r.parsed {
                acc.count("parsed_ok", 1);
            }
            if r.compiled {
                acc.count("compiled_ok", 1);
                if acc.samples.is_empty() {
                    acc.sample(|| {
                        let mut j = describe();
                        j["outcomes"] = json!(r.classes);
                        j
                    });
                }
            }
        }
        Err(msg) => {
            acc.outcome("PANIC");
            let loc = mcx::last_panic_location();
            let st = stage_name(CUR_AUX.load(Ordering::Relaxed));
            let which = if st == "parse" { "parse" } else { "compile" };
            let key = format!("{which} panic={}: {}", common::panic_site(&loc), common::panic_class(&msg));
            let mut j = describe();
            j["text"] = json!(text.chars().take(4000).collect::<String>());
            j["entry"] = json!(format!("{entry:?}"));
            acc.violation(u, c, key, format!("[{space}] {st} panicked `{msg}` at {loc} on input ({entry:?}): {}", text.chars().take(400).collect::<String>()), j);
        }
    }
    parsed
}

// ---------------------------------------------------------------------------------------------
// token strings

pub struct TokSpace {
    name: String,
    entry: Entry,
    template: &'static str,
    vocab: Vec<&'static str>,
    max_len: usize,
    /// (len, units of that len, first unit)
    layout: Vec<(usize, u64, u64)>,
}

const V_EXPR: &[&str] = &[
    "x", "S", "1", "-1", "\"s\"", "true", "None", "Some", "Ok", "Err", "Unit", "this", "(", ")", "{", "}", "[", "]", ":", ",", ".", "::", "?", "=>", "+",
    "-", "!", "==", "!=", ">", "<", ">=", "<=", "&&", "||", "or", "is", "as", "substruct", "if", "else", "match", "_", "|", "query", "exists",
    "count_up_to", "at_least", "todo()", "return", "recall", "...", "let", "=", "9223372036854775808", "\"\\x\"", "\"\\xZ1\"", "test_fail(",
];
const V_STMT: &[&str] = &[
    "x", "S", "F", "1", "\"s\"", "true", "(", ")", "{", "}", "[", "]", ":", ",", "=", "=>", "?", ".", "let", "check", "else", "match", "if", "finish",
    "map", "as", "create", "update", "to", "delete", "emit", "return", "recall", "publish", "action", "debug_assert(", "_", "|", "==", "!", "None",
    "Some", "todo()", "query", "exists", "this", "+", "r", "f", "a",
];
const V_TOP: &[&str] = &[
    "use", "fact", "immutable", "action", "ephemeral", "effect", "struct", "enum", "command", "function", "finish", "let", "x", "S", "int", "bool",
    "string", "bytes", "id", "option", "optional", "result", "unit", "dynamic", "fields", "seal", "open", "policy", "recall", "attributes", "(", ")",
    "{", "}", "[", "]", ",", ":", "=", "=>", "+", "1", "\"s\"", "return", "true",
];
const V_TYPE: &[&str] = &["int", "bool", "string", "bytes", "id", "unit", "option", "optional", "result", "struct", "enum", "[", "]", ",", "x", "S", "K", "dynamic", "+", "never"];

const T_EXPR_IN_FN: &str = "enum K { A, B }\nstruct S { a int }\nfact F[k int]=>{v int}\nfunction g(n int) int { return n }\nfunction f(x int, s struct S, o option[int]) int {\n let v = @\n return 0\n}\n";
const T_STMT_FN: &str = "struct S { a int }\nfact F[k int]=>{v int}\nfunction f(x int, a struct S) int {\n @\n return 0\n}\n";
const T_STMT_ACTION: &str = "struct S { a int }\nfact F[k int]=>{v int}\ncommand C { fields { a int } seal { return todo() } open { return todo() } policy { finish {} } }\naction f(x int) {\n @\n}\naction a(x int) { publish C { a: x } }\n";
const T_STMT_POLICY: &str = "struct S { a int }\nfact F[k int]=>{v int}\neffect E { a int }\nfinish function f(x int) { create F[k: x]=>{v: x} }\ncommand C { fields { a int } seal { return todo() } open { return todo() } policy {\n let x = this.a\n @\n } recall r() { finish {} } }\n";
const T_STMT_FINISH: &str = "struct S { a int }\nfact F[k int]=>{v int}\neffect E { a int }\nfinish function f(x int) { create F[k: x]=>{v: x} }\ncommand C { fields { a int } seal { return todo() } open { return todo() } policy {\n let x = this.a\n finish {\n @\n }\n } recall r() { finish {} } }\n";
const T_TYPE: &str = "enum K { A }\nstruct S { a int }\nstruct T { f @ }\n";

/// Case-id offset of the "expression wrapped in a function" variant of a tok-expr case.
const IN_FN_CASE: u64 = 1 << 40;

impl TokSpace {
    fn new(name: &str, entry: Entry, template: &'static str, vocab: &[&'static str], max_len: usize) -> Self {
        let k = vocab.len() as u64;
        let mut layout = Vec::new();
        let mut first = 0;
        for len in 0..=max_len {
            let n = if len <= 1 { 1 } else { k.pow((len - 1) as u32) };
            layout.push((len, n, first));
            first += n;
        }
        TokSpace { name: name.to_string(), entry, template, vocab: vocab.to_vec(), max_len, layout }
    }
    fn text_of(&self, u: u64, c: u64) -> Option<String> {
        let k = self.vocab.len() as u64;
        let &(len, _, first) = self.layout.iter().rev().find(|l| u >= l.2)?;
        let ncases = k.pow(len.min(1) as u32);
        if c >= ncases {
            return None;
        }
        let mut idx = Vec::with_capacity(len);
        let mut p = u - first;
        for _ in 0..len.saturating_sub(1) {
            idx.push((p % k) as usize);
            p /= k;
        }
        idx.reverse();
        if len >= 1 {
            idx.push(c as usize);
        }
        let toks: Vec<&str> = idx.iter().map(|i| self.vocab[*i]).collect();
        let body = toks.join(" ");
        Some(if self.template.is_empty() { body } else { self.template.replace('@', &body) })
    }
    fn cases_of(&self, u: u64) -> u64 {
        let k = self.vocab.len() as u64;
        let len = self.layout.iter().rev().find(|l| u >= l.2).map(|l| l.0).unwrap_or(0);
        k.pow(len.min(1) as u32)
    }
}

impl Space for TokSpace {
    fn name(&self) -> &str {
        &self.name
    }
    fn units(&self) -> u64 {
        self.layout.iter().map(|l| l.1).sum()
    }
    fn run_unit(&self, u: u64, only: Option<u64>, skip: &BTreeSet<u64>, acc: &mut Acc) {
        let mut accepted = BTreeSet::new();
        for c in 0..self.cases_of(u) {
            if only.is_some_and(|o| o != c && o != c + IN_FN_CASE) || skip.contains(&c) {
                continue;
            }
            let Some(text) = self.text_of(u, c) else { continue };
            let parsed = run_text(&self.name, u, c, self.entry, &text, false, acc, &mut accepted, &|| json!({"token_space": self.name, "text": text}));
            if parsed && self.entry == Entry::Expr && !skip.contains(&(c + IN_FN_CASE)) {
                // every token string that is an expression is also compiled inside a function
                let wrapped = T_EXPR_IN_FN.replace('@', &text);
                acc.count("expressions_compiled_in_function", 1);
                run_text(&self.name, u, c + IN_FN_CASE, Entry::Str, &wrapped, false, acc, &mut accepted, &|| json!({"token_space": self.name, "text": wrapped}));
            }
        }
        acc.count("distinct_nontrivial", accepted.len() as u64);
    }
    fn describe_fatal(&self, u: u64, c: u64, aux: u64, how: &str) -> (String, String, J) {
        let text = if c >= IN_FN_CASE { T_EXPR_IN_FN.replace('@', &self.text_of(u, c - IN_FN_CASE).unwrap_or_default()) } else { self.text_of(u, c).unwrap_or_default() };
        (
            format!("{} killed the process ({how})", stage_name(aux)),
            format!("[{}] process killed by {how} during {} of: {}", self.name, stage_name(aux), text.chars().take(300).collect::<String>()),
            json!({"token_space": self.name, "text": text, "max_len": self.max_len}),
        )
    }
}

// ---------------------------------------------------------------------------------------------
// markdown fragments

const MD_LINES: &[&str] = &[
    "---",
    "policy-version: 2",
    "policy-version: 1",
    "policy-version: \"2\"",
    "policy-version: [",
    "other: x",
    "```policy",
    "```",
    "````policy",
    "~~~policy",
    "```policy extra",
    "   ```policy",
    "    ```policy",
    "> ```policy",
    "- ```policy",
    "```rust",
    "use x",
    "action a() {}",
    "let x = ",
    "é",
    "",
    "# T",
    "| a | b |",
];

pub struct MdSpace {
    /// documents of this many lines or more are only generated with a trailing newline
    both_endings_below: usize,
    max_lines: usize,
    layout: Vec<(usize, u64, u64)>,
}

impl MdSpace {
    fn new(max_lines: usize, both_endings_below: usize) -> Self {
        let k = MD_LINES.len() as u64;
        let mut layout = Vec::new();
        let mut first = 0;
        for len in 0..=max_lines {
            let n = if len <= 2 { 1 } else { k.pow((len - 2) as u32) };
            layout.push((len, n, first));
            first += n;
        }
        MdSpace { both_endings_below, max_lines, layout }
    }
    fn text_of(&self, u: u64, c: u64) -> Option<String> {
        let k = MD_LINES.len() as u64;
        let &(len, _, first) = self.layout.iter().rev().find(|l| u >= l.2)?;
        if c >= k.pow(len.min(2) as u32) * 2 {
            return None;
        }
        let trailing_newline = c % 2 == 0;
        if !trailing_newline && len >= self.both_endings_below {
            return None;
        }
        let mut cc = c / 2;
        let mut idx = Vec::new();
        let mut p = u - first;
        for _ in 0..len.saturating_sub(2) {
            idx.push((p % k) as usize);
            p /= k;
        }
        idx.reverse();
        let mut tail = Vec::new();
        for _ in 0..len.min(2) {
            tail.push((cc % k) as usize);
            cc /= k;
        }
        tail.reverse();
        idx.extend(tail);
        let mut s = idx.iter().map(|i| MD_LINES[*i]).collect::<Vec<_>>().join("\n");
        if trailing_newline {
            s.push('\n');
        }
        Some(s)
    }
}

impl Space for MdSpace {
    fn name(&self) -> &str {
        "md"
    }
    fn units(&self) -> u64 {
        self.layout.iter().map(|l| l.1).sum()
    }
    fn run_unit(&self, u: u64, only: Option<u64>, skip: &BTreeSet<u64>, acc: &mut Acc) {
        let k = MD_LINES.len() as u64;
        let len = self.layout.iter().rev().find(|l| u >= l.2).map(|l| l.0).unwrap_or(0);
        let mut accepted = BTreeSet::new();
        for c in 0..k.pow(len.min(2) as u32) * 2 {
            if only.is_some_and(|o| o != c) || skip.contains(&c) {
                continue;
            }
            let Some(text) = self.text_of(u, c) else { continue };
            run_text("md", u, c, Entry::Doc, &text, false, acc, &mut accepted, &|| json!({"markdown": text}));
        }
        acc.count("distinct_nontrivial", accepted.len() as u64);
    }
    fn describe_fatal(&self, u: u64, c: u64, aux: u64, how: &str) -> (String, String, J) {
        let text = self.text_of(u, c).unwrap_or_default();
        (format!("{} killed the process ({how})", stage_name(aux)), format!("[md] process killed by {how} during {} of: {text:?}", stage_name(aux)), json!({"markdown": text, "max_lines": self.max_lines}))
    }
}

// ---------------------------------------------------------------------------------------------
// document mutations

fn repo_root() -> PathBuf {
    PathBuf::from(std::env::var("VERIF_REPO").unwrap_or_else(|_| "/repo".into()))
}

fn walk(dir: &Path, out: &mut Vec<PathBuf>) {
    let Ok(rd) = std::fs::read_dir(dir) else { return };
    let mut entries: Vec<_> = rd.flatten().map(|e| e.path()).collect();
    entries.sort();
    for p in entries {
        let name = p.file_name().and_then(|n| n.to_str()).unwrap_or("");
        if p.is_dir() {
            if name == "target" || name.starts_with('.') {
                continue;
            }
            walk(&p, out);
        } else if name.ends_with(".md") || name.ends_with(".policy") {
            out.push(p);
        }
    }
}

/// (relative path, entry point, text) of every policy document in the repository.
pub fn documents() -> Vec<(String, Entry, String)> {
    let root = repo_root();
    let mut files = Vec::new();
    walk(&root.join("crates"), &mut files);
    let mut out = Vec::new();
    for f in files {
        let Ok(text) = std::fs::read_to_string(&f) else { continue };
        let rel = f.strip_prefix(&root).unwrap_or(&f).display().to_string();
        if rel.ends_with(".md") {
            if text.contains("policy-version") && text.contains("```policy") {
                out.push((rel, Entry::Doc, text));
            }
        } else {
            out.push((rel, Entry::Str, text));
        }
    }
    out
}

/// Split into (whitespace/comment-free) tokens with their byte ranges.
fn lex(text: &str) -> Vec<(usize, usize)> {
    let b = text.as_bytes();
    let mut out = Vec::new();
    let mut i = 0;
    const MULTI: [&str; 12] = ["```", "---", "...", "=>", "==", "!=", ">=", "<=", "&&", "||", "::", "//"];
    while i < b.len() {
        let ch = b[i];
        if ch.is_ascii_whitespace() {
            i += 1;
            continue;
        }
        let start = i;
        if ch.is_ascii_alphanumeric() || ch == b'_' {
            while i < b.len() && (b[i].is_ascii_alphanumeric() || b[i] == b'_') {
                i += 1;
            }
        } else if ch == b'"' {
            i += 1;
            while i < b.len() && b[i] != b'"' && b[i] != b'\n' {
                if b[i] == b'\\' {
                    i += 1;
                }
                i += 1;
            }
            i = (i + 1).min(b.len());
        } else if let Some(m) = MULTI.iter().find(|m| text[i..].starts_with(**m)) {
            i += m.len();
        } else if ch < 0x80 {
            i += 1;
        } else {
            // one whole non-ASCII char
            let n = text[i..].chars().next().map(|c| c.len_utf8()).unwrap_or(1);
            i += n;
        }
        while !text.is_char_boundary(i.min(b.len())) {
            i += 1;
        }
        out.push((start, i.min(b.len())));
    }
    out
}

pub struct DocMutSpace {
    docs: Vec<(String, Entry, String)>,
    toks: Vec<Vec<(usize, usize)>>,
    /// (doc, kind 0 del / 1 dup / 2 swap / 3 truncate, chunk)
    units: Vec<(usize, usize, usize)>,
    chunk: usize,
    /// quick tier: documents above 3000 bytes get every token deletion, duplication / swap of
    /// every 4th token, and truncation at every line start only
    reduce_big: bool,
}

impl DocMutSpace {
    fn new(thorough: bool) -> Self {
        let docs = documents();
        let toks: Vec<_> = docs.iter().map(|d| lex(&d.2)).collect();
        let chunk = 64;
        let mut units = Vec::new();
        for (i, d) in docs.iter().enumerate() {
            for kind in 0..3 {
                for ch in 0..toks[i].len().div_ceil(chunk) {
                    units.push((i, kind, ch));
                }
            }
            for ch in 0..(d.2.len() + 1).div_ceil(chunk) {
                units.push((i, 3, ch));
            }
        }
        DocMutSpace { docs, toks, units, chunk, reduce_big: !thorough }
    }
    fn mutate(&self, u: u64, c: u64) -> Option<(String, String)> {
        let (di, kind, ch) = self.units[u as usize];
        let text = &self.docs[di].2;
        let t = &self.toks[di];
        let i = ch * self.chunk + c as usize;
        let big = self.reduce_big && text.len() > 3000;
        if big && (kind == 1 || kind == 2) && i % 4 != 0 {
            return None;
        }
        match kind {
            0 => {
                let &(a, b) = t.get(i)?;
                Some((format!("{}{}", &text[..a], &text[b..]), format!("delete token #{i} `{}`", &text[a..b])))
            }
            1 => {
                let &(a, b) = t.get(i)?;
                Some((format!("{} {}{}", &text[..b], &text[a..b], &text[b..]), format!("duplicate token #{i} `{}`", &text[a..b])))
            }
            2 => {
                let &(a, b) = t.get(i)?;
                let &(c2, d) = t.get(i + 1)?;
                Some((format!("{}{}{}{}{}", &text[..a], &text[c2..d], &text[b..c2], &text[a..b], &text[d..]), format!("swap tokens #{i} `{}` and `{}`", &text[a..b], &text[c2..d])))
            }
            _ => {
                if i > text.len() || !text.is_char_boundary(i) {
                    return None;
                }
                if big && i != text.len() && !(i == 0 || text.as_bytes()[i - 1] == b'\n') {
                    return None;
                }
                Some((text[..i].to_string(), format!("truncate to {i} bytes")))
            }
        }
    }
}

impl Space for DocMutSpace {
    fn name(&self) -> &str {
        "docmut"
    }
    fn units(&self) -> u64 {
        self.units.len() as u64
    }
    fn run_unit(&self, u: u64, only: Option<u64>, skip: &BTreeSet<u64>, acc: &mut Acc) {
        let (di, kind, ch) = self.units[u as usize];
        let (path, entry, _) = &self.docs[di];
        let mut accepted = BTreeSet::new();
        if kind == 0 && ch == 0 && only.is_none() && !skip.contains(&(u64::MAX - 1)) {
            // the unmodified document itself
            let text = &self.docs[di].2;
            let before = acc.counters.get("parsed_ok").copied().unwrap_or(0);
            let compiled_before = acc.counters.get("compiled_ok").copied().unwrap_or(0);
            run_text("docmut", u, u64::MAX - 1, *entry, text, true, acc, &mut accepted, &|| json!({"document": path, "mutation": "none"}));
            if acc.counters.get("parsed_ok").copied().unwrap_or(0) > before {
                acc.count("documents_parsing_unmodified", 1);
            }
            if acc.counters.get("compiled_ok").copied().unwrap_or(0) > compiled_before {
                acc.count("documents_compiling_unmodified", 1);
                acc.count(&format!("tally:compiles unmodified: {path}"), 1);
            }
            acc.count("documents", 1);
        }
        for c in 0..self.chunk as u64 {
            if only.is_some_and(|o| o != c) || skip.contains(&c) {
                continue;
            }
            let Some((text, what)) = self.mutate(u, c) else { continue };
            run_text("docmut", u, c, *entry, &text, true, acc, &mut accepted, &|| json!({"document": path, "mutation": what}));
        }
        acc.count("distinct_nontrivial", accepted.len() as u64);
    }
    fn describe_fatal(&self, u: u64, c: u64, aux: u64, how: &str) -> (String, String, J) {
        let (di, _, _) = self.units[u as usize];
        let what = self.mutate(u, c).map(|m| m.1).unwrap_or_else(|| "unmodified".into());
        (
            format!("{} killed the process ({how})", stage_name(aux)),
            format!("[docmut] process killed by {how} during {} of {} with mutation: {what}", stage_name(aux), self.docs[di].0),
            json!({"document": self.docs[di].0, "mutation": what}),
        )
    }
}

// ---------------------------------------------------------------------------------------------
// nesting ladders

struct Shape {
    name: &'static str,
    entry: Entry,
    /// text at depth d
    gen: fn(usize) -> String,
}

fn rep(s: &str, n: usize) -> String {
    s.repeat(n)
}
fn in_fn(e: String) -> String {
    format!("struct S {{ a int }}\nstruct N {{ n option[struct N2] }}\nstruct N2 {{ a int }}\nfunction g(n int) int {{ return n }}\nfunction f(x int, b bool, o option[int], s struct S) int {{\n let v = {e}\n return 0\n}}\n")
}
fn stmt_fn(e: String) -> String {
    format!("function f(x int, b bool) int {{\n {e}\n return 0\n}}\n")
}

fn shapes() -> Vec<Shape> {
    macro_rules! sh {
        ($n:expr, $e:expr, $f:expr) => {
            Shape { name: $n, entry: $e, gen: $f }
        };
    }
    vec![
        sh!("expr:paren", Entry::Expr, |d| format!("{}1{}", rep("(", d), rep(")", d))),
        sh!("expr:paren-unclosed", Entry::Expr, |d| format!("{}1", rep("(", d))),
        sh!("expr:not", Entry::Expr, |d| format!("{}true", rep("!", d))),
        sh!("expr:some", Entry::Expr, |d| format!("{}1{}", rep("Some(", d), rep(")", d))),
        sh!("expr:ok-err", Entry::Expr, |d| format!("{}1{}", rep("Ok(Err(", d), rep("))", d))),
        sh!("expr:block", Entry::Expr, |d| format!("{}1{}", rep("{ : ", d), rep(" }", d))),
        sh!("expr:block-unclosed", Entry::Expr, |d| rep("{ ", d)),
        sh!("expr:call", Entry::Expr, |d| format!("{}1{}", rep("g(", d), rep(")", d))),
        sh!("expr:dot", Entry::Expr, |d| format!("x{}", rep(".a", d))),
        sh!("expr:add-chain", Entry::Expr, |d| format!("1{}", rep(" + 1", d))),
        sh!("expr:coalesce-chain", Entry::Expr, |d| format!("{}1", rep("o or ", d))),
        sh!("expr:and-chain", Entry::Expr, |d| format!("b{}", rep(" && b", d))),
        sh!("expr:is-chain", Entry::Expr, |d| format!("o{}", rep(" is None", d))),
        sh!("expr:cast-chain", Entry::Expr, |d| format!("s{}", rep(" as S", d))),
        sh!("expr:if", Entry::Expr, |d| format!("{}1{}", rep("if b { : ", d), rep(" } else { : 0 }", d))),
        sh!("expr:match", Entry::Expr, |d| format!("{}1{}", rep("match x { _ => ", d), rep(" }", d))),
        sh!("expr:struct-literal", Entry::Expr, |d| format!("{}1{}", rep("S { a: ", d), rep(" }", d))),
        sh!("expr:bracket-unclosed", Entry::Expr, |d| format!("query F{}", rep("[", d))),
        sh!("fn:paren", Entry::Str, |d| in_fn(format!("{}1{}", rep("(", d), rep(")", d)))),
        sh!("fn:not", Entry::Str, |d| in_fn(format!("{}b", rep("!", d)))),
        sh!("fn:some", Entry::Str, |d| in_fn(format!("{}1{}", rep("Some(", d), rep(")", d)))),
        sh!("fn:ok-err", Entry::Str, |d| in_fn(format!("{}1{}", rep("Ok(Err(", d), rep("))", d)))),
        sh!("fn:block", Entry::Str, |d| in_fn(format!("{}1{}", rep("{ : ", d), rep(" }", d)))),
        sh!("fn:call", Entry::Str, |d| in_fn(format!("{}1{}", rep("g(", d), rep(")", d)))),
        sh!("fn:add-chain", Entry::Str, |d| in_fn(format!("x{}", rep(" + x", d)))),
        sh!("fn:sat-add-nest", Entry::Str, |d| in_fn(format!("{}x{}", rep("saturating_add(x, ", d), rep(")", d)))),
        sh!("fn:coalesce-chain", Entry::Str, |d| in_fn(format!("{}1", rep("o or ", d)))),
        sh!("fn:and-chain", Entry::Str, |d| in_fn(format!("b{}", rep(" && b", d)))),
        sh!("fn:cast-chain", Entry::Str, |d| in_fn(format!("s{}", rep(" as S", d)))),
        sh!("fn:if-expr", Entry::Str, |d| in_fn(format!("{}1{}", rep("if b { : ", d), rep(" } else { : 0 }", d)))),
        sh!("fn:match-expr", Entry::Str, |d| in_fn(format!("{}1{}", rep("match x { _ => ", d), rep(" }", d)))),
        sh!("fn:match-some", Entry::Str, |d| in_fn(format!("{}1{}", rep("match o { Some(q) => 1 None => ", d), rep(" }", d)))),
        sh!("fn:struct-literal-nest", Entry::Str, |d| in_fn(format!("{}1{}", rep("S { a: ", d), rep(" }", d)))),
        sh!("stmt:if", Entry::Str, |d| stmt_fn(format!("{}{}", rep("if b { ", d), rep("}", d)))),
        sh!("stmt:if-else-chain", Entry::Str, |d| stmt_fn(format!("if b {{ }}{}", rep(" else if b { }", d)))),
        sh!("stmt:match", Entry::Str, |d| stmt_fn(format!("{}{}", rep("match b { true => { } false => { ", d), rep("} }", d)))),
        sh!("stmt:let-chain", Entry::Str, |d| stmt_fn((0..d).map(|i| format!("let v{i} = x")).collect::<Vec<_>>().join("\n "))),
        sh!("type:option", Entry::Str, |d| format!("struct T {{ f {}int{} }}", rep("option[", d), rep("]", d))),
        sh!("type:optional", Entry::Str, |d| format!("struct T {{ f {}int }}", rep("optional ", d))),
        sh!("type:result", Entry::Str, |d| format!("struct T {{ f {}int{} }}", rep("result[int, ", d), rep("]", d))),
        sh!("top:struct-chain", Entry::Str, |d| (0..d).map(|i| if i == 0 { "struct S0 { a int }".to_string() } else { format!("struct S{i} {{ p struct S{} }}", i - 1) }).collect::<Vec<_>>().join("\n")),
        sh!("top:struct-insertion-chain", Entry::Str, |d| (0..d).map(|i| if i == 0 { "struct S0 { a int }".to_string() } else { format!("struct S{i} {{ +S{}, f{i} int }}", i - 1) }).collect::<Vec<_>>().join("\n")),
        sh!("top:fn-call-chain", Entry::Str, |d| (0..d).map(|i| if i == 0 { "function f0(x int) int { return x }".to_string() } else { format!("function f{i}(x int) int {{ return f{}(x) }}", i - 1) }).collect::<Vec<_>>().join("\n")),
        sh!("doc:fences", Entry::Doc, |d| format!("---\npolicy-version: 2\n---\n{}", rep("```policy\nuse x\n```\n", d))),
        sh!("doc:blockquote-nest", Entry::Doc, |d| format!("---\npolicy-version: 2\n---\n{}```policy\nuse x\n", rep("> ", d))),
        sh!("doc:list-nest", Entry::Doc, |d| format!("---\npolicy-version: 2\n---\n{}", (0..d).map(|i| format!("{}- a\n", rep("  ", i))).collect::<String>())),
    ]
}

pub struct LadderSpace {
    shapes: Vec<Shape>,
    max_depth: usize,
    case_cap_s: u32,
}

impl Space for LadderSpace {
    fn name(&self) -> &str {
        "ladder"
    }
    fn units(&self) -> u64 {
        self.shapes.len() as u64
    }
    fn run_unit(&self, u: u64, only: Option<u64>, skip: &BTreeSet<u64>, acc: &mut Acc) {
        let sh = &self.shapes[u as usize];
        let mut accepted = BTreeSet::new();
        // a depth that hit the time cap (or killed the process) ends the ladder for this shape:
        // deeper rungs are not attempted (reported as ladder_rungs_not_attempted)
        let stop = skip.iter().min().copied().unwrap_or(u64::MAX);
        for d in 1..=self.max_depth as u64 {
            if only.is_some_and(|o| o != d) {
                continue;
            }
            if d >= stop {
                if d > stop {
                    acc.count("ladder_rungs_not_attempted", 1);
                }
                continue;
            }
            // SAFETY: plain syscall (per-rung time budget).
            unsafe { libc::alarm(self.case_cap_s) };
            let text = (sh.gen)(d as usize);
            run_text("ladder", u, d, sh.entry, &text, false, acc, &mut accepted, &|| json!({"shape": sh.name, "depth": d}));
        }
        acc.count("distinct_nontrivial", accepted.len() as u64);
        acc.count("ladder_shapes", 1);
    }
    fn describe_fatal(&self, u: u64, c: u64, aux: u64, how: &str) -> (String, String, J) {
        let sh = &self.shapes[u as usize];
        // key by shape and stage, not by depth: the smallest killing depth is in the description
        (
            format!("{} killed the process ({how}) shape={}", stage_name(aux), sh.name),
            format!("[ladder] process killed by {how} during {} of shape {} at depth {c} (stack limit {} MiB): {}", stage_name(aux), sh.name, common::CHILD_STACK_BYTES >> 20, (sh.gen)(c as usize).chars().take(200).collect::<String>()),
            json!({"shape": sh.name, "depth": c}),
        )
    }
}


// ---------------------------------------------------------------------------------------------
// wide types: value-count arithmetic of the match exhaustiveness check around 2^64

/// A type with its definitions, its source spelling, and one literal of it.
#[derive(Clone)]
struct WideTy {
    name: String,
    defs: String,
    src: String,
    lit: String,
    is_struct: bool,
}

fn wide_struct(name: &str, fields: &[(String, &WideTy)], extra_defs: &str) -> WideTy {
    let mut defs = String::from(extra_defs);
    let mut seen = BTreeSet::new();
    for (_, t) in fields {
        if !t.defs.is_empty() && seen.insert(t.name.clone()) {
            defs.push_str(&t.defs);
        }
    }
    defs.push_str(&format!("struct {name} {{ {} }}\n", fields.iter().map(|(f, t)| format!("{f} {}", t.src)).collect::<Vec<_>>().join(", ")));
    let lit = format!("{name} {{ {} }}", fields.iter().map(|(f, t)| format!("{f}: {}", t.lit)).collect::<Vec<_>>().join(", "));
    WideTy { name: name.to_string(), defs, src: format!("struct {name}"), lit, is_struct: true }
}

fn wide_types() -> Vec<WideTy> {
    let boolean = WideTy { name: "bool".into(), defs: String::new(), src: "bool".into(), lit: "true".into(), is_struct: false };
    let int = WideTy { name: "int".into(), defs: String::new(), src: "int".into(), lit: "1".into(), is_struct: false };
    let enum_of = |name: &str, n: usize| WideTy {
        name: name.to_string(),
        defs: format!("enum {name} {{ {} }}\n", (0..n).map(|i| format!("V{i}")).collect::<Vec<_>>().join(", ")),
        src: format!("enum {name}"),
        lit: format!("{name}::V0"),
        is_struct: false,
    };
    let n_fields = |k: usize, t: &WideTy| -> Vec<(String, WideTy)> { (0..k).map(|i| (format!("f{i}"), t.clone())).collect() };
    let mk = |name: &str, fields: Vec<(String, WideTy)>| {
        let refs: Vec<(String, &WideTy)> = fields.iter().map(|(f, t)| (f.clone(), t)).collect();
        wide_struct(name, &refs, "")
    };
    let mut out = Vec::new();
    // k bool fields: 2^k values
    for k in [1usize, 2, 8, 31, 32, 33, 62, 63, 64, 65, 128] {
        out.push(mk(&format!("B{k}"), n_fields(k, &boolean)));
    }
    // k fields of a 4-valued enum: 4^k (2^64 at k = 32); 3-valued: 3^40 < 2^64 < 3^41
    let q4 = enum_of("Q4", 4);
    for k in [16usize, 31, 32, 33, 64] {
        out.push(mk(&format!("E4x{k}"), n_fields(k, &q4)));
    }
    let q3 = enum_of("Q3", 3);
    for k in [40usize, 41] {
        out.push(mk(&format!("E3x{k}"), n_fields(k, &q3)));
    }
    // 256-valued enum: 8 fields = 2^64
    let q256 = enum_of("Q256", 256);
    out.push(q256.clone());
    out.push(enum_of("Q1000", 1000));
    for k in [7usize, 8, 9] {
        out.push(mk(&format!("E256x{k}"), n_fields(k, &q256)));
    }
    // nested: j fields of an 8-bool struct (2^(8j)); three levels
    let b8 = mk("Bb8", n_fields(8, &boolean));
    for j in [7usize, 8, 9, 16] {
        out.push(mk(&format!("N{j}x8"), n_fields(j, &b8)));
    }
    let n8 = mk("Nn8x8", n_fields(8, &b8));
    out.push(mk("L3", vec![("a".into(), n8.clone()), ("b".into(), boolean.clone())]));
    out.push(mk("L3x2", vec![("a".into(), n8.clone()), ("b".into(), n8)]));
    // mixed: 63 bools and a 3-valued field (3·2^63 overflows), 64 bools and an unbounded field
    let mut f = n_fields(63, &boolean);
    f.push(("o".into(), WideTy { name: "ob".into(), defs: String::new(), src: "option[bool]".into(), lit: "None".into(), is_struct: false }));
    out.push(mk("M63o", f));
    let mut f = n_fields(64, &boolean);
    f.push(("n".into(), int.clone()));
    out.push(mk("M64int", f));
    let mut f = vec![("n".to_string(), int)];
    f.extend(n_fields(64, &boolean));
    out.push(mk("Mint64", f));
    out
}

pub struct WideSpace {
    types: Vec<WideTy>,
}

const WIDE_WRAPPERS: [&str; 6] = ["T", "option[T]", "result[T, bool]", "result[bool, T]", "option[option[T]]", "result[option[T], T]"];
const WIDE_USES: [&str; 6] = ["match-stmt", "match-expr", "match-stmt-default", "match-expr-binding-arms", "composition", "field-insertion"];

impl WideSpace {
    fn text_of(&self, u: u64, c: u64) -> Option<(String, String)> {
        let t = &self.types[u as usize];
        let w = (c as usize) / WIDE_USES.len();
        let usage = (c as usize) % WIDE_USES.len();
        if w >= WIDE_WRAPPERS.len() {
            return None;
        }
        let ty = WIDE_WRAPPERS[w].replace('T', &t.src);
        // the arm that leaves the wide side uncovered, and arms that cover everything by binding
        let (open_arm, bound_arms): (String, Vec<String>) = match w {
            0 => (t.lit.clone(), vec![t.lit.clone()]),
            1 => ("None".into(), vec!["None".into(), "Some(v)".into()]),
            2 => ("Err(e)".into(), vec!["Err(e)".into(), "Ok(v)".into()]),
            3 => ("Ok(v)".into(), vec!["Ok(v)".into(), "Err(e)".into()]),
            4 => ("None".into(), vec!["None".into(), "Some(v)".into()]),
            _ => ("Ok(None)".into(), vec!["Ok(v)".into(), "Err(e)".into()]),
        };
        let body = match usage {
            0 => format!("function f(p {ty}) int {{\n match p {{\n {open_arm} => {{ return 1 }}\n }}\n return 0\n}}\n"),
            1 => format!("function f(p {ty}) int {{\n let r = match p {{\n {open_arm} => 1\n }}\n return r\n}}\n"),
            2 => format!("function f(p {ty}) int {{\n match p {{\n {open_arm} => {{ return 1 }}\n _ => {{ return 2 }}\n }}\n}}\n"),
            3 => format!("function f(p {ty}) int {{\n let r = match p {{\n {}\n }}\n return r\n}}\n", bound_arms.iter().map(|a| format!("{a} => 1")).collect::<Vec<_>>().join("\n ")),
            4 => {
                if !t.is_struct || w != 0 {
                    return None;
                }
                // struct composition into a wider struct, then an open match on the result
                format!(
                    "struct X {{ +{n}, extra bool }}\nfunction f(p {ty}) int {{\n let x = X {{ extra: true, ...p }}\n let o = Some(x)\n match o {{\n None => {{ return 1 }}\n }}\n return 0\n}}\n",
                    n = t.name
                )
            }
            _ => {
                if !t.is_struct || w != 0 {
                    return None;
                }
                format!("struct X {{ +{n}, extra bool }}\nstruct Y {{ +X, more option[bool] }}\nfunction f(p option[struct Y]) int {{\n match p {{\n None => {{ return 1 }}\n }}\n return 0\n}}\n", n = t.name)
            }
        };
        Some((format!("{}{}", t.defs, body), format!("type {} as {} in {}", t.name, WIDE_WRAPPERS[w], WIDE_USES[usage])))
    }
}

impl Space for WideSpace {
    fn name(&self) -> &str {
        "wide"
    }
    fn units(&self) -> u64 {
        self.types.len() as u64
    }
    fn run_unit(&self, u: u64, only: Option<u64>, skip: &BTreeSet<u64>, acc: &mut Acc) {
        let mut accepted = BTreeSet::new();
        for c in 0..(WIDE_WRAPPERS.len() * WIDE_USES.len()) as u64 {
            if only.is_some_and(|o| o != c) || skip.contains(&c) {
                continue;
            }
            let Some((text, what)) = self.text_of(u, c) else { continue };
            // the generator must only produce syntactically valid programs (checked separately so
            // that a compile panic is not mistaken for a parse failure)
            CUR_CASE.store(c, Ordering::Relaxed);
            stage(1);
            match mcx::catch(|| parse_policy_str(&text, Version::V2).is_ok()) {
                Ok(false) => {
                    acc.count("wide_programs_not_parsing", 1);
                    acc.note("wide-type program does not parse (harness generator)", || what.clone());
                }
                _ => acc.count("wide_programs_parsed", 1),
            }
            run_text("wide", u, c, Entry::Str, &text, false, acc, &mut accepted, &|| json!({"wide": what}));
        }
        acc.count("distinct_nontrivial", accepted.len() as u64);
    }
    fn describe_fatal(&self, u: u64, c: u64, aux: u64, how: &str) -> (String, String, J) {
        let what = self.text_of(u, c).map(|t| t.1).unwrap_or_default();
        (format!("{} killed the process ({how})", stage_name(aux)), format!("[wide] process killed by {how} during {} of {what}", stage_name(aux)), json!({"wide": what}))
    }
}

// ---------------------------------------------------------------------------------------------
// recursive / mutually recursive type definitions

struct RecShape {
    name: &'static str,
    /// definitions, `N` standing for the struct name under test
    defs: &'static str,
    /// a literal of type `struct N` that needs no value of type N, if the shape has one
    lit: Option<&'static str>,
    /// source of the type of `N.inner` (for uses that bind it)
    has_inner_option: bool,
}

const REC_NAMES: [&str; 2] = ["Envelope", "Rec"];

fn rec_shapes() -> Vec<RecShape> {
    macro_rules! sh {
        ($n:expr, $d:expr, $l:expr, $o:expr) => {
            RecShape { name: $n, defs: $d, lit: $l, has_inner_option: $o }
        };
    }
    vec![
        sh!("direct", "struct N { inner struct N }\n", None, false),
        sh!("option", "struct N { inner option[struct N] }\n", Some("N { inner: None }"), true),
        sh!("option-option", "struct N { inner option[option[struct N]] }\n", Some("N { inner: None }"), true),
        sh!("result-ok", "struct N { inner result[struct N, int] }\n", Some("N { inner: Err(1) }"), false),
        sh!("result-err", "struct N { inner result[int, struct N] }\n", Some("N { inner: Ok(1) }"), false),
        sh!("option-and-bools", "struct N { a bool, inner option[struct N], b bool }\n", Some("N { a: true, inner: None, b: false }"), true),
        sh!("mutual-A-first", "struct A { b option[struct N] }\nstruct N { inner option[struct A] }\n", Some("N { inner: None }"), true),
        sh!("mutual-N-first", "struct N { inner option[struct A] }\nstruct A { b option[struct N] }\n", Some("N { inner: None }"), true),
        sh!("mutual-direct-field", "struct A { b struct N }\nstruct N { inner option[struct A] }\n", Some("N { inner: None }"), true),
        sh!("mutual-direct-both", "struct A { b struct N }\nstruct N { inner struct A }\n", None, false),
        sh!("three-cycle", "struct A { b option[struct B] }\nstruct B { n option[struct N] }\nstruct N { inner option[struct A] }\n", Some("N { inner: None }"), true),
        sh!("insertion-self", "struct N { +N }\n", None, false),
        sh!("insertion-of-recursive", "struct N { inner option[struct N] }\nstruct X { +N, x int }\nstruct Y { y option[struct X] }\n", Some("N { inner: None }"), true),
        sh!("insertion-mutual", "struct A { +N, x int }\nstruct N { inner option[struct A] }\n", Some("N { inner: None }"), true),
        sh!("insertion-cycle", "struct A { +N }\nstruct N { +A }\n", None, false),
        sh!("effect", "effect N { inner option[struct N] }\n", Some("N { inner: None }"), true),
        sh!("fact-value", "fact N[k int]=>{inner option[struct N]}\n", None, true),
        sh!("command-fields", "command N {\n fields { inner option[struct N] }\n seal { return todo() }\n open { return todo() }\n policy { finish {} }\n}\n", Some("N { inner: None }"), true),
        sh!("enum-not-recursive", "enum N { A, B }\nstruct S { e enum N, o option[enum N] }\n", None, false),
    ]
}

const REC_USES: [&str; 16] = [
    "definitions-only",
    "function-parameter",
    "match-inner-without-default",
    "match-inner-with-default",
    "match-option-param-without-default",
    "match-expr-inner-without-default",
    "match-result-param",
    "struct-literal",
    "struct-literal-nested",
    "fact-value",
    "global-let",
    "equality-and-is",
    "composition-and-cast",
    "return-value",
    "action-parameter-and-publish",
    "match-struct-literal-pattern",
];

pub struct RecSpace {
    shapes: Vec<RecShape>,
}

impl RecSpace {
    fn text_of(&self, u: u64, c: u64) -> Option<(String, String)> {
        let sh = &self.shapes[(u as usize) / REC_NAMES.len()];
        let n = REC_NAMES[(u as usize) % REC_NAMES.len()];
        let usage = *REC_USES.get(c as usize)?;
        let defs = sh.defs.replace('N', n);
        let lit = sh.lit.map(|l| l.replace('N', n));
        let ty = format!("struct {n}");
        let body = match usage {
            "definitions-only" => String::new(),
            "function-parameter" => format!("function f(e {ty}) int {{\n return 0\n}}\n"),
            "match-inner-without-default" => format!("function f(e {ty}) int {{\n match e.inner {{\n None => {{ return 0 }}\n }}\n return 1\n}}\n"),
            "match-inner-with-default" => format!("function f(e {ty}) int {{\n match e.inner {{\n None => {{ return 0 }}\n _ => {{ return 1 }}\n }}\n}}\n"),
            "match-option-param-without-default" => format!("function f(o option[{ty}]) int {{\n match o {{\n None => {{ return 0 }}\n }}\n return 1\n}}\n"),
            "match-expr-inner-without-default" => format!("function f(e {ty}) int {{\n let r = match e.inner {{\n None => 0\n }}\n return r\n}}\n"),
            "match-result-param" => format!("function f(r result[{ty}, bool]) int {{\n match r {{\n Err(b) => {{ return 0 }}\n }}\n return 1\n}}\n"),
            "struct-literal" => format!("function f() int {{\n let v = {}\n return 0\n}}\n", lit.clone()?),
            "struct-literal-nested" => {
                if !sh.has_inner_option {
                    return None;
                }
                let l = lit.clone()?;
                format!("function f() int {{\n let v = {}\n return 0\n}}\n", l.replacen("None", &format!("Some({l})"), 1))
            }
            "fact-value" => format!(
                "fact Holder[k int]=>{{v {ty}}}\nfinish function g(e {ty}) {{\n create Holder[k: 1]=>{{v: e}}\n}}\nfunction f() int {{\n let q = query Holder[k: 1]\n match q {{\n None => {{ return 0 }}\n }}\n return 1\n}}\n"
            ),
            "global-let" => format!("let G = {}\nfunction f() int {{\n let v = G\n return 0\n}}\n", lit.clone()?),
            "equality-and-is" => format!("function f(e {ty}, d {ty}) bool {{\n if e.inner is None {{\n return e == d\n }}\n return e != d\n}}\n"),
            "composition-and-cast" => format!("struct Twin {{ +{n} }}\nfunction f(e {ty}) int {{\n let t = e as Twin\n let u = {n} {{ ...e }}\n let s = t substruct {n}\n return 0\n}}\n"),
            "return-value" => format!("function mk(e {ty}) {ty} {{\n return e\n}}\nfunction f(e {ty}) option[{ty}] {{\n return Some(mk(e))\n}}\n"),
            "action-parameter-and-publish" => format!(
                "command Carry {{\n fields {{ payload {ty} }}\n seal {{ return todo() }}\n open {{ return todo() }}\n policy {{\n match this.payload.inner {{\n None => {{ finish {{}} }}\n }}\n }}\n}}\naction a(e {ty}) {{\n publish Carry {{ payload: e }}\n}}\n"
            ),
            _ => {
                let l = lit.clone()?;
                format!("function f(e {ty}) int {{\n match e {{\n {l} => {{ return 0 }}\n }}\n return 1\n}}\n")
            }
        };
        Some((format!("{defs}{body}"), format!("shape {} with name {n}, use {usage}", sh.name)))
    }
}

impl Space for RecSpace {
    fn name(&self) -> &str {
        "rectype"
    }
    fn units(&self) -> u64 {
        (self.shapes.len() * REC_NAMES.len()) as u64
    }
    fn run_unit(&self, u: u64, only: Option<u64>, skip: &BTreeSet<u64>, acc: &mut Acc) {
        let mut accepted = BTreeSet::new();
        for c in 0..REC_USES.len() as u64 {
            if only.is_some_and(|o| o != c) || skip.contains(&c) {
                continue;
            }
            let Some((text, what)) = self.text_of(u, c) else { continue };
            acc.count("rectype_programs", 1);
            run_text("rectype", u, c, Entry::Str, &text, false, acc, &mut accepted, &|| json!({"recursive_type": what}));
        }
        acc.count("distinct_nontrivial", accepted.len() as u64);
    }
    fn describe_fatal(&self, u: u64, c: u64, aux: u64, how: &str) -> (String, String, J) {
        let (text, what) = self.text_of(u, c).unwrap_or_default();
        let usage = REC_USES.get(c as usize).copied().unwrap_or("?");
        let class = if usage.starts_with("match") || usage == "fact-value" || usage == "action-parameter-and-publish" {
            "match"
        } else if usage.contains("literal") || usage == "global-let" {
            "struct literal"
        } else {
            usage
        };
        let st = if aux == 1 { "parse" } else if aux == 9 { "error display" } else { "compile" };
        (
            format!("{st} killed the process ({how}) on a recursive struct type [{class}]"),
            format!("[rectype] process killed by {how} during {} ({} MiB stack) of {what}:\n{text}", stage_name(aux), common::CHILD_STACK_BYTES >> 20),
            json!({"recursive_type": what, "text": text}),
        )
    }
}

// ---------------------------------------------------------------------------------------------

pub fn space_by_name(name: &str, args: &Args) -> Box<dyn Space> {
    let t = args.tier == Tier::Thorough;
    match name {
        "tok-expr" => Box::new(TokSpace::new("tok-expr", Entry::Expr, "", V_EXPR, if t { 5 } else { 4 })),
        "tok-expr-fn" => Box::new(TokSpace::new("tok-expr-fn", Entry::Str, T_EXPR_IN_FN, V_EXPR, if t { 4 } else { 3 })),
        "tok-stmt-fn" => Box::new(TokSpace::new("tok-stmt-fn", Entry::Str, T_STMT_FN, V_STMT, if t { 4 } else { 3 })),
        "tok-stmt-action" => Box::new(TokSpace::new("tok-stmt-action", Entry::Str, T_STMT_ACTION, V_STMT, if t { 4 } else { 3 })),
        "tok-stmt-policy" => Box::new(TokSpace::new("tok-stmt-policy", Entry::Str, T_STMT_POLICY, V_STMT, if t { 4 } else { 3 })),
        "tok-stmt-finish" => Box::new(TokSpace::new("tok-stmt-finish", Entry::Str, T_STMT_FINISH, V_STMT, if t { 4 } else { 3 })),
        "tok-top" => Box::new(TokSpace::new("tok-top", Entry::Str, "", V_TOP, if t { 5 } else { 4 })),
        "tok-type" => Box::new(TokSpace::new("tok-type", Entry::Str, T_TYPE, V_TYPE, if t { 5 } else { 4 })),
        "md" => Box::new(MdSpace::new(if t { 5 } else { 4 }, if t { 5 } else { 4 })),
        "docmut" => Box::new(DocMutSpace::new(t)),
        "wide" => Box::new(WideSpace { types: wide_types() }),
        "rectype" => Box::new(RecSpace { shapes: rec_shapes() }),
        "ladder" => Box::new(LadderSpace { shapes: shapes(), max_depth: if t { 200 } else { 64 }, case_cap_s: if t { 8 } else { 2 } }),
        n => mcx::machinery_error(&format!("C27: unknown space {n}")),
    }
}

pub const SPACES: [&str; 13] = ["wide", "rectype", "tok-expr", "tok-expr-fn", "tok-stmt-fn", "tok-stmt-action", "tok-stmt-policy", "tok-stmt-finish", "tok-top", "tok-type", "md", "docmut", "ladder"];

pub fn run(args: &Args) {
    if let Some(name) = args.extra.get("child") {
        let sp = space_by_name(name, args);
        common::child_main(sp.as_ref(), args);
    }
    if args.replay.is_some() {
        common::replay_main(args, &|n| space_by_name(n, args));
    }
    let mut rep = Report::new(args, Level::Exploration);
    let mut exhaustive = true;
    let mut sizes = Vec::new();
    // debugging aid only: VM_CHECK_SPACES=a,b restricts the run (the vacuity guards then fail it)
    let filter = std::env::var("VM_CHECK_SPACES").ok();
    let names: Vec<&str> = SPACES.iter().copied().filter(|n| filter.as_ref().is_none_or(|f| f.split(',').any(|x| x == *n))).collect();
    let spaces: Vec<Box<dyn Space>> = names.iter().map(|n| space_by_name(n, args)).collect();
    let refs: Vec<&dyn Space> = spaces.iter().map(|b| b.as_ref()).collect();
    let results = common::run_spaces(&refs, args, 32);
    for ((n, sp), (acc, complete)) in names.iter().zip(spaces.iter()).zip(results) {
        exhaustive &= complete;
        sizes.push(json!({"space": n, "units": sp.units(), "child_cpu_wall_s": acc.counters.get("child_wall_ms").copied().unwrap_or(0) / 1000, "evaluations": acc.counters.get("evaluations").copied().unwrap_or(0), "parsed_ok": acc.counters.get("parsed_ok").copied().unwrap_or(0), "compiled_ok": acc.counters.get("compiled_ok").copied().unwrap_or(0)}));
        common::fold(&mut rep, n, acc);
    }
    rep.set("spaces", sizes);
    rep.set("documents_found", documents().iter().map(|d| d.0.clone()).collect::<Vec<_>>().len() as u64);
    rep.set("vocabulary_sizes", json!({"expr": V_EXPR.len(), "stmt": V_STMT.len(), "top": V_TOP.len(), "type": V_TYPE.len(), "md_lines": MD_LINES.len()}));
    let t = args.tier == Tier::Thorough;
    rep.set(
        "rule",
        format!(
            "token strings (joined by single spaces) of every length ≤L over per-context vocabularies: bare expression L={} ({} tokens, parse_expression; each string that parses is also compiled inside a function), top level L={} ({} tokens), expression / statement-in-function / -action / -policy / -finish templates L={} ({} / {} tokens), type position L={} ({} tokens); Markdown documents of ≤{} lines over {} line kinds (with and without trailing newline; quick: 4-line documents only with); every policy document under crates/ (*.md with front matter, *.policy): unmodified, every token deleted / duplicated / swapped with its successor, every byte truncation (quick: documents >3000 bytes get every token deletion, duplication/swap of every 4th token and truncation at line starts); {} nesting shapes at every depth 1..={} on an {} MiB main-thread stack; wide types (structs of k bool / enum fields for k around the 2^64 value-count boundary, nested 8×8, 256- and 1000-variant enums, mixed with unbounded fields) × 6 option/result wrappers × match statement / expression without default, with default, with binding arms, struct composition and field insertion; recursive type definitions (19 shapes: direct, through option / result, mutual, three-cycle, field insertion, effect / fact / command fields, enum control) under the exempt name `Envelope` and an ordinary name × 16 uses (definitions only, parameters, matches with and without default, literals, fact values, global let, comparison, composition / cast, return values, command payload). Every AST returned by the parser is compiled (debug on/off; documents also with the real FFI schemas and stub_ffi). non-trivial = distinct texts accepted by the grammar (reached the AST builder / compiler)",
            if t { 5 } else { 4 },
            V_EXPR.len(),
            if t { 5 } else { 4 },
            V_TOP.len(),
            if t { 4 } else { 3 },
            V_EXPR.len(),
            V_STMT.len(),
            if t { 5 } else { 4 },
            V_TYPE.len(),
            if t { 5 } else { 4 },
            MD_LINES.len(),
            shapes().len(),
            if t { 200 } else { 64 },
            common::CHILD_STACK_BYTES >> 20
        ),
    );
    rep.set("exhaustive", exhaustive);
    if !exhaustive {
        rep.set("cap_hit", "a shard hit the child-restart cap or a child timed out");
    }
    if rep.counter("wide_programs_not_parsing") > 0 {
        mcx::machinery_error("C27: the wide-type generator produced programs that do not parse (see observations)");
    }
    for c in ["evaluations", "parsed_ok", "compiled_ok", "documents_parsing_unmodified", "ladder_shapes", "wide_programs_parsed", "rectype_programs"] {
        rep.require_nonzero(c);
    }
    rep.assume("a panic is an unwind caught by catch_unwind or a fatal signal of the child process (stack exhaustion on an 8 MiB main-thread stack included)");
    rep.assume("formatting (Display) of returned errors is outside the statement; panics there are listed under observations, not judged");
    rep.finish()
}
