//! C31 — the policy-compiler CLI honours validation.
//!
//! The real binary is rebuilt from the current tree whenever its content fingerprint changed (`cargo build --offline --locked -p
//! aranya-policy-compiler --bin policy-compiler` in $VERIF_REPO, target dir next to this
//! checker) and run over the decision table documents × flags × output option. The oracle is
//! computed in-process from the library: accept ⇔ parse ∧ compile ∧ (--no-validate ∨
//! ¬validate(module)) where `validate` returns true when a trace failed.

use std::{
    collections::{BTreeMap, BTreeSet},
    path::{Path, PathBuf},
    process::Command,
    time::Duration,
};

use aranya_policy_compiler::{validate::validate, ActionAnalyzer, Compiler, FinishAnalyzer, FunctionAnalyzer, TraceAnalyzerBuilder, ValueAnalyzer};
use aranya_policy_lang::lang::parse_policy_document;
use aranya_policy_module::{LabelType, Module, ModuleData};
use aranya_policy_vm::Machine;
use mcx::{json, Args, Level, Report, Value as J};

fn doc(body: &str) -> String {
    format!("---\npolicy-version: 2\n---\n\n# Test policy\n\n```policy\n{body}\n```\n")
}

const CMD: &str = r#"
struct Envelope { payload bytes }
command Foo {
    fields { a int }
    seal { return Envelope { payload: payload } }
    open { return Unit }
    policy {
        finish {}
    }
    recall r() {
        finish {}
    }
}
"#;

/// Multi-definition documents: one definition that fails validation (kind × name position in
/// label order) among valid definitions of the same and/or other label types.
/// Label order is by name: aaa < bfn < cact < mcmd < mcmd_r < nnn < xact < yfn < zzz.
fn multi_definition_documents() -> Vec<(&'static str, &'static str, String)> {
    const MCMD: &str = "struct Envelope { payload bytes }\ncommand mcmd {\n fields { a int }\n seal { return Envelope { payload: payload } }\n open { return Unit }\n policy {\n finish {}\n }\n recall r() {\n finish {}\n }\n}\n";
    let valid_fn = |n: &str| format!("function {n}(k int) int {{\n if k > 0 {{\n return 1\n }}\n return 0\n}}\n");
    let valid_act = |n: &str| format!("action {n}(k int) {{\n if k > 0 {{\n publish mcmd {{ a: k }}\n }} else {{\n publish mcmd {{ a: 0 }}\n }}\n}}\n");
    let failing = |kind: &str, n: &str| match kind {
        "function" => format!("function {n}() int {{\n if false {{\n return 0\n }}\n}}\n"),
        "value" => format!("function {n}(c bool) int {{\n if c {{ let x = 1 }}\n if c {{ let x = 2 }}\n return 0\n}}\n"),
        _ => format!("action {n}() {{\n if true {{\n publish mcmd {{ a: 0 }}\n }}\n}}\n"),
    };
    let mut out: Vec<(&'static str, &'static str, String)> = Vec::new();
    let leak = |s: String| -> &'static str { Box::leak(s.into_boxed_str()) };
    for kind in ["function", "value", "action"] {
        for (pos, name) in [("first", "aaa"), ("middle", "nnn"), ("last", "zzz")] {
            for neigh in ["same_type", "other_types", "all_types"] {
                let bad_is_fn = kind != "action";
                let mut body = String::from(MCMD);
                let fns = neigh == "all_types" || (neigh == "same_type") == bad_is_fn;
                let acts = neigh == "all_types" || (neigh == "same_type") != bad_is_fn;
                if fns {
                    body.push_str(&valid_fn("bfn"));
                    body.push_str(&valid_fn("yfn"));
                }
                if acts {
                    body.push_str(&valid_act("cact"));
                    body.push_str(&valid_act("xact"));
                }
                body.push_str(&failing(kind, name));
                out.push((leak(format!("multi_{kind}_{pos}_{neigh}")), leak(format!("validation:{kind}")), doc(&body)));
            }
        }
    }
    // two failing definitions (first and last), and the all-valid control
    let mut body = String::from(MCMD);
    body.push_str(&failing("function", "aaa"));
    body.push_str(&valid_fn("bfn"));
    body.push_str(&valid_act("cact"));
    body.push_str(&failing("action", "zzz"));
    out.push(("multi_two_failing_first_and_last", "validation:function", doc(&body)));
    let mut body = String::from(MCMD);
    for n in ["aaa", "bfn", "yfn", "zzz"] {
        body.push_str(&valid_fn(n));
    }
    for n in ["cact", "nnn", "xact"] {
        body.push_str(&valid_act(n));
    }
    out.push(("multi_all_valid", "valid", doc(&body)));
    out
}


/// Commands whose only validation failure sits inside the `seal` or `open` block (value
/// analyzer: a name set twice on one path), alone and among valid / invalid other definitions,
/// with the command sorting first / in the middle / last in label order.
fn seal_open_documents() -> Vec<(&'static str, &'static str, String)> {
    const ENV: &str = "struct Envelope { payload bytes }\n";
    const MCMD: &str = "command mcmd {\n fields { a int }\n seal { return Envelope { payload: payload } }\n open { return Unit }\n policy {\n finish {}\n }\n}\n";
    let valid_fn = |n: &str| format!("function {n}(k int) int {{\n if k > 0 {{\n return 1\n }}\n return 0\n}}\n");
    let valid_act = |n: &str, cmd: &str| format!("action {n}(k int) {{\n if k > 0 {{\n publish {cmd} {{ a: k }}\n }} else {{\n publish {cmd} {{ a: 0 }}\n }}\n}}\n");
    let bad_fn = |n: &str| format!("function {n}() int {{\n if false {{\n return 0\n }}\n}}\n");
    let twice = "if this.a > 0 {\n let n = 1\n }\n let n = 2\n";
    let cmd = |name: &str, block: &str| {
        let (seal_pre, open_pre) = match block {
            "seal" => (twice, ""),
            "open" => ("", twice),
            "both" => (twice, twice),
            _ => ("", ""),
        };
        format!(
            "command {name} {{\n fields {{ a int }}\n seal {{\n {seal_pre} return Envelope {{ payload: payload }}\n }}\n open {{\n {open_pre} return Unit\n }}\n policy {{\n finish {{}}\n }}\n}}\n"
        )
    };
    let leak = |s: String| -> &'static str { Box::leak(s.into_boxed_str()) };
    let mut out: Vec<(&'static str, &'static str, String)> = Vec::new();
    for block in ["seal", "open"] {
        for (pos, name) in [("first", "aaa"), ("middle", "nnn"), ("last", "zzz")] {
            for neigh in ["alone", "among_valid", "among_invalid"] {
                let mut body = String::from(ENV);
                body.push_str(&cmd(name, block));
                body.push_str(&valid_act("pub", name));
                if neigh != "alone" {
                    body.push_str(MCMD);
                    body.push_str(&valid_fn("bfn"));
                    body.push_str(&valid_fn("yfn"));
                    body.push_str(&valid_act("cact", "mcmd"));
                    body.push_str(&valid_act("xact", "mcmd"));
                }
                if neigh == "among_invalid" {
                    body.push_str(&bad_fn("kbad"));
                }
                out.push((leak(format!("cmd_{block}_set_twice_{pos}_{neigh}")), "validation:value", doc(&body)));
            }
        }
    }
    // second shape of the same failure kind: two block expressions binding the same name
    for block in ["seal", "open"] {
        let pre = "let z = { let t = 1 : t }\n let y = { let t = 2 : t }\n";
        let (sp, op) = if block == "seal" { (pre, "") } else { ("", pre) };
        let body = format!(
            "{ENV}command nnn {{\n fields {{ a int }}\n seal {{\n {sp} return Envelope {{ payload: payload }}\n }}\n open {{\n {op} return Unit\n }}\n policy {{\n finish {{}}\n }}\n}}\n{}",
            valid_act("pub", "nnn")
        );
        out.push((leak(format!("cmd_{block}_block_exprs_same_name")), "validation:value", doc(&body)));
    }
    // both blocks failing, and the valid control of the same shape
    let mut body = String::from(ENV);
    body.push_str(&cmd("nnn", "both"));
    body.push_str(&valid_act("pub", "nnn"));
    out.push(("cmd_seal_and_open_set_twice", "validation:value", doc(&body)));
    let mut body = String::from(ENV);
    body.push_str(&cmd("nnn", "none"));
    body.push_str(&valid_act("pub", "nnn"));
    out.push(("cmd_seal_open_valid_control", "valid", doc(&body)));
    out
}

/// (name, intended class, text). The class actually observed in-process is what the oracle uses;
/// the intended class only feeds the vacuity guards.
fn documents() -> Vec<(&'static str, &'static str, String)> {
    let mut v = base_documents();
    v.extend(multi_definition_documents());
    v.extend(seal_open_documents());
    v
}

fn base_documents() -> Vec<(&'static str, &'static str, String)> {
    let with_cmd = |s: &str| doc(&format!("{CMD}\n{s}"));
    vec![
        ("no_front_matter", "parse_error", "```policy\naction a() {}\n```\n".to_string()),
        ("syntax_error", "parse_error", doc("action a( {")),
        ("bad_version", "parse_error", "---\npolicy-version: 1\n---\n```policy\naction a() {}\n```\n".to_string()),
        ("undefined_name", "compile_error", with_cmd("action a() { let x = y\n publish Foo { a: x } }")),
        ("type_error", "compile_error", with_cmd("action a() { publish Foo { a: true } }")),
        ("fn_missing_return", "validation:function", with_cmd("function b() int {\n if false {\n return 0\n }\n}\naction a() { publish Foo { a: 1 } }")),
        ("fn_missing_return_else", "validation:function", with_cmd("function e() int {\n let n = 0\n if n > 0 {\n }\n else {\n return 0\n }\n}\naction a() { publish Foo { a: 1 } }")),
        ("value_set_twice", "validation:value", with_cmd("function v(c bool) int {\n if c { let x = 1 }\n if c { let x = 2 }\n return 0\n}\naction a() { publish Foo { a: 1 } }")),
        ("action_branch_without_publish", "validation:action", with_cmd("action f() {\n if true {\n publish Foo { a: 0 }\n }\n}")),
        ("action_else_chain_without_publish", "validation:action", with_cmd("action g() {\n if true {\n }\n else if false {\n }\n else {\n publish Foo { a: 0 }\n }\n}")),
        (
            "command_branch_without_finish",
            "valid",
            doc("struct Envelope { payload bytes }\ncommand Bar {\n fields { a int }\n seal { return Envelope { payload: payload } }\n open { return Unit }\n policy {\n if this.a > 0 {\n finish {}\n }\n }\n}\naction a() { publish Bar { a: 1 } }"),
        ),
        (
            "command_match_arm_without_finish",
            "valid",
            doc("struct Envelope { payload bytes }\ncommand Bar {\n fields { a int }\n seal { return Envelope { payload: payload } }\n open { return Unit }\n policy {\n match this.a {\n 0 => { finish {} }\n _ => { }\n }\n }\n}\naction a() { publish Bar { a: 1 } }"),
        ),
        ("valid_action_command", "valid", with_cmd("action a(n int) {\n if n > 0 {\n publish Foo { a: n }\n } else {\n publish Foo { a: 0 }\n }\n}")),
        ("valid_functions", "valid", with_cmd("function h(n int) int {\n match n {\n 0 => { return 0 }\n _ => { return n }\n }\n}\naction a() { publish Foo { a: 2 } }")),
        // the library validator reports "no publish" here (the callee's Return precedes the Publish); the oracle is the library
        ("action_calls_function_before_publish", "validation:action", with_cmd("function h(n int) int {\n return n\n}\naction a() { publish Foo { a: h(2) } }")),
        ("unused_ffi_import", "valid", with_cmd("use nomodule\naction a() { publish Foo { a: 1 } }")),
        ("valid_with_ffi_call", "valid_needs_stub_ffi", with_cmd("use extmod\naction a() { publish Foo { a: extmod::get(1) } }")),
        ("valid_with_ffi_invalid_action", "validation:action", with_cmd("use extmod\naction a() {\n if extmod::yes() {\n publish Foo { a: 1 }\n }\n}")),
    ]
}

#[derive(Debug, Clone)]
struct Oracle {
    parse: bool,
    compile: bool,
    /// true = validation failed (the library's convention)
    validation_failed: Option<bool>,
    /// what the library's validate() returned for the whole module
    library_validate: Option<bool>,
    analyzers_failing: Vec<String>,
}

/// Run `f` with fd 1 pointing at /dev/null (the library validator prints its findings).
fn quiet_stdout<T>(f: impl FnOnce() -> T) -> T {
    use std::io::Write;
    let _ = std::io::stdout().flush();
    // SAFETY: dup/dup2/open/close on valid descriptors; restored before returning.
    unsafe {
        let saved = libc::dup(1);
        let null = libc::open(c"/dev/null".as_ptr(), libc::O_WRONLY);
        if saved >= 0 && null >= 0 {
            libc::dup2(null, 1);
        }
        let r = f();
        let _ = std::io::stdout().flush();
        if saved >= 0 {
            libc::dup2(saved, 1);
            libc::close(saved);
        }
        if null >= 0 {
            libc::close(null);
        }
        r
    }
}

fn analyzers_failing(module: &Module) -> Vec<String> {
    let ModuleData::V0(ref m) = module.data;
    let globals: Vec<_> = m.globals.keys().cloned().collect();
    let mut out = BTreeSet::new();
    for l in m.labels.keys() {
        let runs: Vec<(&str, TraceAnalyzerBuilder<'_>)> = {
            let mut v = Vec::new();
            match l.ltype {
                LabelType::Action => v.push(("action", TraceAnalyzerBuilder::new(m).add_analyzer(ActionAnalyzer::new()))),
                LabelType::CommandPolicy | LabelType::CommandRecall => v.push(("finish", TraceAnalyzerBuilder::new(m).add_analyzer(FinishAnalyzer::new()))),
                LabelType::Function => v.push(("function", TraceAnalyzerBuilder::new(m).add_analyzer(FunctionAnalyzer::new()))),
                _ => {}
            }
            if l.ltype != LabelType::Temporary {
                v.push(("value", TraceAnalyzerBuilder::new(m).add_analyzer(ValueAnalyzer::new(globals.clone()))));
            }
            v
        };
        for (name, b) in runs {
            match b.build().trace(l) {
                Ok(f) if !f.is_empty() => {
                    out.insert(name.to_string());
                }
                Ok(_) => {}
                Err(_) => {
                    out.insert(format!("{name}:trace-error"));
                }
            }
        }
    }
    out.into_iter().collect()
}

fn oracle(text: &str, stub_ffi: bool) -> Oracle {
    let Ok(ast) = parse_policy_document(text) else {
        return Oracle { parse: false, compile: false, validation_failed: None, library_validate: None, analyzers_failing: vec![] };
    };
    let Ok(module) = Compiler::new(&ast).stub_ffi(stub_ffi).compile() else {
        return Oracle { parse: true, compile: false, validation_failed: None, library_validate: None, analyzers_failing: vec![] };
    };
    // "Fails validation" = some label has a trace failure. This is aggregated here, label by
    // label with the library's analyzers, so that the oracle does not depend on how the
    // library's validate() combines the per-label results; validate() itself is recorded too.
    let library_says_failed = quiet_stdout(|| validate(&module));
    let failing = analyzers_failing(&module);
    let any_failed = !failing.is_empty();
    Oracle { parse: true, compile: true, validation_failed: Some(any_failed), library_validate: Some(library_says_failed), analyzers_failing: failing }
}

/// Content fingerprint of everything the CLI build can depend on inside the repository: every
/// file under crates/ (target dirs excluded) plus the workspace manifest, lock file, toolchain
/// file and .cargo config. Content-based (not mtime-based) so that switching between trees
/// (bind-mounted mutants) can never reuse a binary built from other sources.
fn tree_fingerprint(repo: &Path) -> String {
    fn walk(dir: &Path, out: &mut Vec<PathBuf>) {
        let Ok(rd) = std::fs::read_dir(dir) else { return };
        for e in rd.flatten() {
            let p = e.path();
            let name = p.file_name().and_then(|n| n.to_str()).unwrap_or("");
            if p.is_dir() {
                if name == "target" || name == ".git" {
                    continue;
                }
                walk(&p, out);
            } else {
                out.push(p);
            }
        }
    }
    let mut files = Vec::new();
    walk(&repo.join("crates"), &mut files);
    walk(&repo.join(".cargo"), &mut files);
    for f in ["Cargo.toml", "Cargo.lock", "rust-toolchain.toml"] {
        files.push(repo.join(f));
    }
    files.sort();
    let mut h: u64 = 0xcbf29ce484222325;
    let mut h2: u64 = 0x9e3779b97f4a7c15;
    let mut n = 0u64;
    for f in &files {
        let rel = f.strip_prefix(repo).unwrap_or(f).display().to_string();
        let data = std::fs::read(f).unwrap_or_default();
        for b in rel.as_bytes().iter().chain([0u8].iter()).chain(data.iter()) {
            h ^= *b as u64;
            h = h.wrapping_mul(0x100000001b3);
            h2 = (h2 ^ (*b as u64)).wrapping_mul(0xff51afd7ed558ccd).rotate_left(23);
        }
        h ^= data.len() as u64;
        h = h.wrapping_mul(0x100000001b3);
        n += 1;
    }
    format!("{n}:{h:016x}{h2:016x}")
}

/// Returns (binary, whether cargo was invoked).
fn build_cli(repo: &Path) -> (PathBuf, bool) {
    let exe = std::env::current_exe().unwrap_or_else(|e| mcx::machinery_error(&format!("current_exe: {e}")));
    // <ws>/target-p/release/vm-check -> <ws>/target-p/cli
    let target = exe.parent().and_then(|p| p.parent()).map(|p| p.join("cli")).unwrap_or_else(|| mcx::machinery_error("cannot derive CLI target dir"));
    let bin = target.join("debug").join("policy-compiler");
    let stamp = target.join("vm-check-source-fingerprint");
    let fp = tree_fingerprint(repo);
    // The binary is reused only if it was built by this checker from byte-identical sources.
    if bin.is_file() && std::fs::read_to_string(&stamp).is_ok_and(|s| s == fp) {
        return (bin, false);
    }
    let _ = std::fs::remove_file(&stamp);
    let mut cmd = Command::new("cargo");
    cmd.current_dir(repo)
        .args(["build", "--offline", "--locked", "-p", "aranya-policy-compiler", "--bin", "policy-compiler"])
        .env("CARGO_TARGET_DIR", &target)
        .env("CARGO_NET_OFFLINE", "true")
        .env("CARGO_TERM_COLOR", "never")
        .env_remove("RUSTFLAGS");
    let out = mcx::child::run(cmd, Duration::from_secs(1800));
    if !out.clean() {
        mcx::machinery_error(&format!("building policy-compiler from {} failed: {}", repo.display(), out.stderr.lines().rev().take(30).collect::<Vec<_>>().into_iter().rev().collect::<Vec<_>>().join("\n")));
    }
    if !bin.is_file() {
        mcx::machinery_error(&format!("{} not produced", bin.display()));
    }
    // the tree must not have changed while cargo ran
    if tree_fingerprint(repo) == fp {
        let _ = std::fs::write(&stamp, &fp);
    }
    (bin, true)
}

fn loadable(path: &Path) -> Result<(), String> {
    let f = std::fs::File::open(path).map_err(|e| format!("open: {e}"))?;
    let m: Module = ciborium::from_reader(std::io::BufReader::new(f)).map_err(|e| format!("cbor decode: {e}"))?;
    Machine::from_module(m).map(|_| ()).map_err(|e| format!("from_module: {e}"))
}

fn doc_class(o: &Oracle) -> &'static str {
    if !o.parse {
        "parse_error"
    } else if !o.compile {
        "compile_error"
    } else if o.validation_failed == Some(true) {
        "validation_failure"
    } else {
        "valid"
    }
}

struct Row {
    doc: &'static str,
    no_validate: bool,
    stub_ffi: bool,
    dash_o: bool,
}

pub fn run(args: &Args) {
    if args.extra.contains_key("dump") {
        for d in documents() {
            for stub in [false, true] {
                let o = oracle(&d.2, stub);
                println!("{:40} intended={:24} stub_ffi={stub} -> {:?}", d.0, d.1, o);
            }
        }
        std::process::exit(0);
    }
    let mut rep = Report::new(args, Level::Exploration);
    let repo = PathBuf::from(std::env::var("VERIF_REPO").unwrap_or_else(|_| "/repo".into()));
    let t0 = std::time::Instant::now();
    let (cli, cargo_ran) = build_cli(&repo);
    rep.set("cli_build_s", (t0.elapsed().as_secs_f64() * 10.0).round() / 10.0);
    rep.set("cli_cargo_invoked", cargo_ran);
    rep.set("cli_binary", cli.display().to_string());
    let docs = documents();
    let by_name: BTreeMap<&str, &String> = docs.iter().map(|d| (d.0, &d.2)).collect();

    // replay: one row
    let only: Option<(String, bool, bool, bool)> = args.replay.as_ref().map(|p| {
        let v: J = mcx::serde_json::from_str(&std::fs::read_to_string(p).unwrap_or_else(|e| mcx::machinery_error(&format!("replay file: {e}")))).unwrap_or_else(|e| mcx::machinery_error(&format!("replay json: {e}")));
        let r = &v["replay"];
        (r["doc"].as_str().unwrap_or("").to_string(), r["no_validate"].as_bool().unwrap_or(false), r["stub_ffi"].as_bool().unwrap_or(false), r["dash_o"].as_bool().unwrap_or(false))
    });

    let mut rows = Vec::new();
    let mut ordered: Vec<&(&'static str, &'static str, String)> = docs.iter().collect();
    ordered.sort_by_key(|d| (d.1 != "valid", 0));
    for d in ordered {
        for no_validate in [false, true] {
            for stub_ffi in [false, true] {
                for dash_o in [false, true] {
                    // quick tier: the output option is only crossed with the single-purpose
                    // documents (it is independent of how many definitions a document has)
                    let family = d.0.starts_with("multi_") || d.0.starts_with("cmd_");
                    if dash_o && family && args.tier == mcx::Tier::Quick {
                        continue;
                    }
                    rows.push(Row { doc: d.0, no_validate, stub_ffi, dash_o });
                }
            }
        }
    }
    let scratch = mcx::Scratch::new("c31");
    let mut nontrivial = BTreeSet::new();
    let mut table = Vec::new();
    // oracle first (sequential: the library validator prints, fd 1 is redirected meanwhile)
    let mut oracles: BTreeMap<(&str, bool), Oracle> = BTreeMap::new();
    for d in &docs {
        for stub in [false, true] {
            oracles.insert((d.0, stub), oracle(&d.2, stub));
        }
    }
    // then all CLI runs in parallel
    use mcx::rayon::prelude::*;
    let selected: Vec<(usize, &Row)> = rows
        .iter()
        .enumerate()
        .filter(|(_, row)| match &only {
            Some((d, nv, sf, o)) => d == row.doc && *nv == row.no_validate && *sf == row.stub_ffi && *o == row.dash_o,
            None => true,
        })
        .collect();
    let runs: Vec<(usize, mcx::child::ChildOutcome)> = selected
        .par_iter()
        .map(|(i, row)| {
            let text = by_name[row.doc];
            let dir = scratch.path().join(format!("row{i}"));
            std::fs::create_dir_all(&dir).unwrap_or_else(|e| mcx::machinery_error(&format!("scratch: {e}")));
            let input = dir.join("policy.md");
            std::fs::write(&input, text).unwrap_or_else(|e| mcx::machinery_error(&format!("scratch write: {e}")));
            let mut cmd = Command::new(&cli);
            cmd.current_dir(&dir).arg(&input);
            if row.no_validate {
                cmd.arg("--no-validate");
            }
            if row.stub_ffi {
                cmd.arg("--stub-ffi");
            }
            if row.dash_o {
                cmd.arg("-o").arg(dir.join("custom.out"));
            }
            (*i, mcx::child::run(cmd, Duration::from_secs(120)))
        })
        .collect();
    for (i, out) in runs {
        let row = &rows[i];
        let text = by_name[row.doc];
        let orc = oracles[&(row.doc, row.stub_ffi)].clone();
        let class = doc_class(&orc);
        let expect_accept = orc.parse && orc.compile && (row.no_validate || orc.validation_failed == Some(false));
        let dir = scratch.path().join(format!("row{i}"));
        let default_out = dir.join("policy.pmod");
        let o_out = dir.join("custom.out");
        rep.count("evaluations", 1);
        if out.timed_out {
            mcx::machinery_error(&format!("policy-compiler timed out on {}", row.doc));
        }
        let (expected_path, other_path) = if row.dash_o { (&o_out, &default_out) } else { (&default_out, &o_out) };
        let wrote = expected_path.is_file();
        let wrote_other = other_path.is_file();
        let exit_ok = out.code == Some(0);
        let exit_desc = match (out.code, out.signal) {
            (Some(c), _) => format!("exit {c}"),
            (None, Some(s)) => format!("signal {s}"),
            _ => "?".into(),
        };
        let load = if wrote { loadable(expected_path) } else { Err("no file".into()) };
        let cli_accepted = exit_ok && (row.stub_ffi || load.is_ok());
        rep.outcome(&format!("{class}/{}/{}", if row.no_validate { "validate-off" } else { "validate-on" }, if exit_ok { "exit0" } else { "exit-fail" }), 1);
        if orc.parse {
            nontrivial.insert(i);
        }
        rep.count(&format!("rows_{class}"), 1);
        if row.doc.starts_with("cmd_") {
            rep.count(&format!("rows_seal_open_{class}"), 1);
        }
        if row.doc.starts_with("multi_") {
            rep.count(&format!("rows_multi_definition_{class}"), 1);
        }
        if orc.library_validate.is_some() && orc.library_validate != orc.validation_failed {
            rep.count("rows_where_library_validate_differs_from_per_label_verdict", 1);
        }
        for a in &orc.analyzers_failing {
            rep.count(&format!("rows_failing_analyzer_{a}"), 1);
        }
        let flags = format!("{}{}{}", if row.no_validate { "--no-validate " } else { "" }, if row.stub_ffi { "--stub-ffi " } else { "" }, if row.dash_o { "-o custom.out" } else { "" });
        let replay = json!({"doc": row.doc, "no_validate": row.no_validate, "stub_ffi": row.stub_ffi, "dash_o": row.dash_o, "flags": flags.trim(), "document_text": text});
        table.push(json!({"doc": row.doc, "flags": flags.trim(), "oracle": {"parse": orc.parse, "compile": orc.compile, "validation_failed": orc.validation_failed, "library_validate": orc.library_validate, "analyzers": orc.analyzers_failing}, "expected": if expect_accept { "accept" } else { "reject" }, "cli": exit_desc, "module_written": wrote, "module_loads": load.is_ok()}));
        let val = if row.no_validate { "off" } else { "on" };
        let detail = format!(
            "document `{}` ({class}; oracle parse={} compile={} validation_failed={:?}) with flags [{}]: CLI {exit_desc}, module written: {wrote} ({}), stdout: {}",
            row.doc,
            orc.parse,
            orc.compile,
            orc.validation_failed,
            flags.trim(),
            match &load {
                Ok(()) => "loads".to_string(),
                Err(e) => e.clone(),
            },
            out.stdout.lines().take(3).collect::<Vec<_>>().join(" | ")
        );
        if expect_accept && !cli_accepted {
            let how = if !exit_ok { "rejected".to_string() } else { format!("exited 0 but module unusable ({})", load.clone().err().unwrap_or_default()) };
            rep.violation(format!("{class} validate={val}: expected accept, cli {how}"), detail.clone(), replay.clone());
        }
        if !expect_accept && exit_ok {
            rep.violation(format!("{class} validate={val}: expected reject, cli exited 0"), detail.clone(), replay.clone());
        }
        if !expect_accept && !exit_ok && (wrote || wrote_other) {
            rep.violation(format!("{class} validate={val}: module written although the cli failed"), detail.clone(), replay.clone());
        }
        if wrote_other {
            rep.violation("module written to the wrong path".to_string(), detail.clone(), replay.clone());
        }
        if exit_ok && wrote && load.is_err() {
            rep.violation("exit 0 with a module that does not load".to_string(), detail.clone(), replay.clone());
        }
        if i % 19 == 0 {
            rep.sample(table.last().cloned().unwrap());
        }
    }
    if only.is_some() {
        let n = rep.violations().len();
        for v in rep.violations() {
            println!("REPLAY reproduced: {}\n  {}", v.key, v.description);
        }
        std::process::exit(if n == 0 { 0 } else { 1 });
    }
    rep.set("decision_table", table);
    rep.set("distinct_nontrivial", nontrivial.len() as u64);
    rep.set("documents", docs.iter().map(|d| json!({"name": d.0, "intended": d.1})).collect::<Vec<_>>());
    rep.set("rule", "decision table: 18 single-purpose documents (parse errors, compile errors, one or more per validator analyzer that can fail on compiler output (function return, value set twice, action publish), valid with and without FFI use) plus 29 multi-definition documents (failing kind × the failing definition sorting first / in the middle / last in label order × valid neighbours of the same type / other types / all types; two failing definitions; all valid) plus 22 documents whose only failure (a name set twice on one path) is inside a command's seal or open block (block × command sorting first / middle / last × alone / among valid / among invalid definitions; two block expressions binding the same name; both blocks; valid control) × {∅, --no-validate} × {∅, --stub-ffi} × {default output path, -o} (quick: -o only for the single-purpose documents); each row runs the freshly built policy-compiler binary; oracle computed in-process from parse_policy_document / Compiler / validate. non-trivial = distinct rows whose document parses (gets past the CLI's first check)");
    rep.set("exhaustive", true);
    for c in ["rows_parse_error", "rows_compile_error", "rows_validation_failure", "rows_valid", "rows_failing_analyzer_function", "rows_failing_analyzer_value", "rows_failing_analyzer_action", "rows_multi_definition_validation_failure", "rows_multi_definition_valid", "rows_seal_open_validation_failure", "rows_seal_open_valid"] {
        rep.require_nonzero(c);
    }
    rep.assume("with --stub-ffi the tool documents that it writes no module; those rows are judged on the exit status only");
    rep.assume("'fails validation' means: some label of the compiled module has a trace failure under the library's analyzers (function return, action publish, finish, value), aggregated by the checker label by label; the library's own validate() verdict is recorded per row but is not the oracle");
    rep.finish()
}
