//! Shared plumbing of vm-check: a *space* is a finite, indexable set of cases
//! (`unit` × `case`); spaces are enumerated completely by single-threaded child processes
//! (one shard each, shards interleaved over units) so that an abort / signal is observed as
//! a host panic of exactly one case, after which the shard is resumed behind that case.

use std::{
    collections::{BTreeMap, BTreeSet},
    sync::atomic::{AtomicU64, Ordering},
    time::Duration,
};

use mcx::{json, rayon::prelude::*, Args, Report, Value};

/// What the child is executing right now (read by the fatal-signal handler).
pub static CUR_UNIT: AtomicU64 = AtomicU64::new(u64::MAX);
pub static CUR_CASE: AtomicU64 = AtomicU64::new(u64::MAX);
/// Free-form detail (C25: program counter) of the running case.
pub static CUR_AUX: AtomicU64 = AtomicU64::new(u64::MAX);

/// Result accumulator of a child (and, merged, of the parent).
#[derive(Default)]
pub struct Acc {
    pub counters: BTreeMap<String, u64>,
    pub outcomes: BTreeMap<String, u64>,
    /// key -> (unit, case, description, replay)
    pub violations: BTreeMap<String, (u64, u64, String, Value)>,
    pub samples: Vec<Value>,
    /// informational observations that are not verdicts (key -> (count, first example))
    pub notes: BTreeMap<String, (u64, String)>,
}

impl Acc {
    pub fn count(&mut self, k: &str, n: u64) {
        if let Some(c) = self.counters.get_mut(k) {
            *c += n;
        } else {
            self.counters.insert(k.to_string(), n);
        }
    }
    pub fn outcome(&mut self, k: &str) {
        if let Some(c) = self.outcomes.get_mut(k) {
            *c += 1;
        } else {
            self.outcomes.insert(k.to_string(), 1);
        }
    }
    pub fn violation(&mut self, unit: u64, case: u64, key: String, desc: String, replay: Value) {
        self.count("violating_cases", 1);
        match self.violations.get(&key) {
            Some((u, c, _, _)) if (*u, *c) <= (unit, case) => {}
            _ => {
                self.violations.insert(key, (unit, case, desc, replay));
            }
        }
    }
    pub fn note(&mut self, key: &str, example: impl FnOnce() -> String) {
        match self.notes.get_mut(key) {
            Some((n, _)) => *n += 1,
            None => {
                self.notes.insert(key.to_string(), (1, example()));
            }
        }
    }
    pub fn sample(&mut self, v: impl FnOnce() -> Value) {
        if self.samples.len() < 2 {
            self.samples.push(v());
        }
    }
    pub fn absorb(&mut self, o: Acc) {
        for (k, v) in o.counters {
            *self.counters.entry(k).or_insert(0) += v;
        }
        for (k, v) in o.outcomes {
            *self.outcomes.entry(k).or_insert(0) += v;
        }
        for (k, (u, c, d, r)) in o.violations {
            match self.violations.get(&k) {
                Some((u0, c0, _, _)) if (*u0, *c0) <= (u, c) => {}
                _ => {
                    self.violations.insert(k, (u, c, d, r));
                }
            }
        }
        for (k, (n, e)) in o.notes {
            match self.notes.get_mut(&k) {
                Some((n0, _)) => *n0 += n,
                None => {
                    self.notes.insert(k, (n, e));
                }
            }
        }
        for s in o.samples {
            if self.samples.len() < 6 {
                self.samples.push(s);
            }
        }
    }
    fn to_json(&self) -> Value {
        json!({
            "c": self.counters,
            "o": self.outcomes,
            "v": self.violations.iter().map(|(k,(u,c,d,r))| json!([k,u,c,d,r])).collect::<Vec<_>>(),
            "s": self.samples,
            "n": self.notes.iter().map(|(k,(n,e))| json!([k,n,e])).collect::<Vec<_>>(),
        })
    }
    fn from_json(v: &Value) -> Option<Acc> {
        let mut a = Acc::default();
        for (k, x) in v.get("c")?.as_object()? {
            a.counters.insert(k.clone(), x.as_u64()?);
        }
        for (k, x) in v.get("o")?.as_object()? {
            a.outcomes.insert(k.clone(), x.as_u64()?);
        }
        for x in v.get("v")?.as_array()? {
            let x = x.as_array()?;
            a.violations.insert(
                x[0].as_str()?.to_string(),
                (x[1].as_u64()?, x[2].as_u64()?, x[3].as_str()?.to_string(), x[4].clone()),
            );
        }
        for x in v.get("s")?.as_array()? {
            a.samples.push(x.clone());
        }
        for x in v.get("n")?.as_array()? {
            let x = x.as_array()?;
            a.notes.insert(x[0].as_str()?.to_string(), (x[1].as_u64()?, x[2].as_str()?.to_string()));
        }
        Some(a)
    }
}

/// A finite case space. Implementations must be deterministic functions of (prop, tier, name).
pub trait Space: Sync {
    fn name(&self) -> &str;
    /// Number of units.
    fn units(&self) -> u64;
    /// Run all cases of unit `u` (or only case `only`), skipping the cases in `skip`
    /// (cases known to kill the process). Must store CUR_CASE before each case.
    fn run_unit(&self, u: u64, only: Option<u64>, skip: &BTreeSet<u64>, acc: &mut Acc);
    /// Describe a case that killed the process: (violation key, description, replay detail).
    fn describe_fatal(&self, u: u64, c: u64, aux: u64, how: &str) -> (String, String, Value);
    /// Wall-clock budget of one unit in seconds (SIGALRM; a unit that exceeds it is reported as
    /// "no verdict: time cap" for the running case, never as a violation). Spaces may re-arm
    /// the alarm per case themselves.
    fn unit_time_cap_s(&self) -> u32 {
        60
    }
    /// Timeout for one child over its whole shard.
    fn child_timeout(&self) -> Duration {
        Duration::from_secs(3600)
    }
}

// ---------------------------------------------------------------------------------------------
// child side

fn write_num(buf: &mut [u8], pos: &mut usize, mut n: u64) {
    let mut tmp = [0u8; 20];
    let mut i = 0;
    if n == 0 {
        tmp[0] = b'0';
        i = 1;
    }
    while n > 0 {
        tmp[i] = b'0' + (n % 10) as u8;
        n /= 10;
        i += 1;
    }
    while i > 0 {
        i -= 1;
        if *pos < buf.len() {
            buf[*pos] = tmp[i];
            *pos += 1;
        }
    }
}
fn write_str(buf: &mut [u8], pos: &mut usize, s: &[u8]) {
    for b in s {
        if *pos < buf.len() {
            buf[*pos] = *b;
            *pos += 1;
        }
    }
}

extern "C" fn fatal_handler(sig: libc::c_int) {
    // async-signal-safe: format into a stack buffer, write(2), restore default, re-raise.
    let mut buf = [0u8; 128];
    let mut p = 0;
    write_str(&mut buf, &mut p, b"\nFATAL sig=");
    write_num(&mut buf, &mut p, sig as u64);
    write_str(&mut buf, &mut p, b" unit=");
    write_num(&mut buf, &mut p, CUR_UNIT.load(Ordering::Relaxed));
    write_str(&mut buf, &mut p, b" case=");
    write_num(&mut buf, &mut p, CUR_CASE.load(Ordering::Relaxed));
    write_str(&mut buf, &mut p, b" aux=");
    write_num(&mut buf, &mut p, CUR_AUX.load(Ordering::Relaxed));
    write_str(&mut buf, &mut p, b"\n");
    // SAFETY: plain syscalls on a valid buffer.
    unsafe {
        libc::write(2, buf.as_ptr() as *const libc::c_void, p);
        libc::signal(sig, libc::SIG_DFL);
        libc::raise(sig);
    }
}

/// Install handlers that report the running case when the process is about to die.
/// SIGSEGV/SIGBUS run on an alternate stack so that stack exhaustion is reported too.
pub fn install_fatal_handlers() {
    // SAFETY: standard sigaltstack/sigaction setup; the alt stack is leaked on purpose.
    unsafe {
        let sz = 1 << 16;
        let stack = Box::leak(vec![0u8; sz].into_boxed_slice());
        let ss = libc::stack_t { ss_sp: stack.as_mut_ptr() as *mut libc::c_void, ss_flags: 0, ss_size: sz };
        libc::sigaltstack(&ss, std::ptr::null_mut());
        for sig in [libc::SIGSEGV, libc::SIGBUS, libc::SIGABRT, libc::SIGILL, libc::SIGFPE, libc::SIGALRM] {
            let mut sa: libc::sigaction = std::mem::zeroed();
            sa.sa_sigaction = fatal_handler as usize;
            sa.sa_flags = libc::SA_ONSTACK | libc::SA_NODEFER;
            libc::sigemptyset(&mut sa.sa_mask);
            libc::sigaction(sig, &sa, std::ptr::null_mut());
        }
    }
}

/// Child entry: enumerate units `shard, shard+n, …` starting at `from`.
pub fn child_main(space: &dyn Space, args: &Args) -> ! {
    let get = |k: &str| args.extra.get(k).and_then(|s| s.parse::<u64>().ok());
    let shard = get("shard").unwrap_or(0);
    let n = get("nshards").unwrap_or(1).max(1);
    let from = get("from").unwrap_or(shard);
    let mut skip: BTreeMap<u64, BTreeSet<u64>> = BTreeMap::new();
    if let Some(s) = args.extra.get("skip") {
        for part in s.split(',').filter(|p| !p.is_empty()) {
            if let Some((u, c)) = part.split_once(':') {
                if let (Ok(u), Ok(c)) = (u.parse(), c.parse()) {
                    skip.entry(u).or_default().insert(c);
                }
            }
        }
    }
    mcx::quiet_panics();
    install_fatal_handlers();
    // Keep freed memory in the process: the subjects allocate and free large buffers per case
    // and glibc would otherwise mmap/munmap (and page-fault) them every time.
    // SAFETY: mallopt only tunes the allocator.
    unsafe {
        libc::mallopt(libc::M_MMAP_THRESHOLD, 1 << 25);
        libc::mallopt(libc::M_TRIM_THRESHOLD, 1 << 29);
        libc::mallopt(libc::M_TOP_PAD, 1 << 24);
    }
    if let (Some(u), Some(c)) = (get("only-unit"), get("only-case")) {
        // replay of one recorded case
        CUR_UNIT.store(u, Ordering::Relaxed);
        let mut acc = Acc::default();
        space.run_unit(u, Some(c), &BTreeSet::new(), &mut acc);
        println!("P {} {}", u, acc.to_json());
        println!("DONE");
        std::process::exit(0)
    }
    let empty = BTreeSet::new();
    let mut acc = Acc::default();
    let mut last_flush = std::time::Instant::now();
    let mut u = from;
    let total = space.units();
    while u < total {
        CUR_UNIT.store(u, Ordering::Relaxed);
        CUR_CASE.store(u64::MAX, Ordering::Relaxed);
        // SAFETY: plain syscall.
        unsafe { libc::alarm(space.unit_time_cap_s()) };
        space.run_unit(u, None, skip.get(&u).unwrap_or(&empty), &mut acc);
        // SAFETY: plain syscall.
        unsafe { libc::alarm(0) };
        if last_flush.elapsed() > Duration::from_millis(200) {
            println!("P {} {}", u, acc.to_json());
            acc = Acc::default();
            last_flush = std::time::Instant::now();
        }
        u += n;
    }
    println!("P {} {}", u64::MAX, acc.to_json());
    println!("DONE");
    std::process::exit(0)
}

// ---------------------------------------------------------------------------------------------
// parent side

fn parse_fatal(stderr: &str) -> Option<(u64, u64, u64, u64)> {
    let line = stderr.lines().rev().find(|l| l.starts_with("FATAL sig="))?;
    let mut sig = None;
    let mut unit = None;
    let mut case = None;
    let mut aux = None;
    for tok in line.split_whitespace() {
        if let Some((k, v)) = tok.split_once('=') {
            let v = v.parse::<u64>().ok();
            match k {
                "sig" => sig = v,
                "unit" => unit = v,
                "case" => case = v,
                "aux" => aux = v,
                _ => {}
            }
        }
    }
    Some((sig?, unit?, case?, aux?))
}

/// Stack limit of every child's main thread (the Linux default, fixed here so that the
/// nesting ladders of C27 do not depend on the invoking shell).
pub const CHILD_STACK_BYTES: u64 = 8 << 20;

/// Re-exec this binary as a child with a fixed stack limit and without core dumps.
pub fn run_child(args: &[String], timeout: Duration) -> mcx::child::ChildOutcome {
    use std::os::unix::process::CommandExt;
    let exe = std::env::current_exe().unwrap_or_else(|e| mcx::machinery_error(&format!("current_exe: {e}")));
    let mut cmd = std::process::Command::new(exe);
    cmd.args(args);
    // SAFETY: setrlimit is async-signal-safe; nothing else happens between fork and exec.
    unsafe {
        cmd.pre_exec(|| {
            let core = libc::rlimit { rlim_cur: 0, rlim_max: 0 };
            libc::setrlimit(libc::RLIMIT_CORE, &core);
            let mut st = libc::rlimit { rlim_cur: 0, rlim_max: 0 };
            libc::getrlimit(libc::RLIMIT_STACK, &mut st);
            st.rlim_cur = CHILD_STACK_BYTES.min(st.rlim_max);
            libc::setrlimit(libc::RLIMIT_STACK, &st);
            Ok(())
        });
    }
    mcx::child::run(cmd, timeout)
}

/// Enumerate `space` completely in `nshards` child processes. Returns the merged accumulator
/// and whether the enumeration was complete.
pub fn run_space(space: &dyn Space, args: &Args, nshards: u64) -> (Acc, bool) {
    run_spaces(&[space], args, nshards).pop().unwrap()
}

/// One shard of one space: spawn the child, resume it behind every fatal / time-capped case.
fn run_shard(space: &dyn Space, args: &Args, nshards: u64, shard: u64) -> (Acc, bool, f64) {
    const MAX_RESTARTS: u32 = 400;
    let total = space.units();
    let t0 = std::time::Instant::now();
    let (acc, complete) = (|| {
            let mut acc = Acc::default();
            let mut from = shard;
            let mut skip: Vec<(u64, u64)> = Vec::new();
            let mut restarts = 0;
            loop {
                if from >= total {
                    return (acc, true);
                }
                let mut a = vec![
                    "--prop".to_string(),
                    args.prop.clone(),
                    "--tier".to_string(),
                    args.tier.as_str().to_string(),
                    "--verif-dir".to_string(),
                    args.verif_dir.display().to_string(),
                    "--child".to_string(),
                    space.name().to_string(),
                    "--shard".to_string(),
                    shard.to_string(),
                    "--nshards".to_string(),
                    nshards.to_string(),
                    "--from".to_string(),
                    from.to_string(),
                ];
                if !skip.is_empty() {
                    a.push("--skip".to_string());
                    a.push(skip.iter().map(|(u, c)| format!("{u}:{c}")).collect::<Vec<_>>().join(","));
                }
                let out = run_child(&a, space.child_timeout());
                // fold progress lines
                let mut done_through: Option<u64> = None;
                let mut finished = false;
                for line in out.stdout.lines() {
                    if line == "DONE" {
                        finished = true;
                    } else if let Some(rest) = line.strip_prefix("P ") {
                        if let Some((u, js)) = rest.split_once(' ') {
                            if let (Ok(u), Ok(v)) = (u.parse::<u64>(), mcx::serde_json::from_str::<Value>(js)) {
                                if let Some(part) = Acc::from_json(&v) {
                                    acc.absorb(part);
                                    done_through = Some(u);
                                }
                            }
                        }
                    }
                }
                if finished && out.code == Some(0) {
                    return (acc, true);
                }
                if out.timed_out {
                    acc.count("child_timeouts", 1);
                    return (acc, false);
                }
                // the child died: find out on which case
                match parse_fatal(&out.stderr) {
                    Some((sig, u, c, aux)) if sig == libc::SIGALRM as u64 && u != u64::MAX && c != u64::MAX => {
                        // time cap: no verdict for this case
                        let (_, desc, _) = space.describe_fatal(u, c, aux, "time cap");
                        acc.count("time_capped_cases", 1);
                        acc.note("time cap reached (no verdict)", || desc.clone());
                        acc.count(&format!("tally:time_capped unit {u} case {c}"), 1);
                        skip.push((u, c));
                    }
                    Some((sig, u, c, aux)) if u != u64::MAX && c != u64::MAX => {
                        let how = format!("signal {sig}");
                        let (key, desc, replay) = space.describe_fatal(u, c, aux, &how);
                        let tail: String = out.stderr.lines().rev().take(6).collect::<Vec<_>>().into_iter().rev().collect::<Vec<_>>().join("\n");
                        acc.violation(u, c, key, format!("{desc}\nchild stderr tail:\n{tail}"), replay);
                        acc.count("fatal_cases", 1);
                        acc.count(&format!("tally:fatal {} unit {u} case {c}", space.name()), 1);
                        skip.push((u, c));
                    }
                    _ => {
                        mcx::machinery_error(&format!(
                            "child for space {} shard {shard} died without naming a case (code {:?} signal {:?}); stderr tail: {}",
                            space.name(),
                            out.code,
                            out.signal,
                            out.stderr.lines().rev().take(5).collect::<Vec<_>>().join(" | ")
                        ));
                    }
                }
                // resume behind the last flushed unit
                from = match done_through {
                    Some(u) if u != u64::MAX => u + nshards,
                    _ => from,
                };
                restarts += 1;
                if restarts > MAX_RESTARTS {
                    acc.count("restart_cap_hit", 1);
                    return (acc, false);
                }
            }
    })();
    (acc, complete, t0.elapsed().as_secs_f64())
}

/// Enumerate several spaces completely, all shards of all spaces sharing one worker pool (no
/// barrier between spaces). Returns per space the merged accumulator, completeness, and puts
/// the summed child wall time into the counter `child_wall_ms`.
pub fn run_spaces(spaces: &[&dyn Space], args: &Args, nshards: u64) -> Vec<(Acc, bool)> {
    let mut jobs: Vec<(usize, u64)> = Vec::new();
    // interleave spaces so that heavy spaces do not queue behind each other
    let per: Vec<u64> = spaces.iter().map(|s| nshards.min(s.units().max(1))).collect();
    for shard in 0..nshards {
        for (si, n) in per.iter().enumerate() {
            if shard < *n {
                jobs.push((si, shard));
            }
        }
    }
    let results: Vec<(usize, Acc, bool, f64)> = jobs
        .into_par_iter()
        .map(|(si, shard)| {
            let (a, c, t) = run_shard(spaces[si], args, per[si], shard);
            (si, a, c, t)
        })
        .collect();
    let mut out: Vec<(Acc, bool)> = spaces.iter().map(|_| (Acc::default(), true)).collect();
    for (si, a, c, t) in results {
        out[si].0.absorb(a);
        out[si].1 &= c;
        out[si].0.count("child_wall_ms", (t * 1000.0) as u64);
    }
    out
}

/// Fold a space's accumulator into the report (prefixing counters with the space name where
/// they are not global).
pub fn fold(rep: &mut Report, space: &str, acc: Acc) {
    let mut tallies = rep.coverage.get("tallies").and_then(|v| v.as_object().cloned()).unwrap_or_default();
    for (k, v) in &acc.counters {
        if let Some(t) = k.strip_prefix("tally:") {
            let cur = tallies.get(t).and_then(|x| x.as_u64()).unwrap_or(0);
            tallies.insert(t.to_string(), json!(cur + *v));
            continue;
        }
        if k != "child_wall_ms" {
            rep.count(k, *v);
        }
        rep.count(&format!("{space}.{k}"), *v);
    }
    if !tallies.is_empty() {
        rep.set("tallies", Value::Object(tallies));
    }
    for (k, v) in &acc.outcomes {
        rep.outcome(k, *v);
    }
    let mut vs: Vec<_> = acc.violations.into_iter().collect();
    vs.sort_by(|a, b| (a.1 .0, a.1 .1).cmp(&(b.1 .0, b.1 .1)));
    for (key, (u, c, desc, mut replay)) in vs {
        if let Some(o) = replay.as_object_mut() {
            o.insert("space".into(), json!(space));
            o.insert("unit".into(), json!(u));
            o.insert("case".into(), json!(c));
        }
        rep.violation(key, desc, replay);
    }
    for s in acc.samples {
        rep.sample(s);
    }
    if !acc.notes.is_empty() {
        let prev = rep.coverage.get("observations").cloned().unwrap_or_else(|| json!({}));
        let mut m = prev.as_object().cloned().unwrap_or_default();
        for (k, (n, e)) in acc.notes {
            m.insert(format!("{space}: {k}"), json!({"count": n, "first": e}));
        }
        rep.set("observations", Value::Object(m));
    }
}

/// `file:line` of a panic → stable site (no line, no machine-specific prefix).
pub fn panic_site(loc: &str) -> String {
    let file = loc.rsplit_once(':').map(|(f, _)| f).unwrap_or(loc);
    if let Some(i) = file.find("/crates/") {
        return file[i + 1..].to_string();
    }
    if let Some(i) = file.find("/library/") {
        return file[i + 1..].to_string();
    }
    if let Some(i) = file.find("/registry/src/") {
        let rest = &file[i + "/registry/src/".len()..];
        if let Some((_, r)) = rest.split_once('/') {
            return format!("registry/{r}");
        }
    }
    file.to_string()
}

/// Panic message with numbers blanked, cut to a stable prefix.
pub fn panic_class(msg: &str) -> String {
    let mut out = String::new();
    let mut in_num = false;
    for ch in msg.chars() {
        if ch.is_ascii_digit() {
            if !in_num {
                out.push('N');
            }
            in_num = true;
        } else {
            in_num = false;
            out.push(if ch == '\n' { ' ' } else { ch });
        }
        if out.len() >= 80 {
            break;
        }
    }
    out
}

/// Re-execute the case recorded in a replay file (in a child, so that a fatal case is seen
/// again as a fatal case) and exit 1 if it violates again, 0 otherwise.
pub fn replay_main(args: &Args, space_of: &dyn Fn(&str) -> Box<dyn Space>) -> ! {
    let path = args.replay.as_ref().unwrap();
    let text = std::fs::read_to_string(path).unwrap_or_else(|e| mcx::machinery_error(&format!("replay file: {e}")));
    let v: Value = mcx::serde_json::from_str(&text).unwrap_or_else(|e| mcx::machinery_error(&format!("replay json: {e}")));
    let r = &v["replay"];
    let name = r["space"].as_str().unwrap_or_else(|| mcx::machinery_error("replay: no space"));
    let unit = r["unit"].as_u64().unwrap_or_else(|| mcx::machinery_error("replay: no unit"));
    let case = r["case"].as_u64().unwrap_or_else(|| mcx::machinery_error("replay: no case"));
    let space = space_of(name);
    let a: Vec<String> = ["--prop", &args.prop, "--tier", args.tier.as_str(), "--child", name, "--only-unit", &unit.to_string(), "--only-case", &case.to_string()]
        .iter()
        .map(|s| s.to_string())
        .collect();
    let out = run_child(&a, Duration::from_secs(600));
    let mut acc = Acc::default();
    for line in out.stdout.lines() {
        if let Some(rest) = line.strip_prefix("P ") {
            if let Some((_, js)) = rest.split_once(' ') {
                if let Some(part) = mcx::serde_json::from_str::<Value>(js).ok().and_then(|v| Acc::from_json(&v)) {
                    acc.absorb(part);
                }
            }
        }
    }
    if out.code != Some(0) {
        match parse_fatal(&out.stderr) {
            Some((sig, u, c, aux)) => {
                let (key, desc, _) = space.describe_fatal(u, c, aux, &format!("signal {sig}"));
                println!("REPLAY reproduced: {key}\n  {desc}");
                std::process::exit(1)
            }
            None => mcx::machinery_error(&format!("replay child died without naming a case: {:?} {:?}", out.code, out.signal)),
        }
    }
    for (k, (_, _, d, _)) in &acc.violations {
        println!("REPLAY reproduced: {k}\n  {d}");
    }
    println!("REPLAY outcomes: {:?}", acc.outcomes);
    std::process::exit(if acc.violations.is_empty() { 0 } else { 1 })
}
