//! Policy texts compiled by the real front end and used as corpus programs (C25) — small, but
//! together they make the compiler emit every instruction kind it can emit.

use aranya_policy_ast::{Policy, Version};
use aranya_policy_compiler::Compiler;
use aranya_policy_lang::lang::parse_policy_str;
use aranya_policy_module::{
    ffi::{Arg, Func, ModuleSchema, Type},
    Module,
};
use aranya_policy_ast::ident;

pub fn ffi_schema() -> Vec<ModuleSchema<'static>> {
    static ARGS: std::sync::OnceLock<Vec<Arg<'static>>> = std::sync::OnceLock::new();
    static FUNCS: std::sync::OnceLock<Vec<Func<'static>>> = std::sync::OnceLock::new();
    let args = ARGS.get_or_init(|| vec![Arg { name: ident!("v"), vtype: Type::Int }]);
    let funcs = FUNCS.get_or_init(|| {
        vec![
            Func { name: ident!("inc"), args: args.as_slice(), return_type: Type::Int },
            Func { name: ident!("yes"), args: &[], return_type: Type::Bool },
        ]
    });
    vec![ModuleSchema { name: ident!("ext"), functions: funcs.as_slice(), structs: &[], enums: &[] }]
}

pub fn parse_compile(src: &str) -> Result<(Policy, Module), String> {
    let ast = parse_policy_str(src, Version::V2).map_err(|e| format!("parse: {e}"))?;
    let schema = ffi_schema();
    let module = Compiler::new(&ast).ffi_modules(&schema).debug(true).compile().map_err(|e| format!("compile: {e}"))?;
    Ok((ast, module))
}

pub fn vm_corpus() -> Vec<(&'static str, &'static str)> {
    vec![("pure", PURE), ("facts", FACTS), ("cmds", CMDS)]
}

const PURE: &str = r#"
use ext

enum Color { Red, Green, Blue }
struct S { a int, b bool }
struct T { a int, b bool, c string }
struct W { s struct S, o option[int], r result[int, bool], e enum Color }
let G = 42
let GS = S { a: 1, b: true }

function f_add(a int, b int) int {
    let r = add(a, b)
    let q = sub(a, b)
    if q is None {
        return saturating_sub(a, b)
    }
    return r or saturating_add(a, b)
}

function f_cmp(a int, b int) bool {
    if a > b {
        return true
    } else if a == b {
        return !(a < b)
    } else {
        return a >= b || (a <= b && a != b)
    }
}

function f_match(n int) int {
    match n {
        0 => { return 1 }
        1 | 2 => { return 2 }
        _ => { return saturating_sub(n, 1) }
    }
}

function f_opt(o option[int]) int {
    let v = match o {
        Some(v) => v
        None => 0
    }
    return v
}

function f_res(r result[int, bool]) int {
    return match r {
        Ok(v) => v
        Err(e) => if e { :1 } else { :0 }
    }
}

function f_wrap(n int) result[option[int], bool] {
    if n == 0 {
        return Err(false)
    }
    return Ok(Some(n))
}

function f_struct(s struct S) struct T {
    let t = T { c: "x", ...s }
    let u = t substruct S
    let w = W { s: u, o: Some(u.a), r: Ok(1), e: Color::Green }
    return T { a: w.s.a, b: !u.b, c: "y" }
}

function f_cast(t struct T) struct S {
    let s = S { a: t.a, b: t.b }
    return s
}

function f_enum(c enum Color) int {
    match c {
        Color::Red => { return 0 }
        Color::Green => { return 1 }
        _ => { return G }
    }
}

function f_block(a int) int {
    let v = {
        let t = saturating_add(a, GS.a)
        : t
    }
    check v > a else return 0
    debug_assert(v > a)
    return f_match(v)
}

function f_ffi(a int) int {
    if ext::yes() {
        return ext::inc(a)
    }
    return a
}

function f_todo(a int) int {
    if a > 0 {
        return todo()
    }
    return a
}
"#;

const FACTS: &str = r#"
struct Envelope { parent_id id, author_id id, command_id id, payload bytes, signature bytes }

fact F[k int]=>{v bool}
fact H[a string, b int]=>{c int, d option[int]}
immutable fact Z[]=>{n int}

effect E { k int, v bool }
effect E2 { n int dynamic, s struct Pair }
struct Pair { l int, r int }

command C {
    attributes { prio: 3 }
    fields { k int, v bool }
    seal { return Envelope { parent_id: envelope_id(), author_id: envelope_id(), command_id: envelope_id(), payload: payload, signature: payload } }
    open { return Unit }
    policy {
        let q = query F[k: this.k]
        check !exists F[k: this.k] else recall bad(1)
        let n = count_up_to 3 F[k: ?]
        let al = at_least 1 F[k: ?]
        let am = at_most 2 H[a: "a", b: ?]
        let ex = exactly 1 H[a: "b", b: 1]=>{c: 1, d: ?}
        if al && am {
            check n >= 0 else recall bad(2)
        }
        finish {
            create F[k: this.k]=>{v: this.v}
            create H[a: "a", b: this.k]=>{c: n, d: None}
            emit E { k: this.k, v: this.v }
            emit E2 { n: n, s: Pair { l: 1, r: 2 } }
            fin(this.k)
        }
    }
    recall bad(code int) {
        finish {
            emit E { k: code, v: false }
        }
    }
}

command D {
    fields { k int }
    seal { return todo() }
    open { return todo() }
    policy {
        let f = query F[k: this.k] or recall no()
        check f.v else recall no()
        finish {
            update F[k: this.k]=>{v: true} to {v: false}
            delete H[a: "a", b: this.k]
        }
    }
    recall no() {
        finish {}
    }
}

function envelope_id() id {
    return todo()
}

finish function fin(k int) {
    create Z[]=>{n: k}
}

action act(k int, v bool) {
    publish C { k: k, v: v }
}

action act_map(lim int) {
    map F[k: ?] as f {
        if f.k < lim {
            publish D { k: f.k }
        }
    }
    publish D { k: lim }
}

action act_nested(k int) {
    action act(k, true)
    let c = C { k: k, v: false }
    publish c
}

ephemeral command Eph {
    fields { s string, o option[struct Pair] }
    seal { return todo() }
    open { return todo() }
    policy { finish {} }
}

ephemeral action eph(s string) result[unit, string] {
    if s == "" {
        return Err("empty")
    }
    publish Eph { s: s, o: Some(Pair { l: 0, r: 0 }) }
    return Ok(Unit)
}
"#;

const CMDS: &str = r#"
struct Envelope { payload bytes }
enum Kind { A, B }
struct Inner { n int, k enum Kind }

command Big {
    fields {
        i int,
        b bool,
        s string,
        y bytes,
        d id,
        e enum Kind,
        st struct Inner,
        o option[struct Inner],
        r result[int, string],
    }
    seal { return Envelope { payload: payload } }
    open { return Unit }
    policy {
        let t = this
        match t.o {
            Some(inner) => {
                check inner.n == t.st.n else recall r()
            }
            None => {}
        }
        let x = match t.r {
            Ok(v) => v
            Err(m) => if m == "" { :0 } else { :1 }
        }
        finish {}
    }
    recall r() { finish {} }
}

action big(i int, s string) {
    let inner = Inner { n: i, k: Kind::B }
    publish Big { i: i, b: i > 0, s: s, y: envelope_bytes(), d: some_id(), e: Kind::A, st: inner, o: Some(inner), r: Err(s) }
}

function envelope_bytes() bytes {
    return todo()
}
function some_id() id {
    return todo()
}
"#;
