//! vm-check: C25 (VM never panics), C26 (command struct serialization), C27 (front ends are
//! total), C31 (policy-compiler CLI honours validation). Bounded exhaustive enumeration of
//! inputs on the real code; every enumeration runs in child processes (see common.rs).
mod c25;
mod c26;
mod c27;
mod c31;
mod common;
mod corpus;

fn main() {
    let args = mcx::parse_args();
    match args.prop.as_str() {
        "C25" => c25::run(&args),
        "C26" => c26::run(&args),
        "C27" => c27::run(&args),
        "C31" => c31::run(&args),
        p => mcx::machinery_error(&format!("vm-check does not serve {p}")),
    }
}
