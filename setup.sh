#!/bin/bash
# Build every checker (both flavours where used) from files on disk only. Offline.
set -u
cd "$(dirname "$0")"
export CARGO_NET_OFFLINE=true
python3 - <<'PY'
import json, glob, os, subprocess, sys
V = os.getcwd()
jobs = set()
for frag in sorted(glob.glob("harness/*/checks.json")):
    ws = os.path.dirname(frag)
    d = json.load(open(frag))
    for pid, c in d["checks"].items():
        fl = c.get("flavours", ["P"])
        if isinstance(fl, dict):
            fl = sorted(set(fl.get("quick", []) + fl.get("thorough", [])))
        for f in fl:
            jobs.add((ws, c["bin"], f, c.get("features")))
        for part in c.get("also", []):
            for f in part.get("flavours", ["P"]):
                jobs.add((os.path.join("harness", part["ws"]), part["bin"], f, part.get("features")))
procs = []
for ws, b, f, feat in sorted(jobs):
    env = dict(os.environ)
    env["CARGO_TARGET_DIR"] = os.path.join(V, ws, "target-s" if f == "S" else "target-p")
    if f == "S":
        env["RUSTFLAGS"] = (env.get("RUSTFLAGS", "") + " --cfg aranya_core_verif").strip()
    pre = os.path.join(ws, "prebuild")
    if os.access(pre, os.X_OK):
        subprocess.run([os.path.abspath(pre)], cwd=ws, env=env, check=False)
    cmd = ["cargo", "build", "--release", "--offline", "--bin", b]
    if feat:
        cmd += ["--features", feat]
    print("building", ws, b, f, flush=True)
    procs.append(((ws, b, f), subprocess.Popen(cmd, cwd=ws, env=env, stdout=subprocess.PIPE, stderr=subprocess.STDOUT, text=True)))
    # at most 3 concurrent cargo builds
    while sum(1 for _, p in procs if p.poll() is None) >= 3:
        import time; time.sleep(1)
rc = 0
for k, p in procs:
    out, _ = p.communicate()
    if p.returncode != 0:
        print("BUILD FAILED", k); print(out[-4000:]); rc = 1
sys.exit(rc)
PY
