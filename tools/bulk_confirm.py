#!/usr/bin/env python3
"""usage: tools/bulk_confirm.py [--all] [ids...]
Orchestrator-side confirmation of seeded changes that carry no `confirmed_by_orchestrator` yet:
in ONE scratch worktree of /repo (/tmp/confirm-wt, own target dir) apply seeded/<id>/patch.diff, put the
demonstration where its README says, run the existing tests of every touched crate (+ the crate that
hosts the demo), then revert the patch and run the demonstration alone.  Confirmed = patch applies,
builds, every pre-existing test passes, demo fails with the patch and passes without it.
Writes the verdict into meta.json; log on stdout."""
import json, os, re, subprocess, sys, glob, shutil

VERIF = os.path.dirname(os.path.dirname(os.path.abspath(__file__)))
WT = "/tmp/confirm-wt"

def sh(cmd, cwd=WT, timeout=3600):
    env = dict(os.environ, CARGO_NET_OFFLINE="true", CARGO_TERM_COLOR="never")
    r = subprocess.run(cmd, cwd=cwd, shell=True, stdout=subprocess.PIPE, stderr=subprocess.STDOUT, text=True, timeout=timeout, env=env)
    return r.returncode, r.stdout

def pkg_of(path):
    m = re.match(r"(crates/[^/]+)/", path)
    if not m: return None, None
    try:
        t = open(os.path.join(WT, m.group(1), "Cargo.toml")).read()
        return m.group(1), re.search(r'^name\s*=\s*"([^"]+)"', t, re.M).group(1)
    except Exception:
        return None, None

def clean():
    sh("git reset -q --hard ; git clean -fdq crates")

FEATURES = {"aranya-fast-channels": "posix", "aranya-crypto": "fs-keystore,memstore,std"}

def run_tests(pkgs, extra=""):
    if len(pkgs) == 1 and pkgs[0] in FEATURES:
        extra = f"--features {FEATURES[pkgs[0]]} " + extra
    code, out = sh("nice -n 10 cargo nextest run --offline --no-fail-fast " + " ".join(f"-p {p}" for p in pkgs) + " " + extra)
    fails = sorted(set(re.findall(r"^\s+FAIL \[[^\]]*\] \(\s*\d+/\d+\) (\S+ \S+)", out, re.M)))
    summ = re.findall(r"Summary \[[^\]]*\] (.*)", out)
    return code, fails, (summ[-1] if summ else out[-400:].replace("\n", " | "))

def main():
    ids = [a for a in sys.argv[1:] if not a.startswith("--")]
    if not os.path.isdir(WT):
        c, o = sh(f"git -C /repo worktree add -q --detach {WT} HEAD", cwd="/")
        if c: print(o); sys.exit(2)
    dirs = sorted(glob.glob(os.path.join(VERIF, "seeded", "C*")))
    for d in dirs:
        sid = os.path.basename(d)
        if ids and sid not in ids: continue
        mp = os.path.join(d, "meta.json")
        if not os.path.exists(mp): continue
        m = json.load(open(mp))
        if m.get("confirmed_by_orchestrator") and "--all" not in sys.argv: continue
        clean()
        c, o = sh(f"git apply {d}/patch.diff")
        if c:
            sh("git reset -q --hard")
            c, o = sh(f"git apply --3way {d}/patch.diff")
            if c == 0: sh("git reset -q")   # keep the change in the working tree only
        if c:
            print(f"{sid}: patch does not apply on HEAD: {o.strip()[:200]}", flush=True); clean(); continue
        files = re.findall(r"^\+\+\+ b/(\S+)", open(f"{d}/patch.diff").read(), re.M)
        pkgs = []
        for f in files:
            _, p = pkg_of(f)
            if p and p not in pkgs: pkgs.append(p)
        # place demos
        demos = []
        readme = ""
        for rp in glob.glob(f"{d}/demo/README*"): readme += open(rp).read()
        for df in glob.glob(f"{d}/demo/*.rs"):
            base = os.path.basename(df)
            mm = re.search(r"(crates/[\w\-]+/(?:tests|examples)/)" + re.escape(base), readme)
            if not mm:
                mm2 = re.search(r"(crates/[\w\-]+/tests)/?", readme)
                dest = (mm2.group(1) + "/") if mm2 else None
            else:
                dest = mm.group(1)
            if not dest: continue
            os.makedirs(os.path.join(WT, dest), exist_ok=True)
            shutil.copy(df, os.path.join(WT, dest, base))
            _, p = pkg_of(dest)
            if p:
                demos.append((p, base[:-3]))
                if p not in pkgs: pkgs.append(p)
        if not pkgs:
            print(f"{sid}: no crate found", flush=True); clean(); continue
        code, fails, summ = run_tests(pkgs)
        demo_bins = {f"{p}::{s}" for p, s in demos}
        pre_fail = [f for f in fails if f.split()[0] not in demo_bins]
        demo_fail = [f for f in fails if f.split()[0] in demo_bins]
        built = "tests run" in summ
        # without patch: demo only
        sh("git reset -q --hard")
        ok_without = None
        if demos:
            okw = True; s2 = ""
            for p, s in demos:
                c2, f2, s2 = run_tests([p], f"--test {s}")
                okw = okw and c2 == 0
            ok_without = okw
        verdict = built and not pre_fail and (bool(demo_fail) if demos else True) and (ok_without is not False)
        txt = (f"tools/bulk_confirm.py on HEAD: with the patch `cargo nextest run -p {' -p '.join(pkgs)}`: {summ}; "
               f"pre-existing tests failing: {len(pre_fail)}; demo tests failing with the patch: {len(demo_fail)}"
               + (f" ({', '.join(x.split()[1] for x in demo_fail[:3])})" if demo_fail else "")
               + (f"; demo without the patch: {'passes' if ok_without else 'FAILS'}" if demos else "; demo not a cargo test (not re-run)"))
        print(f"{sid}: {'CONFIRMED' if verdict else 'NOT-CONFIRMED'} :: {txt}", flush=True)
        if verdict:
            m["confirmed_by_orchestrator"] = txt
            json.dump(m, open(mp, "w"), indent=1)
        clean()
    clean()

main()
