#!/bin/bash
# usage: confirm_seed.sh <worktree> <crate> : applies SEED/patch.diff, runs the crate's suite (+demo), reverts, runs again.
wt="$1"; crate="$2"
cd "$wt" || exit 2
git checkout -q -- . ; git apply --check SEED/patch.diff || { echo "patch does not apply"; exit 2; }
git apply SEED/patch.diff
echo "### WITH PATCH"; cargo nextest run --offline -p "$crate" --no-fail-fast 2>&1 | grep -E "^\s+(FAIL|Summary)|tests run" | sort | uniq | head -12
git checkout -q -- .
echo "### WITHOUT PATCH"; cargo nextest run --offline -p "$crate" --no-fail-fast 2>&1 | grep -E "^\s+(FAIL|Summary)|tests run" | sort | uniq | head -12
