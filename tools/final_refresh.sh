#!/bin/bash
# Runs every registered quick check once against /repo (refreshes evidence/*.json), one sequence per checker
# workspace in parallel, then validates MANIFEST + evidence against the schemas. Log: /dev/shm/final-<ws>.log
cd /verif
python3 - <<'PY' > /dev/shm/final-plan.txt
import json,glob,os
for f in sorted(glob.glob('harness/*/checks.json')):
    ws=os.path.basename(os.path.dirname(f)); ids=sorted(json.load(open(f))['checks'])
    print(ws,' '.join(ids))
PY
while read ws ids; do
  ( for id in $ids; do s=$(date +%s); ./check $id > /dev/shm/final-$id.log 2>&1; echo "$id exit=$? wall=$(( $(date +%s)-s ))s $(tail -1 /dev/shm/final-$id.log | cut -c1-60)"; done > /dev/shm/final-$ws.log 2>&1 ) &
done < /dev/shm/final-plan.txt
wait
cat /dev/shm/final-*-check.log /dev/shm/final-rt-*.log /dev/shm/final-loom-check.log 2>/dev/null | sort -u
