#!/usr/bin/env python3
"""Regenerates the generated blocks of DESIGN.md (sections 6b, 11, 12) from checks.json fragments,
evidence files, known_findings.json and seeded/*/meta.json."""
import json, glob, os, re
V=os.path.dirname(os.path.dirname(os.path.abspath(__file__)))
os.chdir(V)
checks={}
for frag in sorted(glob.glob('harness/*/checks.json')):
    ws=os.path.basename(os.path.dirname(frag)); d=json.load(open(frag))
    for pid,c in d['checks'].items(): checks[pid]=(ws,c)
kf=json.load(open('known_findings.json'))
ready=set(json.load(open('READY.json')))
def esc(s): return s.replace('|','\\|').replace('\n',' ')
# --- status table
rows=[]
for pid in sorted(checks):
    ws,c=checks[pid]; ev=f'evidence/{pid}.json'; wall='-'; cov=''
    if os.path.exists(ev):
        try:
            e=json.load(open(ev)); wall='%.0f s'%e['wall_s']; co=e['coverage']
            n=co.get('traces_validated_against_impl') or co.get('evaluations') or co.get('executions') or 0
            cov=f"{n:,}"
        except Exception: pass
    nf=sum(1 for f in kf['findings'] if f['property']==pid); nx=sum(1 for f in kf['fixed'] if f['property']==pid or pid in f.get('also',[]))
    fl=c.get('flavours',['P']); fl='/'.join(fl) if isinstance(fl,list) else 'q:'+'/'.join(fl['quick'])+' t:'+'/'.join(fl['thorough'])
    rows.append(f"| {pid} | {ws} | {c['level']} | {fl} | {cov} | {wall} | {nx or ''} | {nf or ''} | {'claimed' if pid in ready else 'not yet'} |")
status="| id | workspace | level | flavours | executions / evaluations (last quick run here) | engine wall | defects fixed | known findings | manifest |\n|---|---|---|---|---|---|---|---|---|\n"+"\n".join(rows)+"\n"
# --- findings
fx="| property | commit | what failed |\n|---|---|---|\n"+"\n".join(f"| {f['property']}{(' (also '+', '.join(f['also'])+')') if f.get('also') else ''} | `{esc(f['commit'])}` | {esc(f['what'])} |" for f in kf['fixed'])+"\n"
kn="| property | key (matched exactly) | what fails and why it is recorded rather than repaired |\n|---|---|---|\n"+"\n".join(f"| {f['property']} | `{esc(f['key'])}` | {esc(f['what'])} |" for f in kf['findings'])+"\n"
# --- seeds
srows=[]
for m in sorted(glob.glob('seeded/*/meta.json')):
    d=json.load(open(m)); sid=os.path.basename(os.path.dirname(m))
    det=d.get('detected_by'); 
    srows.append(f"| {sid} | {d.get('property','')} | {esc(d.get('summary',''))} | {esc(d.get('needs',''))} | {esc('; '.join(det) if isinstance(det,list) else str(det or 'not run yet'))} |")
seeds="| seed | property | change | needs | reported by |\n|---|---|---|---|---|\n"+"\n".join(srows)+"\n"
s=open('DESIGN.md').read()
for name,body in [('STATUS',status),('FIXED',fx),('KNOWN',kn),('SEEDS',seeds)]:
    a=f"<!-- BEGIN {name} -->"; b=f"<!-- END {name} -->"
    if a in s:
        s=s[:s.index(a)+len(a)]+"\n"+body+s[s.index(b):]
open('DESIGN.md','w').write(s)
