#!/usr/bin/env python3
"""usage: tools/record_rerun.py <prefix> <suffix> <id> "<what was added>" : for a seed that was missed at first
(/dev/shm/<prefix>-<id>.firstrun.log) and re-run after the check was extended (/dev/shm/<prefix>-<id>.log),
writes both verdicts into seeded/<id><suffix>/meta.json."""
import sys, re, json
prefix, suffix, pid, what = sys.argv[1:5]
mp = f'/verif/seeded/{pid}{suffix}/meta.json'
m = json.load(open(mp))
txt = open(f'/dev/shm/{prefix}-{pid}.log').read()
res = [f"MISSED by {pid} quick at first (no violation reported)."]
for blk in re.split(r'^== ', txt, flags=re.M)[1:]:
    cid = blk.split(':')[0]; code = re.search(r'exit (\d+)', blk)
    keys = re.findall(r'^\s+key: (.*)$', blk, flags=re.M)[:2]
    if code and code.group(1) == '1' and keys:
        res.append(f"After {what}: {cid} quick reports " + ' | '.join(k[:220] for k in keys))
    else:
        res.append(f"After {what}: STILL MISSED by {cid} quick (exit {code.group(1) if code else '?'})")
m['detected_by'] = res
m['checks_run'] = f"tools/run_mutant.sh /tmp/{prefix}-{pid} quick {pid} (before and after the extension)"
json.dump(m, open(mp, 'w'), indent=1)
print(pid, res[-1][:160])
