#!/usr/bin/env python3
"""usage: tools/record_seed_logs.py <prefix> <suffix>: writes detected_by into seeded/<id><suffix>/meta.json from /dev/shm/<prefix>-<id>.log
(only when meta.json has no detected_by yet, or with --force)."""
import sys, glob, os, re, json
prefix, suffix = sys.argv[1], sys.argv[2]
force = '--force' in sys.argv
for log in sorted(glob.glob(f'/dev/shm/{prefix}-C*.log')):
    mm = re.search(r'-(C\d+)\.log$', log)
    if not mm: continue
    pid = mm.group(1)
    mp = f'/verif/seeded/{pid}{suffix}/meta.json'
    if not os.path.exists(mp): continue
    m = json.load(open(mp))
    if 'detected_by' in m and not force: continue
    txt = open(log).read()
    res = []
    for blk in re.split(r'^== ', txt, flags=re.M)[1:]:
        cid = blk.split(':')[0]; code = re.search(r'exit (\d+)', blk)
        keys = re.findall(r'^\s+key: (.*)$', blk, flags=re.M)[:2]
        if code and code.group(1) == '1' and keys:
            res.append(f"{cid} quick: " + ' | '.join(k[:220] for k in keys))
        elif code and code.group(1) == '0':
            res.append(f"MISSED by {cid} quick (no violation reported)")
        else:
            res.append(f"{cid} quick: exit {code.group(1) if code else '?'}: " + blk.strip().splitlines()[-1][:200])
    m['detected_by'] = res; m['checks_run'] = f"tools/run_mutant.sh /tmp/{prefix}-{pid} quick {pid}"
    json.dump(m, open(mp, 'w'), indent=1)
    print(pid, res[0][:120] if res else '')
