#!/bin/bash
# usage: tools/run_mutant.sh <tree-with-the-change> <tier> <ID>...
# Runs the given checks against a modified copy of the repository WITHOUT touching /repo:
# a private mount namespace bind-mounts the tree over /repo; builds go to target-*-mut dirs;
# evidence goes to a scratch directory. Exit status: 0 if every check stayed silent (mutant missed),
# 1 if at least one reported a VIOLATION (mutant detected), 2 on machinery errors.
tree="$1"; tier="$2"; shift 2
# One mutant run at a time: two concurrent runs sharing a target-*-mut directory defeat the mtime
# refresh below (the later build's artefacts are newer than the earlier run's touched sources).
if [ -z "$RUN_MUTANT_LOCKED" ]; then
  export RUN_MUTANT_LOCKED=1
  exec flock /dev/shm/run_mutant.lock "$0" "$tree" "$tier" "$@"
fi
ev=/dev/shm/mut-evidence-$$; mkdir -p "$ev"
# cargo decides freshness by mtime: files of this tree may be OLDER than the artefacts a previous
# mutant left in target-*-mut, which would silently keep the previous mutant's code for crates this
# tree does not touch. Touch every source file of the tree so that all path crates are rebuilt from it.
find "$tree/crates" "$tree/Cargo.toml" "$tree/Cargo.lock" -type f \( -name '*.rs' -o -name 'Cargo.toml' -o -name 'Cargo.lock' -o -name '*.md' -o -name '*.policy' -o -name '*.pest' \) -exec touch {} + 2>/dev/null
rc=0
for id in "$@"; do
  out=$(unshare -m bash -c "mount --bind '$tree' /repo && cd /verif && VERIF_TARGET_SUFFIX=${MUT_SUFFIX:--mut} VERIF_EVIDENCE_DIR=$ev ./check $id --tier $tier" 2>&1)
  st=$?
  echo "== $id: exit $st"
  echo "$out" | grep -E "^VIOLATION|^KNOWN-FINDING|MACHINERY|^  key:|^C[0-9]+ (quick|thorough):" | head -8
  if [ $st -eq 1 ]; then rc=1; elif [ $st -ne 0 ] && [ $rc -eq 0 ]; then rc=2; fi
done
rm -rf "$ev"
exit $rc
