#!/bin/bash
# usage: tools/run_mutant.sh <tree-with-the-change> <tier> <ID>...
# Runs the given checks against a modified copy of the repository WITHOUT touching /repo:
# a private mount namespace bind-mounts the tree over /repo; builds go to target-*-mut dirs;
# evidence goes to a scratch directory. Exit status: 0 if every check stayed silent (mutant missed),
# 1 if at least one reported a VIOLATION (mutant detected), 2 on machinery errors.
#
# Locking: mutant runs of one checker workspace share its target-*-mut directories, and cargo decides
# freshness by mtime. Two concurrent runs on one workspace defeat the refresh below (the later build's
# artefacts are newer than the earlier run's touched sources, which silently keeps the OTHER mutant's
# code). So each check takes the lock(s) of the workspace(s) it builds in, and the tree's sources are
# touched INSIDE the lock, immediately before the build.
tree="$1"; tier="$2"; shift 2
ev=/dev/shm/mut-evidence-$$; mkdir -p "$ev"
rc=0
for id in "$@"; do
  wss=$(python3 - "$id" <<'PY'
import json,glob,os,sys
pid=sys.argv[1]; out=set()
for f in glob.glob('/verif/harness/*/checks.json'):
    c=json.load(open(f))['checks'].get(pid)
    if c:
        out.add(os.path.basename(os.path.dirname(f)))
        for p in c.get('also',[]): out.add(p['ws'])
print(' '.join(sorted(out)))
PY
)
  cmd="find '$tree/crates' '$tree/Cargo.toml' '$tree/Cargo.lock' -type f \( -name '*.rs' -o -name 'Cargo.toml' -o -name 'Cargo.lock' -o -name '*.md' -o -name '*.policy' -o -name '*.pest' \) -exec touch {} + 2>/dev/null; unshare -m bash -c \"mount --bind '$tree' /repo && cd /verif && VERIF_TARGET_SUFFIX=${MUT_SUFFIX:--mut} VERIF_EVIDENCE_DIR=$ev ./check $id --tier $tier\""
  for ws in $wss; do cmd="flock /dev/shm/run_mutant.$ws.lock bash -c $(printf '%q' "$cmd")"; done
  out=$(bash -c "$cmd" 2>&1)
  st=$?
  echo "== $id: exit $st"
  echo "$out" | grep -E "^VIOLATION|^KNOWN-FINDING|MACHINERY|^  key:|^C[0-9]+ (quick|thorough):" | head -8
  if [ $st -eq 1 ]; then rc=1; elif [ $st -ne 0 ] && [ $rc -eq 0 ]; then rc=2; fi
done
rm -rf "$ev"
exit $rc
