#!/bin/bash
# usage: tools/run_seed.sh <seed-name under /verif/seeded> <tier> <ID>... : applies the seed's patch.diff in a PRIVATE
# scratch worktree of /repo (so nobody else can revert it mid-run), runs the checks with run_mutant.sh, removes the worktree.
name="$1"; tier="$2"; shift 2
wt=/tmp/mutwt-$name-$$
git -C /repo worktree add -q --detach "$wt" HEAD || exit 2
( cd "$wt" && git apply /verif/seeded/$name/patch.diff ) || { echo "patch does not apply"; git -C /repo worktree remove --force "$wt"; exit 2; }
/verif/tools/run_mutant.sh "$wt" "$tier" "$@"; rc=$?
( cd "$wt" && git diff --quiet ) && echo "WARNING: patch vanished during the run"
git -C /repo worktree remove --force "$wt"; rm -rf "$wt"; git -C /repo worktree prune
exit $rc
