#!/bin/bash
# usage: tools/seed_daemon.sh <prefix> <suffix> : polls /tmp/<prefix>-Cxx/SEED/meta.json; for every finished seed copies the
# deliverables to /verif/seeded/Cxx<suffix>/ and runs the property's quick check against the patched tree
# (tools/run_mutant.sh). One at a time. Logs: /dev/shm/<prefix>-Cxx.log. Stop with: touch /dev/shm/<prefix>.stop
prefix="$1"; suffix="$2"
while [ ! -f /dev/shm/$prefix.stop ]; do
  for d in /tmp/$prefix-C*/; do
    [ -d "$d" ] || continue
    id=$(basename "$d" | sed "s/$prefix-//")
    [ -f "$d/SEED/meta.json" ] && [ -f "$d/SEED/patch.diff" ] || continue
    [ -f /dev/shm/$prefix-$id.log ] && continue
    # let the agent finish writing / reverting
    sleep 60
    mkdir -p /verif/seeded/$id$suffix; cp -r "$d"/SEED/* /verif/seeded/$id$suffix/ 2>/dev/null
    ( cd "$d" && git checkout -q -- . && git apply SEED/patch.diff ) || { echo "patch does not apply" > /dev/shm/$prefix-$id.log; continue; }
    ( cd /verif && tools/run_mutant.sh "$d" quick $id 2>&1 | cut -c1-260 | head -14 ) > /dev/shm/$prefix-$id.log.tmp 2>&1
    ( cd "$d" && git checkout -q -- . )
    mv /dev/shm/$prefix-$id.log.tmp /dev/shm/$prefix-$id.log
  done
  sleep 30
done
