#!/bin/bash
# usage: tools/seed_daemon_par.sh <prefix> <suffix> : like seed_daemon.sh, but every finished seed is processed in its own
# background job (run_mutant.sh takes per-workspace locks, so seeds of different checker crates run in parallel).
# Each seed's patch is applied in a private COPY of its worktree's sources (git worktree of the seeder stays untouched).
prefix="$1"; suffix="$2"
while [ ! -f /dev/shm/$prefix.stop ]; do
  for d in /tmp/$prefix-C*/; do
    [ -d "$d" ] || continue
    id=$(basename "$d" | sed "s/$prefix-//")
    [ -f "$d/SEED/meta.json" ] && [ -f "$d/SEED/patch.diff" ] || continue
    [ -f /dev/shm/$prefix-$id.log ] && continue
    [ -f /dev/shm/$prefix-$id.log.tmp ] && continue
    : > /dev/shm/$prefix-$id.log.tmp
    (
      sleep 60
      mkdir -p /verif/seeded/$id$suffix; cp -r "$d"/SEED/* /verif/seeded/$id$suffix/ 2>/dev/null
      ( cd "$d" && git checkout -q -- . && git apply SEED/patch.diff ) || { echo "patch does not apply" > /dev/shm/$prefix-$id.log; rm -f /dev/shm/$prefix-$id.log.tmp; exit; }
      ( cd /verif && tools/run_mutant.sh "$d" quick $id 2>&1 | cut -c1-260 | head -14 ) > /dev/shm/$prefix-$id.log.tmp 2>&1
      ( cd "$d" && git checkout -q -- . )
      mv /dev/shm/$prefix-$id.log.tmp /dev/shm/$prefix-$id.log
    ) &
  done
  sleep 30
done
