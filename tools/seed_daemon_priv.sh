#!/bin/bash
# usage: tools/seed_daemon_priv.sh <prefix> <suffix> <ID>... : waits for /tmp/<prefix>-<ID>/SEED/{meta.json,patch.diff}, copies the
# deliverables to /verif/seeded/<ID><suffix>/ and runs the property's quick check from a PRIVATE worktree (tools/run_seed.sh).
prefix="$1"; suffix="$2"; shift 2
pending="$*"
while [ -n "$pending" ] && [ ! -f /dev/shm/$prefix.stop2 ]; do
  next=""
  for id in $pending; do
    d=/tmp/$prefix-$id
    if [ -f "$d/SEED/meta.json" ] && [ -f "$d/SEED/patch.diff" ]; then
      sleep 45
      mkdir -p /verif/seeded/$id$suffix; cp -r "$d"/SEED/* /verif/seeded/$id$suffix/
      ( /verif/tools/run_seed.sh $id$suffix quick $id 2>&1 | cut -c1-260 | head -14 > /dev/shm/$prefix-$id.log.tmp; mv /dev/shm/$prefix-$id.log.tmp /dev/shm/$prefix-$id.log ) &
    else
      next="$next $id"
    fi
  done
  pending="$next"
  sleep 20
done
wait
