#!/usr/bin/env python3
"""Own deliberate property-breaking changes (DESIGN.md section 8), applied to a scratch worktree and
run through tools/run_mutant.sh.  usage: tools/selfmut/run.py [name ...]"""
import subprocess, sys, os
WT = "/tmp/mut-self"
R = "crates/aranya-runtime/src/"
MUT = {
 "lone-keeps-finalize": (R+"client/braiding.rs", "            self.has_finalize = false;\n            let item = self.heap.pop();", "            let item = self.heap.pop();", ["C05"]),
 "revert-early-return": (R+"storage/linear/mod.rs", "        if checkpoint.index == self.commands.len()\n            && self.current_updates.len() == checkpoint.pending\n        {", "        if checkpoint.index == self.commands.len() {", ["C06", "C13"]),
 "commit-no-stamp-check": (R+"client/transaction.rs", "        if original_heads_offset != storage.heads_offset()? {\n            return Err(ClientError::ConcurrentTransaction);\n        }\n", "        let _ = original_heads_offset;\n", ["C08"]),
 "synthetic-head-fold-order": (R+"client/transaction.rs", "    let folded = fold_merge_pairs(entries, |left, right| {", "    let folded = fold_merge_pairs(entries.into_iter().rev(), |left, right| {", ["C04", "C01"]),
 "multihead-cache-from-first-head": (R+"client/transaction.rs", "        let fact_cache = if head_locs.len() == 1 {", "        let fact_cache = if !head_locs.is_empty() {", ["C03", "C04"]),
 "action-commits-before-policy": (R+"client.rs", "        sink.begin();\n        match policy.call_action(action, &mut perspective, sink, ActionPlacement::OnGraph) {\n            Ok(()) => {", "        sink.begin();\n        match policy.call_action(action, &mut perspective, sink, ActionPlacement::OnGraph) {\n            Ok(()) | Err(PolicyError::Panic) => {", ["C07"]),
 "braid-skips-rejected-silently-keeps-going": (R+"client/transaction.rs", "            && !matches!(e, PolicyError::Rejected)\n", "            && !matches!(e, PolicyError::Rejected | PolicyError::Panic)\n", ["C03", "C06"]),
 "head-not-removed-on-merge": (R+"client/transaction.rs", "        self.heads.remove(&left.id);\n        self.heads.remove(&right.id);\n", "        self.heads.remove(&left.id);\n", ["C09", "C01"]),
 "init-accepts-foreign": (R+"client/transaction.rs", "                    } else {\n                        // A synced command claiming to be an init for a\n                        // different graph is invalid peer input.\n                        return Err(ClientError::InitError);\n                    }", "                    }", ["C10"]),
 "session-revert-noop-on-failure": (R+"client/session.rs", "            Err(e) => {\n                perspective.revert(checkpoint)?;\n                perspective.message_sink.rollback();", "            Err(e) => {\n                let _ = checkpoint;\n                perspective.message_sink.rollback();", ["C14"]),
}
names = sys.argv[1:] or list(MUT)
for n in names:
    path, old, new, checks = MUT[n]
    subprocess.run(["git", "-C", WT, "checkout", "-q", "--", "."], check=True)
    subprocess.run(["git", "-C", WT, "checkout", "-q", "--detach", subprocess.run(["git","-C","/repo","rev-parse","HEAD"],capture_output=True,text=True).stdout.strip()], check=True)
    p = os.path.join(WT, path); s = open(p).read()
    if s.count(old) != 1:
        print(f"## {n}: PATTERN NOT FOUND ({s.count(old)})", flush=True); continue
    open(p, "w").write(s.replace(old, new))
    r = subprocess.run(["/verif/tools/run_mutant.sh", WT, "quick"] + checks, capture_output=True, text=True)
    verdict = {0: "MISSED", 1: "DETECTED", 2: "MACHINERY"}.get(r.returncode, str(r.returncode))
    print(f"## {n}: {verdict} by {checks}", flush=True)
    for l in r.stdout.splitlines():
        if l.startswith("==") or l.startswith("  key") or "MACHINERY" in l:
            print("   ", l[:220], flush=True)
subprocess.run(["git", "-C", WT, "checkout", "-q", "--", "."], check=True)
